"""Generators for C16 (see c16.py).  All randomness comes from the `rng` passed in."""
import email.utils
import hashlib
import itertools

PYWS = ''.join(chr(c) for c in range(0x110000) if chr(c).isspace())
OWS = [' ', '\t']
ODD_WS = ['\xa0', '\x0b', '\x0c', '\x1c', '\x1f', '\x85', ' ', '　', '\n', '\r']
UNI_DIGITS = ['٠', '١', '٩', '۳', '१', '１', '９', '\xb2', '\xb9', '①',
              '௧', '\U0001d7d8']


def httpdate(mtime):
    """RFC 1123 date of an integer mtime, computed without cherrypy."""
    return email.utils.formatdate(mtime, usegmt=True)


_CONTENT_CACHE = {}


def content_bytes(case):
    if 'hex' in case:
        return bytes.fromhex(case['hex'])
    key = (case['len'], case['ca'], case['cb'])
    c = _CONTENT_CACHE.get(key)
    if c is None:
        if len(_CONTENT_CACHE) > 64:
            _CONTENT_CACHE.clear()
        a, b = case['ca'], case['cb']
        # byte i = (a*i + b) % 251: one period of 251 bytes repeated
        period = bytes((a * i + b) % 251 for i in range(251))
        n = case['len']
        c = (period * (n // 251 + 1))[:n]
        _CONTENT_CACHE[key] = c
    return c


def gen_len(rng):
    r = rng.random()
    if r < 0.08:
        return 0
    if r < 0.18:
        return 1
    if r < 0.55:
        return rng.randint(2, 40)
    if r < 0.70:
        return rng.randint(41, 300)
    if r < 0.80:
        return rng.choice([65535, 65536, 65537, 70000, 69999, 65534])
    if r < 0.90:
        return rng.randint(301, 70000)
    return rng.choice([14, 100, 255, 256, 1000, 4096, 10000])


def gen_pos(rng, n):
    """A byte position / suffix length biased to the interesting places around n."""
    r = rng.random()
    if r < 0.45:
        cand = [0, 1, 2, n - 2, n - 1, n, n + 1, n + 2, n // 2, 2 * n, 2 * n + 1]
        return max(0, rng.choice(cand))
    if r < 0.80:
        return rng.randint(0, max(n - 1, 0))
    if r < 0.92:
        return rng.randint(n, 2 * n + 10)
    return rng.choice([10 ** 6, 2 ** 31 - 1, 2 ** 31, 2 ** 32, 2 ** 63, 2 ** 64 + 1, 10 ** 20, 10 ** 40])


def num_text(rng, v):
    s = str(v)
    if rng.random() < 0.08:
        s = '0' * rng.randint(1, 3) + s
    return s


def gen_spec(rng, n, allow_invalid=True):
    r = rng.random()
    if r < 0.42:
        a = gen_pos(rng, n)
        b = gen_pos(rng, n)
        if b < a and not (allow_invalid and rng.random() < 0.12):
            a, b = b, a
        return num_text(rng, a) + '-' + num_text(rng, b)
    if r < 0.62:
        return num_text(rng, gen_pos(rng, n)) + '-'
    if r < 0.95:
        k = rng.choice([0, 0, 1, 1, 2, n - 1, n, n + 1, rng.randint(0, n + 5), gen_pos(rng, n)])
        return '-' + num_text(rng, max(0, k))
    a = rng.randint(0, n + 2)
    return '%d-%d' % (a, a)


def ws(rng, level):
    """level 0: none; 1: RFC OWS; 2: any Python whitespace"""
    if level == 0:
        return ''
    pool = OWS if level == 1 else OWS + ODD_WS
    return ''.join(rng.choice(pool) for _ in range(rng.choice([1, 1, 1, 2])))


def gen_range_header(rng, n, wire_safe=False):
    """A Range header value: mostly from the byte-range grammar, then perhaps mutated."""
    r = rng.random()
    k = 1 if r < 0.5 else 2 if r < 0.75 else rng.randint(3, 6)
    invalid_spec = rng.random() < 0.25
    specs = [gen_spec(rng, n, allow_invalid=invalid_spec) for _ in range(k)]
    wl = rng.choices([0, 1, 2], weights=[60, 25, 15])[0]
    if wire_safe and wl == 2:
        wl = 1
    items = []
    for s in specs:
        if wl and rng.random() < 0.3:
            # whitespace inside the spec (tolerated reading)
            a, dash, b = s.partition('-')
            s = a + (ws(rng, wl) if a and rng.random() < 0.5 else '') + '-' + \
                (ws(rng, wl) if b and rng.random() < 0.5 else '') + b
        items.append((ws(rng, wl) if wl and rng.random() < 0.4 else '') + s +
                     (ws(rng, wl) if wl and rng.random() < 0.4 else ''))
    u = rng.random()
    if u < 0.84:
        unit = 'bytes'
    elif u < 0.90:
        unit = rng.choice(['Bytes', 'BYTES', 'bYtEs', 'byteS'])
    else:
        unit = rng.choice(['chars', 'byte', 'bytess', '', 'items', 'bits', 'b', 'bytes bytes', 'none',
                           'ｂytes', 'byteſ', 'bytes\x00'])
        if wire_safe:
            unit = rng.choice(['chars', 'byte', 'bytess', '', 'items', 'none'])
    if wl and rng.random() < 0.2:
        unit = ws(rng, wl) + unit
    if wl and rng.random() < 0.2:
        unit = unit + ws(rng, wl)
    h = unit + '=' + ','.join(items)
    # mutations
    if rng.random() < 0.30:
        for _ in range(rng.choice([1, 1, 2])):
            h = mutate(rng, h, wire_safe)
    return h


MUT_CHARS = list('=-,- 0123456789') + ['\t', 'a', 'x', '+', '_', '.', '/', '*', '"', ';', 'e', '--', ',,', '==', '-,', ',-']


def mutate(rng, h, wire_safe=False):
    kind = rng.random()
    if not h:
        return rng.choice(['bytes', '=', '-', '0-1', 'bytes=', ','])
    i = rng.randrange(len(h))
    if kind < 0.20:
        return h[:i] + h[i + 1:]                                   # delete a character
    if kind < 0.45:
        return h[:i] + rng.choice(MUT_CHARS) + h[i:]               # insert
    if kind < 0.55:
        return h[:i] + rng.choice(MUT_CHARS) + h[i + 1:]           # replace
    if kind < 0.68:
        digs = [j for j, c in enumerate(h) if c.isdigit()]
        if digs:
            j = rng.choice(digs)
            return h[:j] + rng.choice(UNI_DIGITS) + h[j + 1:]      # a digit from another script
        return h + rng.choice(UNI_DIGITS)
    if kind < 0.74:
        return h.replace('=', '', 1)                               # drop '='
    if kind < 0.80:
        return h + rng.choice([',', ',,', ', ', '-', '=', ' ', ',0-0', ',-1', ',5-2'])
    if kind < 0.86:
        return h.replace(',', rng.choice([',,', ', ,', ';', ' ']), 1) if ',' in h else h + ',,' + '0-0'
    if kind < 0.92:
        return h.replace('-', rng.choice(['--', '', ' ', '+', '−', '‐']), 1)
    if kind < 0.96:
        return rng.choice(['', ' ', 'bytes', 'bytes=', 'bytes=-', 'bytes=,', '=0-1', 'bytes=0', 'bytes=abc',
                           'bytes=1-x', 'bytes 0-1', 'bytes:0-1', 'bytes=0-1=', 'bytes==0-1', 'bytes=0x0-0x1',
                           'bytes=+0-+1', 'bytes=1_0-', 'bytes=1e1-', 'bytes=1.0-2', 'bytes=-0', 'bytes=-00',
                           'bytes=--1', 'bytes=0--1', 'bytes=-1-', 'bytes=0-0-0'])
    if wire_safe:
        return h
    j = rng.randrange(len(h) + 1)
    return h[:j] + rng.choice(ODD_WS) + h[j:]                      # odd whitespace anywhere


def enum_small_headers():
    """Small-scope grammar: every list of <= 2 specs over positions {0,1,2,3,5,9} in the three
    forms, plus whitespace / invalid variants of the single specs."""
    pos = ['0', '1', '2', '3', '5', '9']
    specs = []
    for a in pos:
        specs.append(a + '-')
        specs.append('-' + a)
        for b in pos:
            specs.append(a + '-' + b)
    out = ['bytes=' + s for s in specs]
    short = [s for s in specs if len(s) <= 3]
    small = ['0-', '2-', '-0', '-1', '-3', '0-0', '1-2', '2-9', '3-1', '9-', '5-5']
    out += ['bytes=%s,%s' % (a, b) for a in small for b in small]
    out += ['bytes= %s' % s for s in small] + ['bytes=%s ' % s for s in small] + ['Bytes=%s' % s for s in small]
    out += ['bytes=%s,' % s for s in small] + ['bytes=,%s' % s for s in small] + ['bits=%s' % s for s in small]
    out += ['bytes=%s , %s' % (a, b) for a in small[:5] for b in small[:5]]
    out += ['bytes', 'bytes=', '=', '', 'bytes=-', 'bytes=a', 'bytes=1', 'bytes=1-a', 'bytes=a-1', 'bytes=١-',
            'bytes=-١', 'bytes=1-2-3', 'bytes=--1', 'bytes=1--', 'bytes==1-2']
    assert short
    return out


# ---- entity tags / conditional headers -------------------------------------------------------
ETAG_CHARS = 'abcxyzABC0123456789-._~!#$%&\'()*+/:<=>@[]^`{|},;'


def gen_etag(rng):
    r = rng.random()
    body = ''.join(rng.choice(ETAG_CHARS) for _ in range(rng.choice([0, 1, 2, 3, 5, 8])))
    if r < 0.75:
        return '"%s"' % body
    if r < 0.88:
        return 'W/"%s"' % body
    return ''.join(c for c in body if c not in ',;') or 'tok'


def other_etag(rng, e):
    while True:
        o = gen_etag(rng)
        if o != e:
            return o


def gen_cond_etags(rng, current):
    """An If-Match / If-None-Match value relative to the current validator (None = none exists)."""
    r = rng.random()
    cur = current if current else gen_etag(rng)
    if r < 0.22:
        return cur                                                    # matching (if a validator exists)
    if r < 0.40:
        return other_etag(rng, current)                               # non-matching
    if r < 0.52:
        return '*'
    if r < 0.60:                                                      # weak/strong variant of the current one
        return cur[2:] if cur.startswith('W/') else 'W/' + cur
    if r < 0.75:                                                      # list containing the current one
        l = [other_etag(rng, current) for _ in range(rng.randint(1, 3))]
        l.insert(rng.randint(0, len(l)), cur)
        return rng.choice([', ', ',', ' , ', ',\t']).join(l)
    if r < 0.88:                                                      # list without it
        l = [other_etag(rng, current) for _ in range(rng.randint(2, 4))]
        return rng.choice([', ', ',']).join(l)
    if r < 0.92:
        return rng.choice(['*, ', '']) + other_etag(rng, current) + rng.choice([', *', ''])
    if r < 0.94:
        return ' ' + cur + ' '
    if r < 0.97:                                                      # parameters: the element is no longer the tag
        return rng.choice([cur + ';q=1', cur + '; a="b"', '%s, %s;x=y' % (other_etag(rng, current), cur),
                           '%s;x=y, %s' % (cur, cur), '*;q=1', cur + ';', cur + ';noeq'])
    return rng.choice(['', '""', '"', 'W/', ',', cur + ',', cur.strip('"')])


PARAM_NAMES = ['q', 'a', 'Q', 'Ab', 'x-y', 'n1', '', ' k ', 'K', 'a']
PARAM_VALUES = ['1', '0.5', 'v', '"v"', '"a b"', '"a;b"', '"a,b"', '"a\\"b"', '"a\\\\b"', '"', '""', '"x', 'x"', ' v ', '',
                '"\\\\"', '"\\"', 'a=b', '"a"b"', '\\"']


def gen_param(rng):
    r = rng.random()
    if r < 0.80:
        return rng.choice(PARAM_NAMES) + rng.choice(['=', '=', ' = ', '= ']) + rng.choice(PARAM_VALUES)
    if r < 0.90:
        return rng.choice(['noequals', '', ' ', 'q', '"q"'])                    # a piece without '=' is dropped
    return rng.choice(PARAM_NAMES) + '=' + gen_etag(rng)


def with_params(rng, tag):
    n = rng.choice([1, 1, 2, 3])
    sep = rng.choice([';', ';', '; ', ' ;', ';;'])
    return tag + ''.join(sep + gen_param(rng) for _ in range(n))


def gen_elements_value(rng):
    """An If-Match / If-None-Match value for the element parser: entity-tag lists, and the same with
    parameters (quoted values, escapes, repeated names, pieces without '='), semicolons and commas inside
    quotes, repeated values (the sort is stable), stray quotes."""
    r = rng.random()
    if r < 0.05:
        return rng.choice([None, '', '*', ' * ', ',', '"a,b"', '"a,b","c"', '"a"b"', '"a",,"b"', ';', ';a=b', '*;q=1',
                           '"a;b"', '"a\\";b=c', '"x";a=1;a=2', '"x";A=1;a=2', 'b;p=1, a;p=2, b;p=3, a;p=4',
                           '"x" ; q = "1"', ';;', '"a";', '"a";=', '"a";=b'])
    if r < 0.55:
        return gen_cond_etags(rng, gen_etag(rng) if rng.random() < 0.8 else None)
    # lists with parameters; values repeat so that the stable order matters
    pool = [gen_etag(rng) for _ in range(rng.randint(1, 3))]
    els = []
    for _ in range(rng.randint(1, 5)):
        t = rng.choice(pool)
        if rng.random() < 0.6:
            t = with_params(rng, t)
        els.append(rng.choice(['', ' ', '\t']) + t + rng.choice(['', ' ']))
    return ','.join(els)


def gen_cond_date(rng, mtime_text, mtime):
    r = rng.random()
    if r < 0.40 and mtime_text:
        return mtime_text
    if r < 0.62 and mtime is not None:
        return httpdate(mtime + rng.choice([-86400, -1, 1, 3600, 86400 * 400]))
    if r < 0.72 and mtime is not None:
        # the same instant in the two obsolete formats: not *equal* to the current validator
        t = email.utils.parsedate_to_datetime(httpdate(mtime))
        return rng.choice([t.strftime('%A, %d-%b-%y %H:%M:%S GMT'), t.strftime('%a %b %d %H:%M:%S %Y')])
    if r < 0.80 and mtime_text:
        return rng.choice([mtime_text.lower(), mtime_text + ' ', ' ' + mtime_text, mtime_text[:-4],
                           mtime_text.replace('GMT', 'UTC')])
    if r < 0.9:
        return httpdate(rng.randint(0, 2 * 10 ** 9))
    return rng.choice(['', 'yesterday', '0', 'Thu, 01 Jan 1970 00:00:00 GMT', '*'])


SHAPES = ['bytes', 'list', 'gen', 'fobj']


def gen_script(rng, case):
    """What a `gen` handler does before it returns the entity, as letters executed in order:
    B `response.body = entity`, S `validate_since()`, E `validate_etags()`, A `validate_etags(autotags=True)`.
    Mostly the sensible shapes (validate before a body exists / after it was produced); rarely any
    short string over the alphabet."""
    if rng.random() < 0.03:
        return ''.join(rng.choice('BSEA') for _ in range(rng.randint(0, 4)))
    pre, post = '', []
    if case['lm'] is not None:
        u = rng.random()
        if u < 0.40:
            pre += 'S'
        elif u < 0.92:
            post.append('S')
        # else: nobody validates the Last-Modified the handler sets
    v = rng.random()
    if v < 0.30:
        post.append('E' if case['hetag'] and rng.random() < 0.5 else 'A')
    elif v < 0.36 and case['hetag']:
        pre += 'E'
    rng.shuffle(post)
    if post or rng.random() < 0.2:
        return pre + 'B' + ''.join(post)
    return pre


def gen_request(rng):
    """One whole request (stream Q)."""
    focus = rng.choices(['range', 'cond', 'mixed'], weights=[40, 35, 25])[0]
    kind = rng.choices(['file', 'tool', 'fobj', 'bio', 'gen', 'index'],
                       weights=[30, 12, 10, 6, 40 if focus != 'range' else 4, 4])[0]
    method = rng.choices(['GET', 'HEAD', 'POST', 'PUT'], weights=[55, 17, 22, 6])[0]
    if kind in ('tool', 'index') and method not in ('GET', 'HEAD'):
        kind = 'file'
    proto = '1.1' if rng.random() < 0.88 else '1.0'
    case = {'op': 'Q', 'kind': kind, 'method': method, 'proto': proto, 'base': 200, 'hetag': None, 'lm': None,
            'mtime': rng.choice([0, 1, 946684800, 1000000000, 1234567890, 1700000000, rng.randint(0, 2 * 10 ** 9),
                                 1000000000.5, 1234567890.999, rng.randint(0, 2 * 10 ** 9) + 0.25])}
    n = gen_len(rng) if kind != 'gen' else rng.choice([0, 1, 5, 14, 100, rng.randint(0, 3000)])
    if n <= 64 and rng.random() < 0.6:
        case['hex'] = bytes(rng.getrandbits(8) for _ in range(n)).hex()
    else:
        case['len'], case['ca'], case['cb'] = n, rng.randint(1, 250), rng.randint(0, 250)
    case['etags'] = 0 if focus == 'range' and rng.random() < 0.7 else rng.choice([0, 1, 1, 2, 2, 2])
    if kind not in ('tool', 'index') and rng.random() < (0.45 if case['etags'] else 0.1):
        case['hetag'] = gen_etag(rng) if rng.random() < 0.95 else ''
    case['stream'] = 1 if rng.random() < 0.4 else 0
    # configuration that must not change the answer: logging on, a Content-Disposition, a Content-Length
    # set beforehand, a file object without fileno(), a response cookie
    if rng.random() < 0.15:
        case['dbg'] = 1
    if kind in ('file', 'fobj', 'bio'):
        if rng.random() < 0.08:
            case['disp'] = rng.choice(['attachment', 'inline'])
            if rng.random() < 0.6:
                case['dname'] = rng.choice(['a.txt', 'na me.bin', 'r\xe9sum\xe9.txt'])
        if rng.random() < 0.06:
            case['precl'] = 1
        if kind == 'bio' and rng.random() < 0.3:
            case['raw'] = 1
        if kind == 'file' and rng.random() < 0.01:
            case['missing'] = rng.choice(['nofile', 'dir'])
    if kind == 'gen' and rng.random() < 0.05:
        case['cookie'] = 1
    if kind == 'gen':
        if rng.random() < 0.5:
            case['lm'] = httpdate(case['mtime']) if rng.random() < 0.9 else rng.choice(['x', 'Mon', '0'])
        if rng.random() < 0.15:
            case['base'] = rng.choice([201, 202, 206, 404, 412, 304, 204, 403])
        case['shape'] = rng.choice(SHAPES)
        case['script'] = gen_script(rng, case)
    # current validators as the resource will present them
    content = content_bytes(case)
    cur_etag = None
    script = case.get('script', '')
    if case['etags'] or 'E' in script or 'A' in script:
        cur_etag = case['hetag'] or ('"%s"' % hashlib.md5(content).hexdigest()
                                     if case['etags'] == 2 or 'A' in script else None)
    if kind == 'gen':
        lm_text, mt = case['lm'], (case['mtime'] if case['lm'] and case['lm'].endswith('GMT') else None)
    elif kind == 'bio':
        lm_text, mt = None, None
    else:
        lm_text, mt = httpdate(case['mtime']), case['mtime']
    if focus in ('range', 'mixed') and kind != 'gen' or rng.random() < 0.05:
        case['range'] = gen_range_header(rng, n, wire_safe=True)
    if focus in ('cond', 'mixed'):
        p = 0.5 if focus == 'cond' else 0.3
        if rng.random() < p:
            case['im'] = gen_cond_etags(rng, cur_etag)
        if rng.random() < p:
            case['inm'] = gen_cond_etags(rng, cur_etag)
        if rng.random() < p:
            case['ims'] = gen_cond_date(rng, lm_text, mt)
        if rng.random() < p:
            case['ius'] = gen_cond_date(rng, lm_text, mt)
    # If-Range: not implemented by the code and not part of the statement; it must change nothing
    if rng.random() < (0.25 if case.get('range') else 0.04):
        case['ifr'] = rng.choice([cur_etag or '"x"', other_etag(rng, cur_etag), lm_text or httpdate(0),
                                  httpdate(case['mtime'] + 86400) if isinstance(case['mtime'], int) else 'x',
                                  'W/' + (cur_etag or '"x"'), '*', '', 'yesterday'])
    return case


def enum_decision_table():
    """Systematic small scope for the validators, run in every tier: every combination of
    If-Match / If-None-Match in {absent, current, other, *, list with current, weak form of current} x
    If-Modified-Since / If-Unmodified-Since in {absent, equal, different} x GET/HEAD/POST x
    (file with explicit ETag x Range none/satisfiable/unsatisfiable | generated body with autotags)."""
    mtime = 1000000000
    lm = httpdate(mtime)
    other_date = httpdate(mtime + 1)
    out = []
    for kind in ('file', 'gen'):
        base = {'op': 'Q', 'kind': kind, 'proto': '1.1', 'base': 200, 'mtime': mtime, 'len': 14, 'ca': 1, 'cb': 0}
        if kind == 'file':
            base.update(etags=1, hetag='"v1"', lm=None)
            cur = '"v1"'
            ranges = [None, 'bytes=2-5', 'bytes=14-']
        else:
            base.update(etags=2, hetag=None, lm=lm)
            cur = '"%s"' % hashlib.md5(content_bytes(base)).hexdigest()
            ranges = [None]
        tags = [None, cur, '"other"', '*', '"a", %s, "b"' % cur, 'W/' + cur]
        dates = [None, lm, other_date]
        for method, im, inm, ims, ius, rng in itertools.product(('GET', 'HEAD', 'POST'), tags, tags, dates, dates, ranges):
            c = dict(base, method=method)
            for k, v in (('im', im), ('inm', inm), ('ims', ims), ('ius', ius), ('range', rng)):
                if v is not None:
                    c[k] = v
            out.append(c)
    return out


def enum_flow_table():
    """Systematic small scope for the configuration dimensions, run in every tier: who validates
    (serve_file / staticdir / serve_fileobj / BytesIO before a body exists; tools.etags with a handler ETag or
    autotags at before_finalize; the handler itself calling validate_since / validate_etags before or after it
    produced its body) x response.stream x body shape x method x protocol x what the request's validators
    dictate (not modified / precondition failed / nothing, with and without a Range)."""
    mtime = 1000000000
    lm = httpdate(mtime)
    other_date = httpdate(mtime + 1)
    base = {'op': 'Q', 'base': 200, 'mtime': mtime, 'len': 14, 'ca': 1, 'cb': 0, 'hetag': None, 'lm': None}
    auto = '"%s"' % hashlib.md5(content_bytes(base)).hexdigest()
    out = []
    gens = [
        ('tool-hetag', dict(etags=1, hetag='"v1"', script=''), '"v1"', False),
        ('tool-auto', dict(etags=2, script=''), auto, False),
        ('pre-since', dict(etags=0, lm=lm, script='S'), None, True),
        ('post-since', dict(etags=0, lm=lm, script='BS'), None, True),
        ('post-etags', dict(etags=0, hetag='"v1"', script='BE'), '"v1"', False),
        ('post-auto', dict(etags=0, script='BA'), auto, False),
        ('post-both', dict(etags=1, hetag='"v1"', lm=lm, script='BSE'), '"v1"', True),
    ]
    statics = [
        ('file', dict(etags=0), None), ('file', dict(etags=1, hetag='"v1"'), '"v1"'), ('file', dict(etags=2), auto),
        ('tool', dict(etags=0), None), ('tool', dict(etags=2), auto),
        ('fobj', dict(etags=0), None), ('fobj', dict(etags=1, hetag='"v1"'), '"v1"'),
        ('bio', dict(etags=0), None), ('bio', dict(etags=2), auto),
    ]

    def conds(etag, since, ranged):
        cs = [{}]
        if since:
            cs += [{'ims': lm}, {'ius': other_date}]
        if etag:
            cs += [{'inm': etag}, {'im': '"other"'}, {'im': etag, 'inm': '"a", %s' % etag}]
        if ranged:
            cs += [dict(c, range='bytes=2-5') for c in cs] + [{'range': 'bytes=0-1,4-4'}, {'range': 'bytes=14-'}]
        return cs
    for stream, proto in itertools.product((0, 1), ('1.1', '1.0')):
        for method in ('GET', 'HEAD', 'POST', 'PUT'):
            for name, extra, etag, since in gens:
                for shape in SHAPES:
                    for c in conds(etag, since, False):
                        out.append(dict(base, kind='gen', method=method, proto=proto, stream=stream, shape=shape,
                                        **extra, **c))
            for kind, extra, etag in statics:
                if kind == 'tool' and method not in ('GET', 'HEAD'):
                    continue
                for c in conds(etag, kind != 'bio', True):
                    out.append(dict(base, kind=kind, method=method, proto=proto, stream=stream, **extra, **c))
    return out


def enum_extras_table():
    """Configuration that must not change any answer (logging on, the second way to configure staticdir, an index
    file, Content-Disposition, a Content-Length set before the file is served, a file object without fileno(), a
    response cookie) and resources that do not exist, each crossed with stream x GET/HEAD/POST x nothing / not
    modified / precondition failed / Range."""
    mtime = 1000000000
    lm = httpdate(mtime)
    base = {'op': 'Q', 'base': 200, 'mtime': mtime, 'len': 14, 'ca': 1, 'cb': 0, 'hetag': None, 'lm': None,
            'proto': '1.1'}
    auto = '"%s"' % hashlib.md5(content_bytes(base)).hexdigest()
    variants = [
        dict(kind='file', etags=2, dbg=1), dict(kind='tool', etags=2, dbg=1), dict(kind='fobj', etags=2, dbg=1),
        dict(kind='index', etags=2), dict(kind='index', etags=2, dbg=1),
        dict(kind='file', etags=2, disp='attachment'), dict(kind='file', etags=2, disp='attachment', dname='x y.txt'),
        dict(kind='fobj', etags=2, disp='inline'), dict(kind='fobj', etags=2, disp='inline', dname='a.bin'),
        dict(kind='file', etags=2, precl=1), dict(kind='fobj', etags=2, precl=1), dict(kind='bio', etags=2, precl=1),
        dict(kind='bio', etags=2, raw=1), dict(kind='bio', etags=2, raw=1, dbg=1),
        dict(kind='gen', etags=2, cookie=1, script='', shape='bytes'),
        dict(kind='gen', etags=2, dbg=1, script='', shape='gen'),
        dict(kind='gen', etags=1, hetag='"v1"', dbg=1, script='', shape='bytes'),
        dict(kind='gen', etags=1, dbg=1, script='', shape='bytes'),
        dict(kind='gen', etags=2, base=201, dbg=1, script='', shape='bytes'),
        dict(kind='file', etags=0, missing='nofile'), dict(kind='file', etags=0, missing='dir'),
        # staticdir declines: a method it does not serve, a path outside its match pattern, a path outside its directory
        dict(kind='tool', etags=0, dbg=1, missing='post'), dict(kind='tool', etags=0, missing='post'),
        dict(kind='tool', etags=0, dbg=1, missing='nomatch'), dict(kind='tool', etags=0, dbg=1, missing='dotdot'),
        dict(kind='tool', etags=0, missing='dotdot'),
    ]
    out = []
    for v in variants:
        static = v['kind'] != 'gen'
        tag = v.get('hetag') or auto
        conds = [{}, {'inm': tag}, {'im': '"other"'}, {'im': tag, 'inm': '"a"'}]
        if static and v['kind'] != 'bio':
            conds += [{'ims': lm}, {'range': 'bytes=2-5'}, {'range': 'bytes=0-0,3-4'}, {'range': 'bytes=20-'},
                      {'range': 'bytes=2-5', 'inm': tag}, {'range': 'bytes=2-5', 'ifr': tag},
                      {'range': 'bytes=2-5', 'ifr': '"stale"'}, {'range': 'bytes=2-5', 'ifr': lm},
                      {'range': 'bytes=2-5', 'ifr': httpdate(mtime - 1)}, {'ifr': '"stale"'}]
        for stream in (0, 1):
            for method in ('GET', 'HEAD', 'POST'):
                if v['kind'] in ('tool', 'index') and (method == 'POST') != (v.get('missing') == 'post'):
                    continue
                for c in conds:
                    out.append(dict(base, method=method, stream=stream, **v, **c))
    return out


def enum_medium_headers():
    """Thorough tier: every list of one or two specs over positions {0,1,2,5,20,39,40,41} in the three
    forms (incl. last < first), no whitespace: 80 + 6400 headers."""
    pos = ['0', '1', '2', '5', '20', '39', '40', '41']
    specs = []
    for a in pos:
        specs.append(a + '-')
        specs.append('-' + a)
        for b in pos:
            specs.append(a + '-' + b)
    out = ['bytes=' + s for s in specs]
    out += ['bytes=%s,%s' % (a, b) for a in specs for b in specs]
    return out
