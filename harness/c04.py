"""C04 - multipart bodies are parsed byte-exactly for every content and chunking.

Model: lean/CpModel/Multipart.lean (parser over the cursor that C05 proves SizedReader refines) and
lean/CpModel/MultipartR.lean (the same parser over the concrete reader model; this is what the driver
runs, with the case's buffer size / fragmentation / declared length), theorems: lean/CpProofs/C04.lean
(+ C04Lemmas, C04Names, C04Sim), driver: lean/Drv/C04.lean.

Real code: a POST through `cherrypy.Application` called in-process; `wsgi.input` is the instrumented
fragmenting stream of the C05 harness (it also records the furthest offset read / asked for),
`request.body.bufsize` and the part class (its `maxrambytes`) are set by config.  The handler dumps
what it received.  Oracle = the generator's ground truth (the parts that were serialised).
"""
import io
import json
import os

from . import common
from .c05 import FragStream

PROPERTY = 'C04'
LEAN_TARGETS = ['CpProofs.C04', 'CpProofs.C04Sim', 'drv_c04']
DRIVER = 'drv_c04'
THEOREMS = [
    'CpProofs.C04.C04_framing_partial',
    'CpProofs.C04.C04_framing_full_false',
    'CpProofs.C04.C04_content_independent_of_threshold',
    'CpProofs.C04.C04_framing_concrete',
    'CpProofs.C04.C04_concrete_refines',
    'CpProofs.C04.C04_readline_is_cursor',
    'CpProofs.C04.C04_finish_is_cursor',
    'CpProofs.C04.C04_init_enough',
    'CpProofs.C04.C04_no_overread',
    'CpProofs.C04.C04_same_name_wire_order',
    'CpProofs.C04.C04_zero_parts',
    'CpProofs.C04.C04_names_field',
    'CpProofs.C04.C04_names_file',
    'CpProofs.C04.readLines_lines',
    'CpProofs.C04.readLines_content',
    'CpProofs.C04.readHeaders_lines',
    'CpProofs.C04.findFirst_pre',
    'CpProofs.C04.partsLoop_parts',
]
LEVEL = 'proof'
TECHNIQUE = ('Lean 4 proof: loop invariant of Part.read_lines_to_boundary (deferred line terminator) by induction '
             'on the LF-split of the content, composed over headers / parts / first-marker search; on top of the '
             'C05 reader refinement; model tied to the real parser by a differential run through in-process WSGI')
LEVEL_TEXT = ('Proved in Lean for every valid boundary, every preamble without a marker line, every list of >= 1 parts '
              'with well-formed header lines, every memory threshold, close delimiter bare or followed by CRLF + any '
              'epilogue, any bytes of a following request behind Content-Length, EVERY read-buffer size >= 1 and EVERY '
              'socket fragmentation (C04_framing_concrete, over the SizedReader model of C05): if no part content has a '
              'delimiter-like line (a line starting with -- that strip()s to the boundary or end marker) the parser '
              'returns every part in order with the header list read_headers builds and byte-identical content '
              '(spilled <=> longer than maxrambytes), stops right behind the close delimiter and takes at most '
              'Content-Length bytes off the connection. The RFC-strength statement is proved false (F7 witness). Also '
              'proved: values under one name are the parts with that name in wire order; a body without marker line has '
              'no parts; name / filename / content type are extracted as declared for form-data; name="n"[; '
              'filename="f"] with n, f free of quote, backslash, semicolon, comma. Partial: other header shapes '
              '(escapes, several elements, continuation lines), field-value charset decoding and bodies without a '
              'declared length (F23, repaired) are covered by the correspondence run only.')
LEVEL_NOTE = ('Trusted: Lean kernel, the hand models lean/CpModel/Multipart.lean + Reader.lean as validated by the '
              'differential run (POST through in-process WSGI under fragmentation / buffer sizes / thresholds), '
              'tempfile, the harness. httputil.HeaderMap / header_elements / parse_header are modelled without proof.')
TRUSTED_BASE = [
    'tempfile / file objects: a spooled part is read back through its file object',
    'header value decoding (ISO-8859-1), field value decoding (us-ascii, utf-8) are done by the harness on the '
    'model side; httputil.HeaderMap / header_elements are modelled only for the header shapes generated',
]
ASSUMPTIONS = [
    'theorems: the request declares a Content-Length and the connection delivers that many bytes; bodies without '
    'a declared length (Transfer-Encoding: chunked) are covered by the correspondence run only (finding F23, repaired)',
    'plain fields carry UTF-8 text, file parts arbitrary bytes; part content types are not '
    'application/x-www-form-urlencoded or multipart/* (those are re-parsed by nested processors)',
]
RULE = ('multipart/form-data (15%: multipart/mixed) bodies of 0..6 parts; content from adversarial shapes (CR/LF/CRLF/'
        '"--" runs, near-miss delimiters, all byte values, empty, 1, threshold-1/threshold/threshold+1, 10x threshold, '
        'lines > 64 KiB, ending in CR / LF / "--"), field | file | unnamed, repeated names, quoted names with ; , = '
        'and escaped quotes, optional preamble / epilogue / missing final CRLF, bytes of a following request after '
        'Content-Length; x bufsize 1..65536 x socket fragmentation (whole, 1 byte, random) x maxrambytes '
        '(0,1,10,100,1000). Non-trivial: at least one part with non-empty content; distinct = distinct '
        '(boundary, body, bufsize, fragmentation shape, threshold)')


# ----------------------------------------------------------------------------------------------
# serialisation (ground truth) and classification
# ----------------------------------------------------------------------------------------------
def _q(s):
    return s.replace('\\', '\\\\').replace('"', '\\"')


def part_headers(p):
    hs = []
    if p.get('name') is not None or p.get('filename') is not None:
        d = 'form-data'
        if p.get('name') is not None:
            d += '; name="%s"' % _q(p['name'])
        if p.get('filename') is not None:
            d += '; filename="%s"' % _q(p['filename'])
        hs.append('Content-Disposition: ' + d)
    if p.get('ctype') is not None:
        hs.append('Content-Type: ' + p['ctype'])
    for h in p.get('extra', []):
        hs.append(h)
    return hs


def serialize(case):
    b = case['boundary'].encode('latin-1')
    out = bytearray(bytes.fromhex(case.get('preamble_hex', '')))
    for p in case['parts']:
        out += b'--' + b + b'\r\n'
        for h in part_headers(p):
            out += h.encode('latin-1') + b'\r\n'
        out += b'\r\n' + bytes.fromhex(p['content_hex']) + b'\r\n'
    out += b'--' + b + b'--'
    if case.get('trailing_crlf', True):
        out += b'\r\n'
    out += bytes.fromhex(case.get('epilogue_hex', ''))
    return bytes(out)


WS = b'\t\n\x0b\x0c\r '


def delim_like(boundary, content):
    """Some line of content+CRLF (starting at 0 or after an LF) starts with -- and strip()s to --B or --B--."""
    bnd = b'--' + boundary
    for line in (content + b'\r\n').split(b'\n'):
        if line.startswith(b'--') and line.strip(WS) in (bnd, bnd + b'--'):
            return True
    return False


def rfc_clean(boundary, content):
    return (b'\r\n--' + boundary) not in (b'\r\n' + content)


def expected(case):
    """What the handler must receive: (params {name: [entry]}, unnamed parts [entry])."""
    params, parts = {}, []
    mixed = case.get('subtype', 'form-data') != 'form-data'
    for p in case['parts']:
        content = bytes.fromhex(p['content_hex'])
        ct = p['ctype'].split(';')[0].strip() if p.get('ctype') is not None else 'text/plain'
        if p.get('filename') is None:
            e = ['field', content.decode('utf-8')]
        else:
            e = ['file', p['filename'], ct, content.hex()]
        name = p.get('name')
        if name is None:
            if mixed:
                params.setdefault('parts', []).append(e)
            else:
                parts.append(['part', p.get('filename'), ct, content.hex()])
        else:
            params.setdefault(name, []).append(e)
    return params, parts


# ----------------------------------------------------------------------------------------------
# real-code runner
# ----------------------------------------------------------------------------------------------
_APPS = {}
_J = {}


def _entry(v):
    if isinstance(v, str):
        return ['field', v]
    if isinstance(v, bytes):
        return ['bytes', v.hex()]
    # a Part
    data = None
    if v.file is not None:
        data = v.file.read()        # as a handler would: no seek first
        v.file.seek(0)
    elif v.value is not None:
        data = v.value
    return ['file', v.filename, v.content_type.value, None if data is None else data.hex()]


def _app(bufsize, maxram):
    import cherrypy
    from cherrypy import _cpreqbody
    key = (bufsize, maxram)
    app = _APPS.get(key)
    if app is None:
        if not _APPS:
            cherrypy.config.update({'environment': 'test_suite', 'log.screen': False})

        class P(_cpreqbody.Part):
            maxrambytes = maxram

        class Root:
            @cherrypy.expose
            def index(self, **kw):
                params = {}
                for k, v in kw.items():
                    vs = v if isinstance(v, list) else [v]
                    params[k] = [_entry(x) for x in vs]
                _J['params'] = params
                _J['is_list'] = {k: isinstance(v, list) for k, v in kw.items()}
                parts = []
                for p in cherrypy.request.body.parts:
                    e = _entry(p)
                    parts.append(['part', e[1], e[2], e[3]])
                _J['parts'] = parts
                _J['storage'] = [('file' if p.file is not None else 'value')
                                 for p in cherrypy.request.body.parts]
                return b'ok'
        if len(_APPS) > 300:
            _APPS.clear()
            _APPS[None] = None
        app = cherrypy.Application(Root(), '', {'/': {'request.body.bufsize': bufsize,
                                                       'request.body.part_class': P}})
        _APPS[key] = app
    return app


def run_real(case):
    body = serialize(case)
    beyond = bytes.fromhex(case.get('beyond_hex', ''))
    fp = FragStream(body + beyond, case.get('frag', []))
    ctype = 'multipart/%s; boundary=%s' % (case.get('subtype', 'form-data'),
                                           ('"%s"' % case['boundary']) if case.get('quote_boundary')
                                           else case['boundary'])
    env = {'REQUEST_METHOD': 'POST', 'PATH_INFO': '/', 'SCRIPT_NAME': '', 'QUERY_STRING': '',
           'SERVER_NAME': 'x', 'SERVER_PORT': '80', 'SERVER_PROTOCOL': 'HTTP/1.1', 'HTTP_HOST': 'x',
           'wsgi.version': (1, 0), 'wsgi.url_scheme': 'http', 'wsgi.input': fp,
           'wsgi.errors': io.StringIO(), 'wsgi.multithread': False, 'wsgi.multiprocess': False,
           'wsgi.run_once': False, 'CONTENT_TYPE': ctype, 'REMOTE_ADDR': '127.0.0.1'}
    if case.get('chunked'):
        env['HTTP_TRANSFER_ENCODING'] = 'chunked'
    else:
        env['CONTENT_LENGTH'] = str(len(body))
    _J.clear()
    st = []
    it = _app(case.get('bufsize', 8192), case.get('maxram', 1000))(
        env, lambda status, headers, exc=None: st.append(status))
    try:
        for _ in it:
            pass
    finally:
        if hasattr(it, 'close'):
            it.close()
    return {'status': int(st[0].split()[0]) if st else None, 'params': _J.get('params'),
            'parts': _J.get('parts'), 'is_list': _J.get('is_list'), 'storage': _J.get('storage'),
            'order': [[k, len(v)] for k, v in (_J.get('params') or {}).items()],
            'off': fp.pos, 'req_end': fp.req_end, 'len': len(body)}


# ----------------------------------------------------------------------------------------------
# model side
# ----------------------------------------------------------------------------------------------
def model_line(case):
    body = serialize(case)
    conn = body + bytes.fromhex(case.get('beyond_hex', ''))
    return '%s %d %d %s %s %s' % (case['boundary'].encode('latin-1').hex() or '-', case.get('maxram', 1000),
                                  case.get('bufsize', 8192), 'N' if case.get('chunked') else len(body),
                                  ','.join(map(str, case.get('frag', []))) or '-', conn.hex() or '-')


def _unhex(x):
    return None if x == 'N' else (b'' if x == '-' else bytes.fromhex(x))


def _decode_field(b):
    for cs in ('us-ascii', 'utf-8'):
        try:
            return b.decode(cs)
        except UnicodeDecodeError:
            pass
    return None


def parse_model(line, case):
    """Model output -> the same canonical observation the real side produces."""
    if line.startswith('err:'):
        return {'status': 400, 'params': None, 'parts': None, 'err': line[4:]}
    f = line.split(' ')
    kv = dict(x.split('=') for x in f[1:3])
    mixed = case.get('subtype', 'form-data') != 'form-data'
    params, parts, storage = {}, [], []
    g = f[3][2:]
    groups = [] if g == '-' else [[(_unhex(x.split(':')[0]) or b'').decode('latin-1'),
                                   [int(n) for n in x.split(':')[1].split('+')]] for x in g.split(',')]
    i = 4
    undec = False
    while i < len(f):
        assert f[i] == 'P'
        name, fn, ct, spilled, content = f[i + 1:i + 6]
        i += 6
        name, fn, ct, content = _unhex(name), _unhex(fn), _unhex(ct), _unhex(content)
        name = None if name is None else name.decode('latin-1')
        fn = None if fn is None else fn.decode('latin-1')
        ct = ct.decode('latin-1')
        if fn is None:
            t = _decode_field(content)
            if t is None:
                undec = True
            e = ['field', t]
        else:
            e = ['file', fn, ct, content.hex()]
        if name is None and not mixed:
            parts.append(['part', fn, ct, content.hex()])
            storage.append('file' if (fn or spilled == '1') else 'value')
        else:
            params.setdefault('parts' if name is None else name, []).append(e)
    if undec:
        return {'status': 400, 'params': None, 'parts': None, 'err': 'decode'}
    return {'status': 200, 'params': params, 'parts': parts, 'storage': storage, 'groups': groups,
            'off': None if kv['off'] == 'N' else int(kv['off'])}


# ----------------------------------------------------------------------------------------------
# oracle
# ----------------------------------------------------------------------------------------------
def oracle(case, obs):
    bad = []
    b = case['boundary'].encode('latin-1')
    near = [i for i, p in enumerate(case['parts']) if delim_like(b, bytes.fromhex(p['content_hex']))]
    pre_marker = any(l.strip(WS) == b'--' + b for l in bytes.fromhex(case.get('preamble_hex', '')).split(b'\n'))
    exp_params, exp_parts = expected(case)
    sig = None
    if near:
        sig = 'F7:near_miss_delimiter'
    elif pre_marker:
        sig = 'preamble_marker'     # outside the statement (preamble text must not contain a marker line)
    if obs['status'] != 200:
        bad.append(('status %s for a well-formed multipart body' % obs['status'], sig or 'status'))
    else:
        got = obs['params']
        if got != exp_params:
            names = sorted(set(got) ^ set(exp_params)) or [k for k in got if got[k] != exp_params.get(k)]
            what = 'parameters differ at %r: received %s, sent %s' % (
                names[:3], json.dumps({k: got.get(k) for k in names[:2]})[:300],
                json.dumps({k: exp_params.get(k) for k in names[:2]})[:300])
            sig2 = sig or ('content:chunked_parts_lost' if case.get('chunked') and _is_prefix_loss(got, exp_params)
                           else 'content')
            bad.append((what, sig2))
        elif case.get('subtype', 'form-data') == 'form-data' and obs['parts'] != exp_parts:
            bad.append(('unnamed parts differ: received %s, sent %s'
                        % (json.dumps(obs['parts'])[:300], json.dumps(exp_parts)[:300]), sig or 'content_parts'))
        else:
            # "parts sharing a name arrive as a list": one part -> the value itself, several -> a list
            for k, v in exp_params.items():
                if obs['is_list'].get(k) != (len(v) > 1):
                    bad.append(('parameter %r: %d part(s) sent, handler got %s'
                                % (k, len(v), 'a list' if obs['is_list'].get(k) else 'a single value'),
                                sig or 'list_promotion'))
    if not case.get('chunked'):
        if obs['off'] > obs['len']:
            bad.append(('consumed %d bytes of the connection, Content-Length %d' % (obs['off'], obs['len']),
                        'overread'))
        elif obs['req_end'] > obs['len']:
            bad.append(('asked the connection for bytes up to offset %s, Content-Length %d'
                        % (obs['req_end'], obs['len']), 'overread_request'))
    return bad


def _is_prefix_loss(got, exp):
    """F23 symptom: the handler received a strict prefix of the parts (everything after some part lost)."""
    for k, v in got.items():
        if k not in exp or exp[k][:len(v)] != v:
            return False
    return True


# ----------------------------------------------------------------------------------------------
# generators
# ----------------------------------------------------------------------------------------------
BOUNDARIES = ['B', 'a', 'XX', 'x-y', '----WebKitFormBoundary7MA4YWxkTrZu0gW', 'b b', "'()+_,-./:=?", '--', 'B--']
NAMES = ['a', 'b', 'a', 'file', 'x y', 'n;m', 'p,q', 'k=v', 'q"r', 'back\\slash', 'UP', 'parts', '']
FILENAMES = ['f.txt', 'a b.bin', 'semi;colon', 'com,ma', 'q"uote', 'c:\\dir\\x', '', 'name*']
CTYPES = [None, None, 'text/plain', 'application/octet-stream', 'image/png', 'text/x; charset=utf-8',
          'TEXT/Plain', 'application/x-foo+bar']


def gen_content(rng, boundary, maxram, kind, allow_near):
    b = boundary.encode('latin-1')
    shape = rng.choices(['empty', 'one', 'adv', 'adv', 'adv', 'near', 'thresh', 'big', 'allbytes', 'longline', 'tail'],
                        weights=[6, 6, 20, 20, 10, 12, 12, 4, 6, 1, 8])[0]
    if shape == 'empty':
        c = b''
    elif shape == 'one':
        c = bytes([rng.choice(b'\r\n-a \t')])
    elif shape in ('adv', 'tail'):
        atoms = [b'\r', b'\n', b'\r\n', b'-', b'--', b'a', b' ', b'\t', b, b'--' + b[:-1], b'-' + b, b'\r\n-', b'\n--',
                 b'\r\n--', b'--' + b + b'x', b'--' + b + b'-', b'\r--' + b, b' --' + b, b'x--' + b]
        c = b''.join(rng.choice(atoms) for _ in range(rng.randint(1, 12)))
        if shape == 'tail':
            c += rng.choice([b'\r', b'\n', b'\r\n', b'-', b'--', b'\r\n--', b'\r\n\r\n', b'\n\n', b'\r\r'])
    elif shape == 'near':
        # near-miss delimiters: the genuinely delimiter-like ones are classified by delim_like()
        miss = rng.choice([b'\n--' + b + b'\n', b'\r\n--' + b + b' \t\r\n', b'\n--' + b + b'--\n', b'--' + b + b'\r\n',
                           b'\r\n--' + b + b'x\r\n', b'\r\n --' + b + b'\r\n', b'\r--' + b + b'\r\n',
                           b'\r\n--' + b + b'-\r\n', b'\r\n-- ' + b + b'\r\n', b'\n--' + b, b'\r\n--' + b + b'--x',
                           b'\r\n--' + b.swapcase() + b'\r\n', b'\r\n--' + b + b'\x0b'])
        c = rng.choice([b'', b'a', b'ab\r\ncd']) + miss + rng.choice([b'', b'b', b'tail\r\n'])
    elif shape == 'thresh':
        n = max(0, maxram + rng.choice([-1, 0, 1]))
        unit = rng.choice([b'a', b'ab\r\n', b'\n', b'-', b'\r'])
        c = (unit * (n // len(unit) + 1))[:n]
    elif shape == 'big':
        n = 10 * max(maxram, 10) + rng.randint(0, 3)
        unit = rng.choice([b'0123456789abcde\r\n', b'x' * 99 + b'\n', b'--\r\n'])
        c = (unit * (n // len(unit) + 1))[:n]
    elif shape == 'allbytes':
        c = bytes(rng.randrange(256) for _ in range(rng.choice([8, 40, 300])))
    else:
        c = b'L' * rng.choice([65535, 65536, 65537, 70000]) + rng.choice([b'', b'\r\nend', b'\n'])
    if kind == 'field':
        # plain fields carry text: make it valid UTF-8, keeping CR/LF/dashes
        try:
            c.decode('utf-8')
        except UnicodeDecodeError:
            c = c.decode('latin-1').encode('utf-8')
    if delim_like(b, c) and not allow_near:
        c = c.replace(b'--' + b, b'-+' + b)
        if delim_like(b, c):
            c = b'safe'
    return c


def gen_case(rng, big=False):
    boundary = rng.choice(BOUNDARIES)
    maxram = rng.choice([0, 1, 10, 100, 1000, 1000])
    allow_near = rng.random() < 0.08
    nparts = rng.choice([0, 1, 1, 2, 2, 3, 3, 4, 5, 6])
    parts = []
    for _ in range(nparts):
        kind = rng.choices(['field', 'file', 'unnamed'], weights=[45, 45, 10])[0]
        p = {'name': None, 'filename': None, 'ctype': None}
        if kind != 'unnamed':
            p['name'] = rng.choice(NAMES)
        if kind == 'file' or (kind == 'unnamed' and rng.random() < 0.5):
            p['filename'] = rng.choice(FILENAMES)
            p['ctype'] = rng.choice(CTYPES)
        elif rng.random() < 0.2:
            p['ctype'] = rng.choice(['text/plain', 'text/plain; charset=utf-8'])
        c = gen_content(rng, boundary, maxram, 'field' if p['filename'] is None else 'file', allow_near)
        if not big and len(c) > 20000 and rng.random() < 0.7:
            c = c[:50]
        p['content_hex'] = c.hex()
        if any(',' in (p.get(k) or '') for k in ('name', 'filename')):
            # header_elements splits at commas by counting quote characters, ignoring backslash escapes:
            # keep escaped quotes out of headers that carry a comma (outside the statement's scope)
            for k in ('name', 'filename'):
                if p.get(k):
                    p[k] = p[k].replace('"', "'")
        if rng.random() < 0.1:
            p['extra'] = [rng.choice(['X-Extra: 1', 'Content-Transfer-Encoding: binary', 'x-multi: a',
                                      'Content-Length: 3'])]
        parts.append(p)
    pre = b''
    if rng.random() < 0.25:
        pre = rng.choice([b'preamble\r\n', b'This is a multi-part message.\r\n\r\n', b'\r\n', b'x\n', b'--\r\n',
                          b'--' + boundary.encode('latin-1') + b'x\r\n', b' \r\n'])
    epi = b''
    if rng.random() < 0.2:
        epi = rng.choice([b'epilogue', b'\r\n', b'--' + boundary.encode('latin-1') + b'\r\n', b'junk\r\n--\r\n'])
    if not parts and b'--' + boundary.encode('latin-1') + b'\r\n' == epi:
        epi = b'epilogue'       # with no part at all the first-marker search would take it for the first marker
    trailing = rng.random() < 0.8 or bool(epi)
    beyond = b''
    if rng.random() < 0.5:
        beyond = rng.choice([b'GET / HTTP/1.1\r\nHost: x\r\n\r\n', b'\r\n--' + boundary.encode('latin-1') + b'\r\n', b'Z'])
    bufsize = rng.choice([1, 2, 3, 5, 7, 16, 64, 1024, 8192, 8192, 65536, 70000])
    n = sum(len(p['content_hex']) // 2 for p in parts) + 200 * len(parts) + 100
    if n > 5000 and bufsize < 64:
        bufsize = rng.choice([64, 1024, 8192])
    k = rng.random()
    if k < 0.3:
        frag = []
    elif k < 0.55:
        frag = [0] * min(3000, n)
    else:
        frag = [rng.choice([0, 0, 1, 2, 3, 6, 15, 100, 5000]) for _ in range(rng.choice([10, 40, 200, 1000]))]
    case = {'boundary': boundary, 'parts': parts, 'preamble_hex': pre.hex(), 'epilogue_hex': epi.hex(),
            'trailing_crlf': trailing, 'beyond_hex': beyond.hex(), 'bufsize': bufsize, 'frag': frag,
            'maxram': maxram, 'subtype': 'mixed' if rng.random() < 0.15 else 'form-data',
            'quote_boundary': rng.random() < 0.3 or ' ' in boundary or ',' in boundary}
    if rng.random() < 0.1:
        case['chunked'] = True      # no declared length: the body ends where the connection ends
        case['beyond_hex'] = ''
    return case


def enum_small():
    """Exhaustive small scope: one file part whose content ranges over all strings of length <= 6 over
    {CR, LF, '-', 'a'}, boundary 'a'; bufsize 1 and 8192."""
    import itertools
    for n in range(0, 7):
        for t in itertools.product(b'\r\n-a', repeat=n):
            c = bytes(t)
            yield {'boundary': 'a', 'parts': [{'name': 'f', 'filename': 'x', 'ctype': None, 'content_hex': c.hex()}],
                   'bufsize': 8192 if n % 2 else 3, 'frag': [], 'maxram': 2, 'subtype': 'form-data'}


# ----------------------------------------------------------------------------------------------
def case_key(case):
    return json.dumps([case['boundary'], serialize(case).hex(), case.get('bufsize'), len(case.get('frag', [])),
                       case.get('frag', [])[:6], case.get('maxram'), case.get('subtype'), bool(case.get('chunked'))])


def check_cases(ctx, cases, compare=True, stats=True):
    obs_list = [run_real(c) for c in cases]
    model = ctx.model([model_line(c) for c in cases]) if compare else None
    for i, (case, obs) in enumerate(zip(cases, obs_list)):
        nontrivial = any(p['content_hex'] for p in case['parts'])
        ctx.case({k: (v if k != 'frag' else v[:8]) for k, v in case.items()}, nontrivial=nontrivial,
                 key=case_key(case))
        b = case['boundary'].encode('latin-1')
        near = any(delim_like(b, bytes.fromhex(p['content_hex'])) for p in case['parts'])
        if stats:
            ctx.count('parts:%d' % len(case['parts']))
            ctx.count('bufsize:%s' % ('1' if case.get('bufsize') == 1 else '2-16' if case.get('bufsize', 8192) <= 16
                                      else '64-1024' if case.get('bufsize', 8192) <= 1024 else 'big'))
            fr = case.get('frag', [])
            ctx.count('frag:' + ('whole' if not fr else '1byte' if set(fr) == {0} else 'random'))
            ctx.count('maxram:%d' % case.get('maxram', 1000))
            ctx.count('status:%s' % obs['status'])
            ctx.count('subtype:' + case.get('subtype', 'form-data'))
            ctx.count('length:' + ('absent(chunked)' if case.get('chunked') else 'declared'))
            if near:
                ctx.count('content:delim_like(F7)')
            for p in case['parts']:
                n = len(p['content_hex']) // 2
                m = case.get('maxram', 1000)
                ctx.count('kind:' + ('unnamed' if p.get('name') is None else 'file' if p.get('filename') is not None
                                     else 'field'))
                ctx.count('size:' + ('0' if n == 0 else '1' if n == 1 else 'thr-1' if n == m - 1 else 'thr' if n == m
                                     else 'thr+1' if n == m + 1 else '<thr' if n < m else '>=10thr' if n >= 10 * m
                                     else '>thr'))
                c = bytes.fromhex(p['content_hex'])
                if c[-1:] in (b'\r', b'\n'):
                    ctx.count('content:ends_CR_or_LF')
                if b'--' in c:
                    ctx.count('content:has_dashes')
                if len(c) > 65536:
                    ctx.count('content:line>64KiB')
        fails = oracle(case, obs)
        for what, sig in fails:
            ctx.oracle_fail(case, what, sig)
        if model is not None:
            ctx.compared()
            m = parse_model(model[i], case)
            impl = {'status': obs['status'], 'params': obs['params'] if obs['status'] == 200 else None,
                    'parts': obs['parts'] if obs['status'] == 200 else None}
            mm = {'status': m['status'], 'params': m['params'], 'parts': m['parts']}
            if mm['status'] == 200 and case.get('subtype', 'form-data') != 'form-data':
                impl['parts'] = mm['parts'] = None
            unknown_fail = [f for f in fails if ctx.match_known(f[1]) is None and f[1] != 'preamble_marker']
            if impl != mm and not unknown_fail:
                ctx.disagree(case, impl, mm, 'multipart parser and model differ (%s)'
                             % ('status' if impl['status'] != mm['status'] else 'parts'))
            elif obs['status'] == 200 and m['status'] == 200 and case.get('subtype', 'form-data') == 'form-data' \
                    and obs['order'] != [[k, len(v)] for k, v in m['groups']] and not unknown_fail:
                ctx.disagree(case, obs['order'], m['groups'], 'parameter dict: key order / number of values')
            elif obs['status'] == 200 and m['status'] == 200 and m.get('off') is not None \
                    and m['off'] != obs['off'] and not unknown_fail:
                ctx.disagree(case, obs['off'], m['off'], 'stream offset after the request')
            elif obs['status'] == 200 and m['status'] == 200 and obs.get('storage') is not None \
                    and case.get('subtype', 'form-data') == 'form-data' and obs['storage'] != m['storage'] \
                    and not unknown_fail:
                ctx.disagree(case, obs['storage'], m['storage'], 'memory/file representation of unnamed parts')


def corpus_cases():
    d = os.path.join(common.CORPUS, PROPERTY)
    out = []
    if os.path.isdir(d):
        for f in sorted(os.listdir(d)):
            if f.endswith('.json'):
                out.append(json.load(open(os.path.join(d, f))))
    return out


def _gen_batch(args):
    seed, n = args
    import random
    rng = random.Random(seed)
    return [gen_case(rng, big=(i % 25 == 24)) for i in range(n)]


def _worker(args):
    from .c05 import _WorkerCtx
    w = _WorkerCtx(DRIVER)
    check_cases(w, _gen_batch(args))
    return w.cases, w.hist, w.kept_fails(), w.disagreements[:20], w.ncompared, w.driver.lines


def run(ctx):
    for e in ctx.known:
        if e.get('witness'):
            check_cases(ctx, [e['witness']], stats=False)
    check_cases(ctx, corpus_cases(), stats=False)
    if ctx.quick():
        cases = [gen_case(ctx.rng, big=(i % 50 == 49)) for i in range(2000)]
        check_cases(ctx, cases)
    else:
        from .c05 import merge_worker
        nproc = 12
        seeds = [ctx.rng.randrange(1 << 30) for _ in range(nproc * 3)]
        if ctx.model(['42 5 8 N - -']) is None:
            raise common.HarnessError('driver unavailable in thorough tier')
        for res in common.parallel_map(_worker, [(s, 3000) for s in seeds], procs=nproc):
            merge_worker(ctx, res)
        small = list(enum_small())
        check_cases(ctx, small, stats=False)
        ctx.extra['exhaustive_small_scope'] = len(small)


def search(ctx, around=None):
    cases = []
    if around is not None:
        for _ in range(2000):
            d = json.loads(json.dumps(around))
            d['bufsize'] = ctx.rng.choice([1, 2, 3, 7, 16, 64, 8192, 65536])
            d['frag'] = ctx.rng.choice([[], [0] * 2000, [ctx.rng.choice([0, 1, 3, 9]) for _ in range(100)]])
            d['maxram'] = ctx.rng.choice([0, 1, 10, 100, 1000])
            cases.append(d)
    cases += [gen_case(ctx.rng, big=(i % 50 == 49)) for i in range(8000)]
    check_cases(ctx, cases, compare=False, stats=False)
    if not ctx.oracle_failures:
        check_cases(ctx, list(enum_small()), compare=False, stats=False)


def replay(ctx, case):
    obs = run_real(case)
    body = serialize(case)
    print('boundary:', repr(case['boundary']), 'bufsize:', case.get('bufsize'), 'maxram:', case.get('maxram'),
          'frag[:10]:', case.get('frag', [])[:10])
    print('body   :', repr(body[:600]))
    print('impl   :', json.dumps({k: obs[k] for k in ('status', 'params', 'parts', 'off', 'len')})[:1500])
    m = ctx.model([model_line(case)])
    if m:
        print('model  :', json.dumps(parse_model(m[0], case))[:1500])
    print('sent   :', json.dumps(expected(case))[:1500])
    check_cases(ctx, [case], stats=False)
