"""C04 - multipart bodies are parsed byte-exactly for every content and chunking.

Model: lean/CpModel/Multipart.lean (parser over the cursor that C05 proves SizedReader refines) and
lean/CpModel/MultipartR.lean (the same parser over the concrete reader model; this is what the driver
runs, with the case's buffer size / fragmentation / declared length), theorems: lean/CpProofs/C04.lean
(+ C04Lemmas, C04Names, C04Sim), driver: lean/Drv/C04.lean.

Real code: a POST through `cherrypy.Application` called in-process; `wsgi.input` is the instrumented
fragmenting stream of the C05 harness (it also records the furthest offset read / asked for),
`request.body.bufsize` and the part class (its `maxrambytes`) are set by config.  The handler dumps
what it received.  Oracle = the generator's ground truth (the parts that were serialised).
"""
import io
import json
import os

from . import common
from .c05 import FragStream

PROPERTY = 'C04'
LEAN_TARGETS = ['CpProofs.C04', 'CpProofs.C04Sim', 'CpProofs.C04Hdr', 'drv_c04']
DRIVER = 'drv_c04'
THEOREMS = [
    'CpProofs.C04.C04_framing_partial',
    'CpProofs.C04.C04_framing_full_false',
    'CpProofs.C04.C04_content_independent_of_threshold',
    'CpProofs.C04.C04_framing_concrete',
    'CpProofs.C04.C04_concrete_refines',
    'CpProofs.C04.C04_readline_is_cursor',
    'CpProofs.C04.C04_finish_is_cursor',
    'CpProofs.C04.C04_init_enough',
    'CpProofs.C04.C04_no_overread',
    'CpProofs.C04.C04_same_name_wire_order',
    'CpProofs.C04.C04_zero_parts',
    'CpProofs.C04.C04_names_field',
    'CpProofs.C04.C04_names_file',
    'CpProofs.C04.readLines_lines',
    'CpProofs.C04.readLines_content',
    'CpProofs.C04.readHeaders_lines',
    'CpProofs.C04.findFirst_pre',
    'CpProofs.C04.partsLoop_parts',
    # the part machinery around the framing (CpModel.MultipartHdr / MultipartN; CpProofs.C04Names2, C04Hdr)
    'CpProofs.C04.C04_names_field_semicolon',
    'CpProofs.C04.C04_names_file_semicolon',
    'CpProofs.C04.splitParams_inquote',
    'CpProofs.C04.C04_names_escapes',
    'CpProofs.C04.C04_names_trailing_backslash_quirk',
    'CpProofs.C04.partsLoopN_plain',
    'CpProofs.C04.processMultipartN_plain',
    'CpProofs.C04.C04_framing_with_processors',
    'CpProofs.C04.C04_partproc_default',
    'CpProofs.C04.partProc_unlisted',
    'CpProofs.C04.C04_every_part_default_false',
    'CpProofs.C04.C04_partproc_inherited',
    'CpProofs.C04.C04_headers_repeat_join',
    'CpProofs.C04.C04_headers_continuation',
    'CpProofs.C04.C04_headers_malformed',
    'CpProofs.C04.C04_header_names_titled',
    'CpProofs.C04.C04_attempt_charsets_declared',
    'CpProofs.C04.C04_decode_400_iff',
    'CpProofs.C04.C04_decode_first_success',
    'CpProofs.C04.utf8Strict_encode',
    'CpProofs.C04.C04_decode_utf8_text',
    'CpProofs.C04.C04_decode_examples',
    'CpProofs.C04.C04_filename_star_examples',
    'CpProofs.C04.C04_filename_star_overrides',
    'CpProofs.C04.C04_form_entry_file',
    'CpProofs.C04.C04_form_entry_field',
    'CpProofs.C04.C04_form_entry_unnamed',
    'CpProofs.C04.C04_stored_in_file_iff',
]
LEVEL = 'proof'
TECHNIQUE = ('Lean 4 proof: loop invariant of Part.read_lines_to_boundary (deferred line terminator) by induction '
             'on the LF-split of the content, composed over headers / parts / first-marker search; on top of the '
             'C05 reader refinement; second layer (header map, Content-Disposition incl. quoted ; and filename*, '
             'charset decoding, Part.processors, storage) with tables regenerated from the live Part; model tied to '
             'the real parser by a differential run through in-process WSGI plus unit-level runs of each function')
LEVEL_TEXT = ('Proved in Lean for every valid boundary, every preamble without a marker line, every list of >= 1 parts '
              'with well-formed header lines (continuation lines and repeated headers included: the header list is the '
              'fold of the code\'s per-line step), every memory threshold, close delimiter bare or followed by CRLF + any '
              'epilogue, any bytes of a following request behind Content-Length, EVERY read-buffer size >= 1 and EVERY '
              'socket fragmentation (C04_framing_concrete / C04_framing_with_processors, over the SizedReader model of '
              'C05): if no part content has a delimiter-like line (a line starting with -- that strip()s to the boundary '
              'or end marker) and every part passes Part.__init__ and selects default_proc, the parser returns every '
              'part in order with byte-identical content (spilled <=> longer than maxrambytes), stops right behind the '
              'close delimiter and takes at most Content-Length bytes off the connection. The RFC-strength statement is '
              'proved false (F7 witness); "every part is read as a part whatever content type it declares" is proved '
              'false over the live Part.processors table (F28: inherited form / multipart processors). Also proved: '
              'values under one name are the parts with that name in wire order (empty ones included); a named part '
              'with a filename is handed over as the Part, without one as its decoded text, an unnamed one stays in '
              'parts; make_file() is used iff the filename is non-empty or the content outgrew maxrambytes; name / '
              'filename / content type are extracted as declared for form-data; name="n"[; filename="f"] for ALL n, f '
              'free of quote, backslash and comma - semicolons, = and blanks inside the quotes included; field values: '
              'declared charset first, then Part.attempt_charsets, first success wins, 400 iff nothing decodes, and for '
              'EVERY text its UTF-8 encoding is decoded back to it; escapes, the trailing-backslash quirk of the '
              'stdlib-style parameter parser, filename* (RFC 5987, errors=replace) and the header map are decided on '
              'witnesses. Correspondence only: what the inherited processors do with a part (F28), bodies without a '
              'declared length (F23, repaired), Unicode title-casing of non-ASCII header names.')
LEVEL_NOTE = ('Trusted: Lean kernel, the hand models lean/CpModel/Multipart.lean, MultipartR/N.lean, MultipartHdr.lean + '
              'Reader.lean as validated by the differential run (POST through in-process WSGI under fragmentation / '
              'buffer sizes / thresholds, a per-part view of every Part object, unit-level runs of Content-Disposition '
              'parsing, field decoding and read_headers), tempfile, the codec registry, the harness.')
TRUSTED_BASE = [
    'tempfile / file objects: a spooled part is read back through its file object',
    'codecs: us-ascii, utf-8 (core Lean\'s verified decoder for strict decoding; CPython\'s error ranges transcribed for '
    'errors=replace), iso-8859-1; which label names which codec is regenerated from codecs.lookup',
    'httputil.HeaderMap (title-cased keys, ASCII names) / header_elements / parse_header are modelled as transcribed '
    'and compared on generated Content-Disposition values',
]
ASSUMPTIONS = [
    'theorems: the request declares a Content-Length and the connection delivers that many bytes; bodies without '
    'a declared length (Transfer-Encoding: chunked) are covered by the correspondence run only (finding F23, repaired)',
    'oracle: plain fields carry text in the charset they declare (UTF-8 / ASCII when they declare none), file parts '
    'arbitrary bytes; header shapes outside that (folded or repeated Content-Disposition, mismatching or unknown '
    'charset labels, malformed filename*, truncated bodies) are compared with the model only',
    'a part whose own Content-Type is application/x-www-form-urlencoded or multipart/* is handled by inherited '
    'processors (finding F28, known): the model stops at such a part',
]
RULE = ('multipart/form-data (15%: multipart/mixed) bodies of 0..6 parts; content from adversarial shapes (CR/LF/CRLF/'
        '"--" runs, near-miss delimiters, all byte values, empty, 1, threshold-1/threshold/threshold+1, 10x threshold, '
        'lines of 64 KiB / 128 KiB +-2 bytes in every run, ending in CR / LF / "--"), field | file | unnamed, repeated '
        'names, quoted names with ; , = and escaped quotes; header-level variation: header-name case, parameter order, '
        'token values, blanks around ; and =, extra parameters, extra / repeated / continuation header lines before and '
        'after, declared charsets (utf-8 / iso-8859-1 / us-ascii labels) with matching text, filename* (RFC 5987), '
        'custom make_file; loose shapes (folded / doubled Content-Disposition, wrong or unknown charsets, malformed '
        'filename*, names ending in a backslash, truncated bodies, parts declaring form / multipart types); optional '
        'preamble / epilogue / missing final CRLF, bytes of a following request after Content-Length; x bufsize '
        '1..70000 x socket fragmentation (whole, 1 byte, random) x maxrambytes (0,1,10,100,1000); plus unit-level cases '
        '(random Content-Disposition values, contents x charset labels, header blocks). Non-trivial: at least one part '
        'with non-empty content / a unit case without error; distinct = distinct (boundary, body, bufsize, '
        'fragmentation shape, threshold) or unit input')


# ----------------------------------------------------------------------------------------------
# tables regenerated from the live modules
# ----------------------------------------------------------------------------------------------
GEN_TABLE = 'CpModel/Gen/C04Tables.lean'
#: charset labels the generator may put into a part's Content-Type / a filename* value
CHARSET_POOL = ['utf-8', 'UTF-8', 'utf8', 'utf_8', 'us-ascii', 'US-ASCII', 'ascii', 'iso-8859-1', 'ISO-8859-1', 'latin-1',
                'latin1', 'l1', 'bogus', 'x-unknown-charset', 'utf-99', 'none']
_CODEC_TAG = {'ascii': 0, 'utf-8': 1, 'iso8859-1': 2}


def _lean_bytes(b):
    return '[' + ', '.join(str(x) for x in b) + ']'


def probe():
    import codecs
    from cherrypy import _cpreqbody
    from cherrypy.lib import httputil
    part = _cpreqbody.Part(io.BytesIO(), httputil.HeaderMap(), b'--x')
    names = []
    for n in CHARSET_POOL:
        try:
            tag = _CODEC_TAG.get(codecs.lookup(n).name)
            if tag is None:
                continue                       # a codec the model has no decoder for: not used
        except LookupError:
            tag = 3
        names.append((n, tag))
    return {'procs': [(str(k), getattr(f, '__name__', type(f).__name__)) for k, f in part.processors.items()],
            'charsets': [str(c) for c in _cpreqbody.Part.attempt_charsets],
            'default_ct': str(_cpreqbody.Part.default_content_type), 'maxram': int(_cpreqbody.Part.maxrambytes),
            'codecs': names}


def tables(ctx):
    t = probe()
    src = """/-!
  GENERATED by harness/c04.py from the live modules on every run of the C04 check - do not edit.
  The `processors` of a fresh `Part` (key, function name), `Part.attempt_charsets`, `Part.default_content_type`,
  `Part.maxrambytes`, and what `codecs.lookup` makes of the charset labels the generator uses
  (0 ascii, 1 utf-8, 2 iso8859-1, 3 LookupError).
-/
namespace CpModel.Gen.C04

def partProcessors : List (List UInt8 × List UInt8) :=
  [%s]

def partAttemptCharsets : List (List UInt8) := [%s]

def partDefaultContentType : List UInt8 := %s

def partMaxrambytes : Nat := %d

def codecNames : List (List UInt8 × Nat) :=
  [%s]

end CpModel.Gen.C04
""" % (',\n   '.join('(%s, %s)' % (_lean_bytes(k.encode('latin-1')), _lean_bytes(f.encode('latin-1')))
                     for k, f in t['procs']),
       ', '.join(_lean_bytes(c.encode('latin-1')) for c in t['charsets']),
       _lean_bytes(t['default_ct'].encode('latin-1')), t['maxram'],
       ',\n   '.join('(%s, %d)' % (_lean_bytes(n.encode('latin-1')), tag) for n, tag in t['codecs']))
    return {GEN_TABLE: src}


_LIVE = {}


def live():
    if not _LIVE:
        try:
            _LIVE.update(probe())
        except Exception:
            # tables() has reported the broken introspection; go on with the labels of the unchanged tree
            _LIVE.update({'procs': [], 'charsets': ['us-ascii', 'utf-8'], 'default_ct': 'text/plain', 'maxram': 1000,
                          'codecs': [(n, 3) for n in CHARSET_POOL]})
    return _LIVE


# ----------------------------------------------------------------------------------------------
# serialisation (ground truth) and classification
# ----------------------------------------------------------------------------------------------
def _q(s):
    return s.replace('\\', '\\\\').replace('"', '\\"')


def _cd_value(p):
    """Content-Disposition value from the part's semantic fields and its (optional) syntactic variation."""
    var = p.get('cd_var') or {}
    params = []
    if p.get('name') is not None:
        params.append(('name', p['name']))
    if p.get('filename') is not None:
        params.append(('filename', p['filename']))
    if var.get('swap'):
        params.reverse()
    out = var.get('disp', 'form-data')
    sep = var.get('sep', '; ')
    eq = var.get('eq', '=')
    for k, v in params:
        if var.get('token') and v and all(c.isalnum() for c in v):
            out += '%s%s%s%s' % (sep, k, eq, v)                  # unquoted token
        else:
            out += '%s%s%s"%s"' % (sep, k.upper() if var.get('upper') else k, eq, _q(v))
    for extra in var.get('extra', []):
        out += sep + extra
    if p.get('filename_star') is not None:
        out += sep + 'filename*=' + p['filename_star']
    return out


def part_headers(p):
    """The part's header lines (text, Latin-1), continuation lines included."""
    if p.get('raw_headers') is not None:
        return list(p['raw_headers'])
    names = p.get('hdr_names') or {}
    hs = []
    if p.get('name') is not None or p.get('filename') is not None or p.get('filename_star') is not None:
        hs.append(names.get('cd', 'Content-Disposition') + ': ' + _cd_value(p))
    if p.get('ctype') is not None:
        hs.append(names.get('ct', 'Content-Type') + ':' + p.get('ct_ws', ' ') + p['ctype'])
    for h in p.get('extra', []):
        hs.append(h)
    if p.get('extra_first'):
        hs = list(p['extra_first']) + hs
    return hs


def serialize(case):
    b = case['boundary'].encode('latin-1')
    out = bytearray(bytes.fromhex(case.get('preamble_hex', '')))
    for p in case['parts']:
        out += b'--' + b + b'\r\n'
        for h in part_headers(p):
            out += h.encode('latin-1') + b'\r\n'
        out += b'\r\n' + bytes.fromhex(p['content_hex']) + b'\r\n'
    out += b'--' + b + b'--'
    if case.get('trailing_crlf', True):
        out += b'\r\n'
    out += bytes.fromhex(case.get('epilogue_hex', ''))
    if case.get('cut'):
        out = out[:max(0, len(out) - case['cut'])]      # a truncated body (malformed: compared with the model only)
    return bytes(out)


WS = b'\t\n\x0b\x0c\r '


def delim_like(boundary, content):
    """Some line of content+CRLF (starting at 0 or after an LF) starts with -- and strip()s to --B or --B--."""
    bnd = b'--' + boundary
    for line in (content + b'\r\n').split(b'\n'):
        if line.startswith(b'--') and line.strip(WS) in (bnd, bnd + b'--'):
            return True
    return False


def rfc_clean(boundary, content):
    return (b'\r\n--' + boundary) not in (b'\r\n' + content)


def _field_text(p):
    """What the sender put into a plain field, as text (None: the generator does not vouch for it)."""
    if 'text' in p:
        return p['text']
    try:
        return bytes.fromhex(p['content_hex']).decode('utf-8')
    except UnicodeDecodeError:
        return None


def is_loose(case):
    """Some part uses a header shape / charset declaration / content type the statement does not speak about:
    such a case is judged by the comparison with the model only (and by the bound on the connection)."""
    return bool(case.get('cut')) or any(p.get('loose') for p in case['parts'])


def expected(case):
    """What the handler must receive: (params {name: [entry]}, unnamed parts [entry])."""
    params, parts = {}, []
    mixed = case.get('subtype', 'form-data') != 'form-data'
    for p in case['parts']:
        content = bytes.fromhex(p['content_hex'])
        ct = p['ctype'].split(';')[0].strip() if p.get('ctype') is not None else 'text/plain'
        fn = p.get('filename_expect', p.get('filename'))
        if fn is None:
            e = ['field', _field_text(p)]
        else:
            e = ['file', fn, ct, content.hex()]
        name = p.get('name')
        if name is None:
            if mixed:
                params.setdefault('parts', []).append(e)
            else:
                parts.append(['part', fn, ct, content.hex()])
        else:
            params.setdefault(name, []).append(e)
    return params, parts


# ----------------------------------------------------------------------------------------------
# real-code runner
# ----------------------------------------------------------------------------------------------
_APPS = {}
_J = {}


def _entry(v):
    if isinstance(v, str):
        return ['field', v]
    if isinstance(v, bytes):
        return ['bytes', v.hex()]
    # a Part
    data = None
    if v.file is not None:
        data = v.file.read()        # as a handler would: no seek first
        v.file.seek(0)
    elif v.value is not None:
        data = v.value
    return ['file', v.filename, v.content_type.value, None if data is None else data.hex()]


def _points(x):
    return None if x == 'N' else ([] if x == '-' else [int(t) for t in x.split('.')])


def _str(points):
    return None if points is None else ''.join(chr(c) for c in points)


class RecFile(io.BytesIO):
    """what a custom make_file() hands out"""


def _part_dump(p):
    try:
        hdrs = [[str(k).encode('latin-1', 'replace').hex(), str(v).encode('latin-1', 'replace').hex()]
                for k, v in p.headers.items()]
    except Exception as e:
        hdrs = 'x:' + type(e).__name__
    data = None
    stored = None
    if getattr(p, 'file', None) is not None:
        stored = 'file'
        try:
            pos = p.file.tell()
            p.file.seek(0)
            data = p.file.read().hex()
            p.file.seek(pos)
        except Exception as e:
            data = 'x:' + type(e).__name__
    elif getattr(p, 'value', None) is not None:
        stored = 'value'
        data = p.value.hex()
    cs = None
    try:
        cs = p.content_type.params.get('charset')
    except Exception:
        pass
    return {'hdrs': hdrs, 'name': None if p.name is None else p.name.encode('latin-1', 'replace').hex(),
            'filename': None if p.filename is None else [ord(c) for c in p.filename],
            'ctype': p.content_type.value, 'charset': None if cs is None else cs.encode('latin-1', 'replace').hex(),
            'proc': _J.get('procs', {}).get(id(p)), 'stored': stored, 'data': data,
            'mk': isinstance(getattr(p, 'file', None), RecFile)}


def _app(bufsize, maxram, mkfile='default'):
    import cherrypy
    from cherrypy import _cpreqbody
    key = (bufsize, maxram, mkfile)
    app = _APPS.get(key)
    if app is None:
        if not _APPS:
            cherrypy.config.update({'environment': 'test_suite', 'log.screen': False})

        class P(_cpreqbody.Part):
            maxrambytes = maxram

            def __init__(self, fp, headers, boundary):
                _cpreqbody.Part.__init__(self, fp, headers, boundary)
                _J.setdefault('allparts', []).append(self)
                # which entry of the part's processor table runs (the originals are called through)
                for k, f in list(self.processors.items()):
                    self.processors[k] = (lambda ff, me: lambda entity: (
                        _J.setdefault('procs', {}).__setitem__(id(me), getattr(ff, '__name__', '?')), ff(entity))[1])(
                            f, self)
                dp = self.default_proc
                self.default_proc = lambda: (_J.setdefault('procs', {}).__setitem__(id(self), 'default_proc'), dp())[1]

            if mkfile == 'custom':
                def make_file(self):
                    return RecFile()

        class Root:
            @cherrypy.expose
            def index(self, **kw):
                params = {}
                for k, v in kw.items():
                    vs = v if isinstance(v, list) else [v]
                    params[k] = [_entry(x) for x in vs]
                _J['params'] = params
                _J['is_list'] = {k: isinstance(v, list) for k, v in kw.items()}
                parts = []
                for p in cherrypy.request.body.parts:
                    e = _entry(p)
                    parts.append(['part', e[1], e[2], e[3]])
                _J['parts'] = parts
                _J['storage'] = [('file' if p.file is not None else 'value')
                                 for p in cherrypy.request.body.parts]
                return b'ok'
        if len(_APPS) > 300:
            _APPS.clear()
            _APPS[None] = None
        app = cherrypy.Application(Root(), '', {'/': {'request.body.bufsize': bufsize,
                                                       'request.body.part_class': P}})
        _APPS[key] = app
    return app


def run_real(case):
    body = serialize(case)
    beyond = bytes.fromhex(case.get('beyond_hex', ''))
    fp = FragStream(body + beyond, case.get('frag', []), faults=case.get('faults'))
    ctype = 'multipart/%s; boundary=%s' % (case.get('subtype', 'form-data'),
                                           ('"%s"' % case['boundary']) if case.get('quote_boundary')
                                           else case['boundary'])
    env = {'REQUEST_METHOD': 'POST', 'PATH_INFO': '/', 'SCRIPT_NAME': '', 'QUERY_STRING': '',
           'SERVER_NAME': 'x', 'SERVER_PORT': '80', 'SERVER_PROTOCOL': 'HTTP/1.1', 'HTTP_HOST': 'x',
           'wsgi.version': (1, 0), 'wsgi.url_scheme': 'http', 'wsgi.input': fp,
           'wsgi.errors': io.StringIO(), 'wsgi.multithread': False, 'wsgi.multiprocess': False,
           'wsgi.run_once': False, 'CONTENT_TYPE': ctype, 'REMOTE_ADDR': '127.0.0.1'}
    if case.get('chunked'):
        env['HTTP_TRANSFER_ENCODING'] = 'chunked'
    else:
        env['CONTENT_LENGTH'] = str(len(body))
    _J.clear()
    st = []
    it = _app(case.get('bufsize', 8192), case.get('maxram', 1000), case.get('mkfile', 'default'))(
        env, lambda status, headers, exc=None: st.append(status))
    try:
        for _ in it:
            pass
    finally:
        if hasattr(it, 'close'):
            it.close()
    try:
        allparts = [_part_dump(p) for p in _J.get('allparts', [])]
    except Exception as e:
        allparts = 'x:' + type(e).__name__
    return {'status': int(st[0].split()[0]) if st else None, 'params': _J.get('params'),
            'parts': _J.get('parts'), 'is_list': _J.get('is_list'), 'storage': _J.get('storage'),
            'order': [[k, len(v)] for k, v in (_J.get('params') or {}).items()], 'allparts': allparts,
            'nfaults': fp.nfaults,
            'off': fp.pos, 'req_end': fp.req_end, 'len': len(body)}


# ----------------------------------------------------------------------------------------------
# model side
# ----------------------------------------------------------------------------------------------
def model_line(case):
    body = serialize(case)
    conn = body + bytes.fromhex(case.get('beyond_hex', ''))
    return '%s %d %d %s %s %s' % (case['boundary'].encode('latin-1').hex() or '-', case.get('maxram', 1000),
                                  case.get('bufsize', 8192), 'N' if case.get('chunked') else len(body),
                                  ','.join(map(str, case.get('frag', []))) or '-', conn.hex() or '-')


def _unhex(x):
    return None if x == 'N' else (b'' if x == '-' else bytes.fromhex(x))


DEFAULT_PROC = 'default_proc'


def parse_model(line, case):
    """Model output -> the same canonical observation the real side produces."""
    if line.startswith('err:'):
        return {'status': 400, 'params': None, 'parts': None, 'err': line[4:], 'allparts': None}
    f = line.split(' ')
    kv = dict(x.split('=') for x in f[1:3])
    mixed = case.get('subtype', 'form-data') != 'form-data'
    params, parts, storage, allparts = {}, [], [], []
    g = f[3][2:]
    groups = [] if g == '-' else [[(_unhex(x.split(':')[0]) or b'').decode('latin-1'),
                                   [int(n) for n in x.split(':')[1].split('+')]] for x in g.split(',')]
    i = 4
    bad = None
    nested = None
    while i < len(f):
        assert f[i] == 'P'
        name, fn, ct, spilled, content, hdrs, fnx, charset, proc, infile, entry, dtext = f[i + 1:i + 13]
        i += 13
        name, ct, content = _unhex(name), _unhex(ct), _unhex(content)
        name = None if name is None else name.decode('latin-1')
        ct = ct.decode('latin-1')
        proc = _unhex(proc).decode('latin-1')
        hl = [] if hdrs == '-' else [[('' if y == '-' else y) for y in x.split(':')] for x in hdrs.split(';')]
        if fnx == 'E':
            allparts.append({'hdrs': hl, 'err': 'filename*'})
            bad = bad or 'filename*'
            break
        fnp = _points(fnx)
        stored = 'file' if infile == '1' else 'value'
        allparts.append({'hdrs': hl, 'name': None if name is None else name.encode('latin-1').hex(), 'filename': fnp,
                         'ctype': ct, 'charset': None if charset == 'N' else ('' if charset == '-' else charset),
                         'proc': proc, 'stored': stored, 'data': content.hex(),
                         'mk': stored == 'file' and case.get('mkfile') == 'custom'})
        if proc != DEFAULT_PROC:
            nested = len(allparts) - 1
            break
        if fnp is None:
            if name is not None or mixed:
                if dtext == 'U':
                    bad = bad or 'decode'
                    continue
                e = ['field', content.decode('latin-1') if dtext == 'T=' else _str(_points(dtext[1:]))]
            else:
                e = None
        else:
            e = ['file', _str(fnp), ct, content.hex()]
        if name is None and not mixed:
            parts.append(['part', _str(fnp), ct, content.hex()])
            storage.append(stored)
        else:
            params.setdefault('parts' if name is None else name, []).append(e)
    if nested is not None:
        return {'status': None, 'nested': nested, 'allparts': allparts, 'params': None, 'parts': None}
    if bad:
        return {'status': 400, 'params': None, 'parts': None, 'err': bad, 'allparts': allparts}
    return {'status': 200, 'params': params, 'parts': parts, 'storage': storage, 'groups': groups,
            'allparts': allparts, 'off': None if kv['off'] == 'N' else int(kv['off'])}


# ----------------------------------------------------------------------------------------------
# oracle
# ----------------------------------------------------------------------------------------------
def oracle(case, obs):
    bad = []
    b = case['boundary'].encode('latin-1')
    near = [i for i, p in enumerate(case['parts']) if delim_like(b, bytes.fromhex(p['content_hex']))]
    pre_marker = any(l.strip(WS) == b'--' + b for l in bytes.fromhex(case.get('preamble_hex', '')).split(b'\n'))
    exp_params, exp_parts = expected(case)
    sig = None
    if near:
        sig = 'F7:near_miss_delimiter'
    elif pre_marker:
        sig = 'preamble_marker'     # outside the statement (preamble text must not contain a marker line)
    elif any(p.get('nested') for p in case['parts']):
        sig = 'F28:part_content_type_processor'
    if obs.get('nfaults'):
        pass                        # the connection failed under the parser (timeout / reset): the request is lost,
                                    # what remains of the statement is the bound on the connection below
    elif is_loose(case):
        pass                        # judged by the comparison with the model (and the bound below)
    elif obs['status'] != 200:
        bad.append(('status %s for a well-formed multipart body' % obs['status'], sig or 'status'))
    else:
        got = obs['params']
        if got != exp_params:
            names = sorted(set(got) ^ set(exp_params)) or [k for k in got if got[k] != exp_params.get(k)]
            what = 'parameters differ at %r: received %s, sent %s' % (
                names[:3], json.dumps({k: got.get(k) for k in names[:2]})[:300],
                json.dumps({k: exp_params.get(k) for k in names[:2]})[:300])
            sig2 = sig or ('content:chunked_parts_lost' if case.get('chunked') and _is_prefix_loss(got, exp_params)
                           else 'content')
            bad.append((what, sig2))
        elif case.get('subtype', 'form-data') == 'form-data' and obs['parts'] != exp_parts:
            bad.append(('unnamed parts differ: received %s, sent %s'
                        % (json.dumps(obs['parts'])[:300], json.dumps(exp_parts)[:300]), sig or 'content_parts'))
        else:
            # "parts sharing a name arrive as a list": one part -> the value itself, several -> a list
            for k, v in exp_params.items():
                if obs['is_list'].get(k) != (len(v) > 1):
                    bad.append(('parameter %r: %d part(s) sent, handler got %s'
                                % (k, len(v), 'a list' if obs['is_list'].get(k) else 'a single value'),
                                sig or 'list_promotion'))
    if not case.get('chunked'):
        if obs['off'] > obs['len']:
            bad.append(('consumed %d bytes of the connection, Content-Length %d' % (obs['off'], obs['len']),
                        'overread'))
        elif obs['req_end'] > obs['len']:
            bad.append(('asked the connection for bytes up to offset %s, Content-Length %d'
                        % (obs['req_end'], obs['len']), 'overread_request'))
    return bad


def _is_prefix_loss(got, exp):
    """F23 symptom: the handler received a strict prefix of the parts (everything after some part lost)."""
    for k, v in got.items():
        if k not in exp or exp[k][:len(v)] != v:
            return False
    return True


# ----------------------------------------------------------------------------------------------
# generators
# ----------------------------------------------------------------------------------------------
BOUNDARIES = ['B', 'a', 'XX', 'x-y', '----WebKitFormBoundary7MA4YWxkTrZu0gW', 'b b', "'()+_,-./:=?", '--', 'B--']
NAMES = ['a', 'b', 'a', 'file', 'x y', 'n;m', 'p,q', 'k=v', 'q"r', 'back\\slash', 'UP', 'parts', '']
FILENAMES = ['f.txt', 'a b.bin', 'semi;colon', 'com,ma', 'q"uote', 'c:\\dir\\x', '', 'name*']
CTYPES = [None, None, 'text/plain', 'application/octet-stream', 'image/png', 'text/x; charset=utf-8',
          'TEXT/Plain', 'application/x-foo+bar']


def gen_content(rng, boundary, maxram, kind, allow_near):
    b = boundary.encode('latin-1')
    shape = rng.choices(['empty', 'one', 'adv', 'adv', 'adv', 'near', 'thresh', 'big', 'allbytes', 'longline', 'tail'],
                        weights=[6, 6, 20, 20, 10, 12, 12, 4, 6, 1, 8])[0]
    if shape == 'empty':
        c = b''
    elif shape == 'one':
        c = bytes([rng.choice(b'\r\n-a \t')])
    elif shape in ('adv', 'tail'):
        atoms = [b'\r', b'\n', b'\r\n', b'-', b'--', b'a', b' ', b'\t', b, b'--' + b[:-1], b'-' + b, b'\r\n-', b'\n--',
                 b'\r\n--', b'--' + b + b'x', b'--' + b + b'-', b'\r--' + b, b' --' + b, b'x--' + b]
        c = b''.join(rng.choice(atoms) for _ in range(rng.randint(1, 12)))
        if shape == 'tail':
            c += rng.choice([b'\r', b'\n', b'\r\n', b'-', b'--', b'\r\n--', b'\r\n\r\n', b'\n\n', b'\r\r'])
    elif shape == 'near':
        # near-miss delimiters: the genuinely delimiter-like ones are classified by delim_like()
        miss = rng.choice([b'\n--' + b + b'\n', b'\r\n--' + b + b' \t\r\n', b'\n--' + b + b'--\n', b'--' + b + b'\r\n',
                           b'\r\n--' + b + b'x\r\n', b'\r\n --' + b + b'\r\n', b'\r--' + b + b'\r\n',
                           b'\r\n--' + b + b'-\r\n', b'\r\n-- ' + b + b'\r\n', b'\n--' + b, b'\r\n--' + b + b'--x',
                           b'\r\n--' + b.swapcase() + b'\r\n', b'\r\n--' + b + b'\x0b'])
        c = rng.choice([b'', b'a', b'ab\r\ncd']) + miss + rng.choice([b'', b'b', b'tail\r\n'])
    elif shape == 'thresh':
        n = max(0, maxram + rng.choice([-1, 0, 1]))
        unit = rng.choice([b'a', b'ab\r\n', b'\n', b'-', b'\r'])
        c = (unit * (n // len(unit) + 1))[:n]
    elif shape == 'big':
        n = 10 * max(maxram, 10) + rng.randint(0, 3)
        unit = rng.choice([b'0123456789abcde\r\n', b'x' * 99 + b'\n', b'--\r\n'])
        c = (unit * (n // len(unit) + 1))[:n]
    elif shape == 'allbytes':
        c = bytes(rng.randrange(256) for _ in range(rng.choice([8, 40, 300])))
    else:
        c = b'L' * rng.choice([65535, 65536, 65537, 70000]) + rng.choice([b'', b'\r\nend', b'\n'])
    if kind == 'field':
        # plain fields carry text: make it valid UTF-8, keeping CR/LF/dashes
        try:
            c.decode('utf-8')
        except UnicodeDecodeError:
            c = c.decode('latin-1').encode('utf-8')
    if delim_like(b, c) and not allow_near:
        c = c.replace(b'--' + b, b'-+' + b)
        if delim_like(b, c):
            c = b'safe'
    return c


HDR_CASE = {'cd': ['content-disposition', 'CONTENT-DISPOSITION', 'Content-disposition', 'cOnTeNt-DiSpOsItIoN'],
            'ct': ['content-type', 'CONTENT-TYPE', 'Content-type', 'cONTENT-tYPE']}
EXTRA_HEADERS = [['X-Extra: 1'], ['x-multi: a'], ['x-multi: a', 'X-MULTI: b'], ['X-Folded: a', '\tcontinued'],
                 ['X-Folded: a', ' b', ' c'], ['x-empty:'], ['X-Colon: a:b'], ['X-Latin: caf\xe9'],
                 ['Content-Transfer-Encoding: binary'], ['Content-Length: 3'], ['MIME-Version: 1.0'],
                 ['x1a-b2c: v'], ['X-Multi: 1', 'x-other: 2', 'X-MULTI: 3'], ['X-Ws :  padded  ']]
#: (codec, labels the sender may declare it with, sample texts it can encode)
TEXT_CODECS = [('utf-8', ['utf-8', 'UTF-8', 'utf8', 'utf_8'], ['gr\xfc\xdfe', '\u20ac 5', 'plain', 'a\r\nb', '\U0001f600', '']),
               ('iso-8859-1', ['iso-8859-1', 'ISO-8859-1', 'latin-1', 'latin1', 'l1'],
                ['caf\xe9', '\xff\xfe', 'plain', '', '\xc3\xa9 (valid UTF-8 too)']),
               ('ascii', ['us-ascii', 'US-ASCII', 'ascii'], ['plain text', 'a--b', ''])]
STAR_NAMES = ['\u20ac rates.txt', 'na\xefve.txt', 'a b;c.txt', 'plain.txt', '100%.txt', "o'neil.txt", '\U0001f600.png']


def _live_label_ok(label):
    return any(n == label for n, _ in live()['codecs'])


def gen_part_headers(rng, p, kind, boundary):
    """Decorate the part with header-level variation; sets p['loose'] when the statement does not cover it."""
    from urllib.parse import quote
    if rng.random() < 0.2:
        p['hdr_names'] = {'cd': rng.choice(HDR_CASE['cd']), 'ct': rng.choice(HDR_CASE['ct'])}
    if rng.random() < 0.3:
        var = {}
        if rng.random() < 0.4:
            var['swap'] = True
        if rng.random() < 0.3:
            var['token'] = True
        if rng.random() < 0.4:
            var['sep'] = rng.choice([';', ' ; ', ';\t', ';  '])
        if rng.random() < 0.2:
            var['eq'] = rng.choice([' = ', '= ', ' ='])
        if rng.random() < 0.2:
            var['upper'] = True
        if rng.random() < 0.3:
            var['disp'] = rng.choice(['attachment', 'FORM-DATA', 'file', 'form-data'])
        if rng.random() < 0.3:
            var['extra'] = [rng.choice(['size=3', 'x-flag', 'creation-date="12 Feb"', 'Name2="z"'])]
        p['cd_var'] = var
    if rng.random() < 0.25:
        p.setdefault('extra', [])
        p['extra'] = list(p['extra']) + rng.choice(EXTRA_HEADERS)
    if rng.random() < 0.12:
        p['extra_first'] = rng.choice(EXTRA_HEADERS)
    if rng.random() < 0.1:
        p['ct_ws'] = rng.choice(['', '  ', '\t'])
    # a declared charset for a plain field
    if kind != 'file' and p.get('filename') is None and rng.random() < 0.3:
        codec, labels, texts = rng.choice(TEXT_CODECS)
        text = rng.choice(texts)
        label = rng.choice([l for l in labels if _live_label_ok(l)] or labels[:1])
        raw = text.encode(codec)
        if delim_like(boundary.encode('latin-1'), raw):
            raw, text = b'x', 'x'
        p['content_hex'] = raw.hex()
        p['text'] = text
        p['ctype'] = rng.choice(['text/plain; charset=%s', 'text/plain;charset="%s"', 'text/x-y; CHARSET=%s',
                                 'text/plain; format=flowed; charset=%s']) % label
    # RFC 5987 filename*
    if p.get('filename') is not None and rng.random() < 0.12:
        t = rng.choice(STAR_NAMES)
        codec, label = rng.choice([('utf-8', 'UTF-8'), ('utf-8', 'utf-8'), ('iso-8859-1', 'iso-8859-1')])
        try:
            raw = t.encode(codec)
        except UnicodeEncodeError:
            codec, label, raw = 'utf-8', 'UTF-8', t.encode('utf-8')
        p['filename_star'] = "%s'%s'%s" % (label, rng.choice(['', 'en', 'de-CH']), quote(raw, safe=''))
        p['filename_expect'] = t
        if rng.random() < 0.3:
            p['filename'] = None            # only the extended parameter
    # ---- shapes outside the statement: compared with the model only ----
    k = rng.random()
    if k < 0.03:
        p['extra_first'] = None
        names = p.get('hdr_names') or {}
        p['loose'] = True                   # a folded Content-Disposition (continuation lines are joined with ', ')
        p['raw_headers'] = [names.get('cd', 'Content-Disposition') + ': form-data;', ' name="%s"' % _q(p.get('name') or 'x')]
    elif k < 0.05:
        p['loose'] = True                   # the header twice
        p['extra'] = list(p.get('extra') or []) + ['Content-Disposition: form-data; name="second"']
    elif k < 0.08 and p.get('filename') is None:
        p['loose'] = True                   # charset declarations that do not fit the bytes / unknown labels
        p['ctype'] = 'text/plain; charset=' + rng.choice(['bogus', 'utf-8', 'us-ascii', 'x-unknown-charset', '""',
                                                          'iso-8859-1', 'none'])
        p['content_hex'] = rng.choice([b'caf\xe9', b'\xff\xfe', b'plain', b'', b'\xe2\x82\xac', b'\xe2\x82']).hex()
        p.pop('text', None)
    elif k < 0.11 and p.get('filename') is not None:
        p['loose'] = True                   # malformed / exotic filename*
        p['filename_star'] = rng.choice(["UTF-8'x", "''", "a'b'c'd", "bogus''plain", "bogus''a%41", "utf-8''%ff%fe",
                                         "utf-8''%e2%82", "utf-8''%zz%4", "us-ascii''%e9", "UTF-8''caf\xe9%20x",
                                         "''%41", "iso-8859-1''%e9%00", "utf-8''%f0%90%80", "utf-8''%ed%a0%80x"])
        p.pop('filename_expect', None)
    elif k < 0.125:
        p['loose'] = True                   # the stdlib-style parser's weak spot: a value ending in a backslash
        p['name'] = (p.get('name') or 'n') + '\\'
    elif k < 0.14 and p.get('cd_var') is not None:
        p['loose'] = True
        p['cd_var']['extra'] = ['creation-date="Wed, 12 Feb"']
    elif k < 0.16:
        # the part's own Content-Type selects a processor inherited from Entity (finding F28)
        p['nested'] = True
        p['ctype'] = rng.choice(['multipart/mixed; boundary=I', 'application/x-www-form-urlencoded',
                                 'multipart/form-data; boundary=zz', 'multipart/x'])


def gen_case(rng, big=False):
    boundary = rng.choice(BOUNDARIES)
    maxram = rng.choice([0, 1, 10, 100, 1000, 1000])
    allow_near = rng.random() < 0.08
    nparts = rng.choice([0, 1, 1, 2, 2, 3, 3, 4, 5, 6])
    plain = rng.random() < 0.35          # as before: no header-level variation at all
    parts = []
    for _ in range(nparts):
        kind = rng.choices(['field', 'file', 'unnamed'], weights=[45, 45, 10])[0]
        p = {'name': None, 'filename': None, 'ctype': None}
        if kind != 'unnamed':
            p['name'] = rng.choice(NAMES)
        if kind == 'file' or (kind == 'unnamed' and rng.random() < 0.5):
            p['filename'] = rng.choice(FILENAMES)
            p['ctype'] = rng.choice(CTYPES)
        elif rng.random() < 0.2:
            p['ctype'] = rng.choice(['text/plain', 'text/plain; charset=utf-8'])
        c = gen_content(rng, boundary, maxram, 'field' if p['filename'] is None else 'file', allow_near)
        if not big and len(c) > 20000 and rng.random() < 0.7:
            c = c[:50]
        p['content_hex'] = c.hex()
        if any(',' in (p.get(k) or '') for k in ('name', 'filename')):
            # header_elements splits at commas by counting quote characters, ignoring backslash escapes:
            # keep escaped quotes out of headers that carry a comma (outside the statement's scope)
            for k in ('name', 'filename'):
                if p.get(k):
                    p[k] = p[k].replace('"', "'")
        if rng.random() < 0.1:
            p['extra'] = [rng.choice(['X-Extra: 1', 'Content-Transfer-Encoding: binary', 'x-multi: a',
                                      'Content-Length: 3'])]
        if not plain:
            gen_part_headers(rng, p, kind, boundary)
            if any(',' in (p.get(k) or '') for k in ('name', 'filename')) and p.get('cd_var'):
                p['cd_var'].pop('extra', None)
        parts.append(p)
    pre = b''
    if rng.random() < 0.25:
        pre = rng.choice([b'preamble\r\n', b'This is a multi-part message.\r\n\r\n', b'\r\n', b'x\n', b'--\r\n',
                          b'--' + boundary.encode('latin-1') + b'x\r\n', b' \r\n'])
    epi = b''
    if rng.random() < 0.2:
        epi = rng.choice([b'epilogue', b'\r\n', b'--' + boundary.encode('latin-1') + b'\r\n', b'junk\r\n--\r\n'])
    if not parts and b'--' + boundary.encode('latin-1') + b'\r\n' == epi:
        epi = b'epilogue'       # with no part at all the first-marker search would take it for the first marker
    trailing = rng.random() < 0.8 or bool(epi)
    beyond = b''
    if rng.random() < 0.5:
        beyond = rng.choice([b'GET / HTTP/1.1\r\nHost: x\r\n\r\n', b'\r\n--' + boundary.encode('latin-1') + b'\r\n', b'Z'])
    bufsize = rng.choice([1, 2, 3, 5, 7, 16, 64, 1024, 8192, 8192, 65536, 70000])
    n = sum(len(p['content_hex']) // 2 for p in parts) + 200 * len(parts) + 100
    if n > 5000 and bufsize < 64:
        bufsize = rng.choice([64, 1024, 8192])
    # the model's reader copies its push-back buffer once per line (as the code does, but cell by cell): keep
    # (number of lines) x (bytes read ahead per line) within a budget; many lines x big buffers stay covered by the
    # smaller bodies
    nlines = sum(bytes.fromhex(p['content_hex']).count(b'\n') for p in parts) + 8 * len(parts) + 4
    while nlines * min(bufsize, n) > 12_000_000 and bufsize > 64:
        bufsize = max(64, bufsize // 8)
    k = rng.random()
    if k < 0.3:
        frag = []
    elif k < 0.55:
        frag = [0] * min(3000, n)
    else:
        frag = [rng.choice([0, 0, 1, 2, 3, 6, 15, 100, 5000]) for _ in range(rng.choice([10, 40, 200, 1000]))]
    case = {'boundary': boundary, 'parts': parts, 'preamble_hex': pre.hex(), 'epilogue_hex': epi.hex(),
            'trailing_crlf': trailing, 'beyond_hex': beyond.hex(), 'bufsize': bufsize, 'frag': frag,
            'maxram': maxram, 'subtype': 'mixed' if rng.random() < 0.15 else 'form-data',
            'quote_boundary': rng.random() < 0.3 or ' ' in boundary or ',' in boundary}
    if rng.random() < 0.15:
        case['mkfile'] = 'custom'   # the part class overrides make_file()
    if rng.random() < 0.04:
        # transient failures of the connection under the parser (the k-th next read of the raw stream raises)
        case['faults'] = [rng.choice([0, 1, 2, 3, 5, 9, 20]) for _ in range(rng.choice([1, 2]))]
    if rng.random() < 0.03 and n < 5000:
        case['cut'] = rng.choice([1, 2, 3, 5, 9, rng.randint(1, max(1, n // 2))])
    if rng.random() < 0.1:
        case['chunked'] = True      # no declared length: the body ends where the connection ends
        case['beyond_hex'] = ''
    return case


# ----------------------------------------------------------------------------------------------
# unit-level cases: one function of the part machinery at a time, far more inputs than whole bodies allow
# ----------------------------------------------------------------------------------------------
CD_ATOMS = ['form-data', 'name=', 'filename=', 'filename*=', '"', '"', ';', '; ', '=', ' ', '\\', '\\"', 'a', 'b c', 'x.txt',
            ',', "UTF-8''", "iso-8859-1'en'", "bogus''", "'", '%41', '%e2%82%ac', '%ff', '%', 'caf\xe9', 'NAME=', '\t',
            'name="a"', 'filename="f;g"', '"q\\"r"', 'attachment', 'name="\\"a\\""', 'filename="\\"f\\""',
            'name="\\"a\\"";', 'filename="\\"\\"";']
HDR_LINE_ATOMS = ['X-A: 1\r\n', 'x-a: 2\r\n', 'Content-Type: text/plain\r\n', ' folded\r\n', '\tfolded more \r\n',
                  'content-TYPE:image/png\r\n', 'NoColon\r\n', 'X-B:\r\n', ': empty-name\r\n', 'X-C: a:b\r\n',
                  'X-A: 3\n', 'X-D: caf\xe9\r\n', 'x1-y2: v\r\n', 'X-A : spaced \r\n', '\r\n']
DEC_CONTENTS = [b'', b'plain', b'caf\xc3\xa9', b'caf\xe9', b'\xff\xfe', b'\xe2\x82\xac', b'\xe2\x82', b'\xed\xa0\x80',
                b'\xf0\x9f\x98\x80', b'\xc0\x80', b'a\x00b', b'\x7f\x80', b'\xf4\x90\x80\x80', b'\r\n--']


def gen_unit(rng):
    k = rng.random()
    if k < 0.45:
        v = ''.join(rng.choice(CD_ATOMS) for _ in range(rng.randint(1, 7)))
        return {'kind': 'cd', 'value': v.strip()}
    if k < 0.7:
        label = rng.choice([None, None] + [n for n, _ in live()['codecs']] + ['', '"utf-8"'])
        return {'kind': 'dec', 'charset': label, 'content_hex': rng.choice(DEC_CONTENTS).hex()}
    lines = [rng.choice(HDR_LINE_ATOMS) for _ in range(rng.randint(0, 5))]
    if rng.random() < 0.85:
        lines.append('\r\n')
    return {'kind': 'hdr', 'lines': lines}


def _hdrmap_dump(h):
    return [[str(k).encode('latin-1', 'replace').hex(), str(v).encode('latin-1', 'replace').hex()] for k, v in h.items()]


def run_unit(case):
    import cherrypy
    from cherrypy import _cpreqbody
    from cherrypy.lib import httputil
    kind = case['kind']
    try:
        if kind == 'cd':
            h = httputil.HeaderMap()
            h['Content-Disposition'] = case['value']
            e = _cpreqbody.Part(io.BytesIO(), h, b'--x')
            return {'name': None if e.name is None else e.name.encode('latin-1', 'replace').hex(),
                    'filename': None if e.filename is None else [ord(c) for c in e.filename]}
        if kind == 'dec':
            h = httputil.HeaderMap()
            if case['charset'] is not None:
                h['Content-Type'] = 'text/plain; charset=' + case['charset']
            e = _cpreqbody.Part(io.BytesIO(), h, b'--x')
            e.value = bytes.fromhex(case['content_hex'])
            return {'text': [ord(c) for c in e.fullvalue()]}
        data = ''.join(case['lines']).encode('latin-1')
        rd = _cpreqbody.SizedReader(FragStream(data, []), len(data), None, bufsize=7)
        return {'hdrs': _hdrmap_dump(_cpreqbody.Part.read_headers(rd))}
    except cherrypy.HTTPError as e:
        return {'err': 'http%d' % e.code}
    except (ValueError, EOFError) as e:
        return {'err': 'malformed'}
    except Exception as e:
        return {'err': 'x:' + type(e).__name__}


def line_unit(case):
    kind = case['kind']
    if kind == 'cd':
        return 'cd ' + (case['value'].encode('latin-1').hex() or '-')
    if kind == 'dec':
        cs = case['charset']
        if cs is not None and len(cs) >= 2 and cs[0] == cs[-1] == '"':
            cs = cs[1:-1]                   # parse_header removes one pair of quotes
        return 'dec %s %s' % ('N' if cs is None else (cs.encode('latin-1').hex() or '-'), case['content_hex'] or '-')
    # read_headers stops at the first blank line: the model folds the lines before it
    ls = []
    for l in case['lines']:
        if l == '\r\n':
            break
        ls.append(l)
    return 'hdr ' + (','.join(l.encode('latin-1').hex() for l in ls) or '-')


def parse_unit(case, line):
    kind = case['kind']
    if kind == 'cd':
        if line == 'E':
            return {'err': 'http400'}
        name, fn = line.split(' ')
        return {'name': None if name == 'N' else ('' if name == '-' else name), 'filename': _points(fn)}
    if kind == 'dec':
        return {'err': 'http400'} if line == 'U' else {'text': _points(line)}
    if line == 'err':
        return {'err': 'malformed'}
    return {'hdrs': [] if line == '-' else [[('' if y == '-' else y) for y in x.split(':')] for x in line.split(';')]}


def check_units(ctx, cases, compare=True, stats=True):
    from . import c05
    obs = [c05.guarded(run_unit, c) for c in cases]
    for c, o in zip(cases, obs):
        if o is None:
            c05.report_hang(ctx, c, 'part machinery (%s)' % c['kind'])
    cases = [c for c, o in zip(cases, obs) if o is not None]
    obs = [o for o in obs if o is not None]
    model = ctx.model([line_unit(c) for c in cases]) if compare else None
    for i, (case, o) in enumerate(zip(cases, obs)):
        ctx.case(case, nontrivial='err' not in o, key=json.dumps(case, sort_keys=True))
        if stats:
            ctx.count('unit:%s:%s' % (case['kind'], o.get('err', 'ok')))
        if model is None:
            continue
        ctx.compared()
        m = parse_unit(case, model[i])
        impl = o
        if case['kind'] == 'hdr':
            ok_lines = case['lines'] and '\r\n' in case['lines']
            if 'err' in o and 'err' in m:
                continue
            if not ok_lines and 'err' in o:
                continue                    # the block never ends: EOFError / missing CRLF, the model line has no end
        if impl != m:
            ctx.disagree(case, impl, m, 'part machinery (%s): code and model differ' % {
                'cd': 'Content-Disposition name / filename / filename*', 'dec': 'field value decoding',
                'hdr': 'read_headers'}[case['kind']])


def gen_longline_cases(rng, count):
    """Lines whose length sits on the limit of `fp.readline(1 << 16)`: k - 2 .. k + 2 for k = 64 KiB and 128 KiB, as
    the last line of a part (directly in front of the CRLF of the delimiter) or in its middle, terminated by CRLF /
    LF / nothing; field, file or unnamed part; buffer sizes around the limit."""
    out = []
    for _ in range(count):
        k = rng.choice([65536, 65536, 131072]) + rng.choice([-2, -1, -1, 0, 1, 2])
        fill = rng.choice([b'L', b'-', b'\r'])
        line = fill * k
        head = rng.choice([b'', b'', b'ab\r\n', b'\n', b'--\r\n'])
        tail = rng.choice([b'', b'', b'', b'\r\nend', b'\n', b'\r\n', b'\r'])
        content = head + line + tail
        kind = rng.choice(['field', 'file', 'file', 'unnamed'])
        p = {'name': None if kind == 'unnamed' else rng.choice(['a', 'file']), 'ctype': None,
             'filename': 'f.bin' if kind == 'file' else None, 'content_hex': content.hex()}
        parts = [p]
        if rng.random() < 0.5:
            parts.append({'name': 'z', 'filename': None, 'ctype': None, 'content_hex': b'after'.hex()})
        if rng.random() < 0.3:
            parts.insert(0, {'name': 'y', 'filename': None, 'ctype': None, 'content_hex': b'before'.hex()})
        bufsize = rng.choice([1024, 8192, 65535, 65536, 65537, 70000])
        frag = rng.choice([[], [], [rng.choice([100, 5000, 65535]) for _ in range(40)]])
        out.append({'boundary': rng.choice(['B', 'XX']), 'parts': parts, 'preamble_hex': '', 'epilogue_hex': '',
                    'trailing_crlf': True, 'beyond_hex': rng.choice(['', '5a']), 'bufsize': bufsize, 'frag': frag,
                    'maxram': rng.choice([1000, 100000, 200000]), 'subtype': 'form-data', 'quote_boundary': False})
    return out


def enum_small():
    """Exhaustive small scope: one file part whose content ranges over all strings of length <= 6 over
    {CR, LF, '-', 'a'}, boundary 'a'; bufsize 1 and 8192."""
    import itertools
    for n in range(0, 7):
        for t in itertools.product(b'\r\n-a', repeat=n):
            c = bytes(t)
            yield {'boundary': 'a', 'parts': [{'name': 'f', 'filename': 'x', 'ctype': None, 'content_hex': c.hex()}],
                   'bufsize': 8192 if n % 2 else 3, 'frag': [], 'maxram': 2, 'subtype': 'form-data'}


# ----------------------------------------------------------------------------------------------
def case_key(case):
    return json.dumps([case['boundary'], serialize(case).hex(), case.get('bufsize'), case.get('faults'),
                       len(case.get('frag', [])),
                       case.get('frag', [])[:6], case.get('maxram'), case.get('subtype'), bool(case.get('chunked'))])


def check_cases(ctx, cases, compare=True, stats=True):
    from . import c05
    obs_list = [c05.guarded(run_real, c) for c in cases]
    for c, o in zip(cases, obs_list):
        if o is None:
            c05.report_hang(ctx, {k: (v if k != 'frag' else v[:8]) for k, v in c.items()}, 'the multipart request')
    cases = [c for c, o in zip(cases, obs_list) if o is not None]
    obs_list = [o for o in obs_list if o is not None]
    model = ctx.model([model_line(c) for c in cases]) if compare else None
    for i, (case, obs) in enumerate(zip(cases, obs_list)):
        nontrivial = any(p['content_hex'] for p in case['parts'])
        ctx.case({k: (v if k != 'frag' else v[:8]) for k, v in case.items()}, nontrivial=nontrivial,
                 key=case_key(case))
        b = case['boundary'].encode('latin-1')
        near = any(delim_like(b, bytes.fromhex(p['content_hex'])) for p in case['parts'])
        if stats:
            ctx.count('parts:%d' % len(case['parts']))
            ctx.count('bufsize:%s' % ('1' if case.get('bufsize') == 1 else '2-16' if case.get('bufsize', 8192) <= 16
                                      else '64-1024' if case.get('bufsize', 8192) <= 1024 else 'big'))
            fr = case.get('frag', [])
            ctx.count('frag:' + ('whole' if not fr else '1byte' if set(fr) == {0} else 'random'))
            ctx.count('maxram:%d' % case.get('maxram', 1000))
            ctx.count('status:%s' % obs['status'])
            ctx.count('subtype:' + case.get('subtype', 'form-data'))
            ctx.count('length:' + ('absent(chunked)' if case.get('chunked') else 'declared'))
            if near:
                ctx.count('content:delim_like(F7)')
            for p in case['parts']:
                n = len(p['content_hex']) // 2
                m = case.get('maxram', 1000)
                ctx.count('kind:' + ('unnamed' if p.get('name') is None else 'file' if p.get('filename') is not None
                                     else 'field'))
                ctx.count('size:' + ('0' if n == 0 else '1' if n == 1 else 'thr-1' if n == m - 1 else 'thr' if n == m
                                     else 'thr+1' if n == m + 1 else '<thr' if n < m else '>=10thr' if n >= 10 * m
                                     else '>thr'))
                c = bytes.fromhex(p['content_hex'])
                if c[-1:] in (b'\r', b'\n'):
                    ctx.count('content:ends_CR_or_LF')
                if b'--' in c:
                    ctx.count('content:has_dashes')
                if len(c) > 65536:
                    ctx.count('content:line>64KiB')
        fails = oracle(case, obs)
        for what, sig in fails:
            ctx.oracle_fail(case, what, sig)
        if stats and case.get('faults'):
            ctx.count('connection_faults_hit:%d' % min(obs.get('nfaults', 0), 3))
        if model is not None and obs.get('nfaults'):
            continue                # no such event in the parser model
        if model is not None:
            ctx.compared()
            m = parse_model(model[i], case)
            unknown_fail = [f for f in fails if ctx.match_known(f[1]) is None and f[1] != 'preamble_marker']
            if m.get('nested') is not None:
                # a part whose own Content-Type selects an inherited processor (F28): the model stops there;
                # compared: everything up to and including that part's header block, names, and the processor chosen
                k = m['nested']
                keys = ('hdrs', 'name', 'filename', 'ctype', 'charset', 'proc')
                got = obs['allparts'][:k + 1] if isinstance(obs['allparts'], list) else obs['allparts']
                if isinstance(got, list):
                    got = [{x: d.get(x) for x in keys} for d in got]
                    got[:k] = [dict(d) for d in got[:k]]
                want = [{x: d.get(x) for x in keys} for d in m['allparts']]
                if stats:
                    ctx.count('nested_part_processor:' + m['allparts'][k]['proc'])
                if got != want and not unknown_fail:
                    ctx.disagree(case, got, want, 'parts up to the one with an inherited processor')
                continue
            impl = {'status': obs['status'], 'params': obs['params'] if obs['status'] == 200 else None,
                    'parts': obs['parts'] if obs['status'] == 200 else None}
            mm = {'status': m['status'], 'params': m['params'], 'parts': m['parts']}
            if mm['status'] == 200 and case.get('subtype', 'form-data') != 'form-data':
                impl['parts'] = mm['parts'] = None
            if impl != mm and not unknown_fail:
                ctx.disagree(case, impl, mm, 'multipart parser and model differ (%s)'
                             % ('status' if impl['status'] != mm['status'] else 'parts'))
            elif obs['status'] == 200 and m['status'] == 200 and case.get('subtype', 'form-data') == 'form-data' \
                    and obs['order'] != [[k, len(v)] for k, v in m['groups']] and not unknown_fail:
                ctx.disagree(case, obs['order'], m['groups'], 'parameter dict: key order / number of values')
            elif obs['status'] == 200 and m['status'] == 200 and m.get('off') is not None \
                    and m['off'] != obs['off'] and not unknown_fail:
                ctx.disagree(case, obs['off'], m['off'], 'stream offset after the request')
            elif obs['status'] == 200 and m['status'] == 200 and obs.get('storage') is not None \
                    and case.get('subtype', 'form-data') == 'form-data' and obs['storage'] != m['storage'] \
                    and not unknown_fail:
                ctx.disagree(case, obs['storage'], m['storage'], 'memory/file representation of unnamed parts')
            elif obs['status'] == 200 and m['status'] == 200 and obs['allparts'] != m['allparts'] and not unknown_fail:
                a, b2 = obs['allparts'], m['allparts']
                j = next((x for x in range(min(len(a), len(b2))) if a[x] != b2[x]), None) \
                    if isinstance(a, list) else None
                what = 'number of parts' if j is None else 'part %d: %s' % (
                    j, ', '.join(x for x in a[j] if a[j].get(x) != b2[j].get(x)))
                ctx.disagree(case, a if j is None else a[j], b2 if j is None else b2[j],
                             'per-part view (header map, name, filename, charset, processor, storage): ' + what)


def corpus_cases():
    d = os.path.join(common.CORPUS, PROPERTY)
    out = []
    if os.path.isdir(d):
        for f in sorted(os.listdir(d)):
            if f.endswith('.json'):
                out.append(json.load(open(os.path.join(d, f))))
    return out


def _gen_batch(args):
    seed, n = args
    import random
    rng = random.Random(seed)
    return [gen_case(rng, big=(i % 25 == 24)) for i in range(n)] + gen_longline_cases(rng, 30)


def _worker(args):
    from .c05 import _WorkerCtx
    w = _WorkerCtx(DRIVER)
    check_cases(w, _gen_batch(args))
    return w.cases, w.hist, w.kept_fails(), w.disagreements[:20], w.ncompared, w.driver.lines


ANCHORED = ['process_multipart', 'process_multipart_form_data', '_old_process_multipart', 'Entity.__init__',
            'Entity.fullvalue', 'Entity.decode_entity', 'Entity.process', 'Entity.make_file', 'Part']


def run(ctx):
    from . import c05_cov
    c05_cov.start()
    try:
        _run(ctx)
        if not ctx.quick():
            import random
            rng = random.Random(ctx.seed)
            check_cases(ctx, [gen_case(rng, big=(i % 50 == 49)) for i in range(800)], compare=False, stats=False)
            check_units(ctx, [gen_unit(rng) for _ in range(1500)], compare=False, stats=False)
        from cherrypy import _cpreqbody
        ctx.extra['anchored_lines_not_executed'] = c05_cov.not_executed(_cpreqbody, ANCHORED)
    finally:
        c05_cov.stop()


def _run(ctx):
    for e in ctx.known:
        if e.get('witness'):
            check_cases(ctx, [e['witness']], stats=False)
    check_cases(ctx, corpus_cases(), stats=False)
    if ctx.quick():
        cases = [gen_case(ctx.rng, big=(i % 50 == 49)) for i in range(2000)]
        check_cases(ctx, cases)
        check_cases(ctx, gen_longline_cases(ctx.rng, 16))
        check_units(ctx, [gen_unit(ctx.rng) for _ in range(3000)])
    else:
        from .c05 import merge_worker
        nproc = 12
        seeds = [ctx.rng.randrange(1 << 30) for _ in range(nproc * 3)]
        if ctx.model(['42 5 8 N - -']) is None:
            raise common.HarnessError('driver unavailable in thorough tier')
        for res in common.parallel_map(_worker, [(s, 3000) for s in seeds], procs=nproc):
            merge_worker(ctx, res)
        small = list(enum_small())
        check_cases(ctx, small, stats=False)
        ctx.extra['exhaustive_small_scope'] = len(small)


def search(ctx, around=None):
    cases = []
    if around is not None and not around.get('kind'):
        for _ in range(2000):
            d = json.loads(json.dumps(around))
            d['bufsize'] = ctx.rng.choice([1, 2, 3, 7, 16, 64, 8192, 65536])
            d['frag'] = ctx.rng.choice([[], [0] * 2000, [ctx.rng.choice([0, 1, 3, 9]) for _ in range(100)]])
            d['maxram'] = ctx.rng.choice([0, 1, 10, 100, 1000])
            cases.append(d)
    cases += [gen_case(ctx.rng, big=(i % 50 == 49)) for i in range(8000)]
    check_cases(ctx, cases, compare=False, stats=False)
    if not ctx.oracle_failures:
        check_cases(ctx, list(enum_small()), compare=False, stats=False)


def replay(ctx, case):
    if case.get('kind'):
        print('case   :', json.dumps(case))
        print('impl   :', json.dumps(run_unit(case)))
        m = ctx.model([line_unit(case)])
        if m:
            print('model  :', json.dumps(parse_unit(case, m[0])))
        check_units(ctx, [case], stats=False)
        return
    obs = run_real(case)
    body = serialize(case)
    print('boundary:', repr(case['boundary']), 'bufsize:', case.get('bufsize'), 'maxram:', case.get('maxram'),
          'frag[:10]:', case.get('frag', [])[:10])
    print('body   :', repr(body[:600]))
    print('impl   :', json.dumps({k: obs[k] for k in ('status', 'params', 'parts', 'off', 'len')})[:1500])
    m = ctx.model([model_line(case)])
    if m:
        print('model  :', json.dumps(parse_model(m[0], case))[:1500])
    print('sent   :', json.dumps(expected(case))[:1500])
    check_cases(ctx, [case], stats=False)
