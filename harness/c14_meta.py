"""Declarations of the C14 check (theorem list, trusted base, texts)."""
THEOREMS = [
    'CpProofs.C14.C14_no_fixation',
    'CpProofs.C14.C14_unknown_id_replaced',
    'CpProofs.C14.C14_fresh_not_live',
    'CpProofs.C14.C14_regenerate_fresh',
    'CpProofs.C14.regen_total',
    'CpProofs.C14.request_frame',
    'CpProofs.C14.C14_persist_store',
    'CpProofs.C14.C14_load_live',
    'CpProofs.C14.C14_persist',
    'CpProofs.C14.C14_save_stores',
    'CpProofs.C14.C14_sweep_exact_ram',
    'CpProofs.C14.C14_sweep_exact_file',
    'CpProofs.C14.C14_boundary_tick',
    'CpProofs.C14.C14_torn_file',
]
TRUSTED_BASE = [
    'pickle is a parameter of the model: the torn-file theorem is relative to the contract "a proper prefix of a '
    'pickle raises only EOFError or UnpicklingError, the whole pickle loads back", measured on every run over every '
    'truncation offset of real session pickles (all protocols) and of the files the histories save',
    'os.urandom never repeats a 160-bit value (the id source is injective); collisions with live ids are injected '
    'deliberately to exercise the retry loop',
    'filelock.FileLock, the file system (open/unlink/listdir), http.cookies parsing of the request cookie',
]
ASSUMPTIONS = [
    'requests are sequential (locking is C13); the sweep runs between requests',
    'the clock is monotone; one tick = one minute, expiry arithmetic is exact on ticks',
]
LEVEL = 'proof'
TECHNIQUE = ''
LEVEL_TEXT = ''
LEVEL_NOTE = ''
RULE = ('random histories (<= 40 operations counting handler statements) over 1-4 clients x {RAM, file} x timeout '
        '{1,2,3} ticks: requests with no / own / stale / foreign / unknown / malformed (lock-file name, upper-cased, '
        'path alias, prefix, empty, directory-escaping) cookie whose handler reads, writes picklable values, deletes '
        'keys, clears, regenerates, deletes or expires the session; clock advances aimed at expiry-1/expiry/expiry+1; '
        'synchronous sweeps; file damage (truncation offset, zero length, garbage); scripted id-source collisions '
        'with live ids; plus every truncation offset of real saved files with the torn file between two expired '
        'sessions.  Non-trivial = at least two requests and at least one adopted id; distinct = distinct '
        '(backend, timeout, operation list, collision plan)')
