"""Declarations of the C14 check (theorem list, trusted base, texts)."""
THEOREMS = [
    'CpProofs.C14.C14_no_fixation',
    'CpProofs.C14.C14_unknown_id_replaced',
    'CpProofs.C14.C14_fresh_not_live',
    'CpProofs.C14.C14_regenerate_fresh',
    'CpProofs.C14.regen_total',
    'CpProofs.C14.request_frame',
    'CpProofs.C14.C14_persist_store',
    'CpProofs.C14.C14_load_live',
    'CpProofs.C14.C14_persist',
    'CpProofs.C14.C14_save_stores',
    'CpProofs.C14.C14_sweep_exact_ram',
    'CpProofs.C14.C14_sweep_exact_file',
    'CpProofs.C14.C14_boundary_tick',
    'CpProofs.C14.C14_torn_file',
    'CpProofs.C14.torn_prefix_benign',
    'CpProofs.C14.whole_file_loads',
    'CpProofs.C14.toyPickle_contract',
    'CpProofs.C14.C14_expired_dead',
    'CpProofs.C14.request_dead',
    'CpProofs.C14.C14_no_resurrection',
    'CpProofs.C14.C14_delete_dead',
    'CpProofs.C14.C14_delete_full_false_before_fix',
    'CpProofs.C14.C14_regenerate_dead',
    'CpProofs.C14.C14_damaged_full_holds',
    'CpProofs.C14.C14_damaged_partial',
    'CpProofs.C14.C14_except_clause_table',
    'CpProofs.C14.run_inv',
    'CpProofs.C14.C14_no_fixation_history',
    'CpProofs.C14.C14_load_live_any_handler',
    'CpProofs.C14.C14_persist_any_handler',
    'CpProofs.C14.futureNot_of_drawn',
    'CpProofs.C14.futureNot_of_stored',
    # second layer (C14Ext): presented cookie, response cookie, sliding expiry, dict interface, Monitor
    'CpProofs.C14.requestS_eq',
    'CpProofs.C14.C14_presented_last_wins',
    'CpProofs.C14.C14_presented_ignores_other_names',
    'CpProofs.C14.C14_no_fixation_pairs',
    'CpProofs.C14.C14_fresh_id_independent_of_cookie',
    'CpProofs.C14.C14_sliding_expiry',
    'CpProofs.C14.C14_untouched_not_saved',
    'CpProofs.C14.C14_regenerate_keeps_data',
    'CpProofs.C14.C14_expired_unswept',
    'CpProofs.C14.C14_expired_never_adopted_false',
    'CpProofs.C14.C14_expiry_inequalities',
    'CpProofs.C14.C14_boundary_file',
    'CpProofs.C14.C14_boundary_ram',
    'CpProofs.C14.C14_acc_loads_lazily',
    'CpProofs.C14.C14_cookie_lifetime',
    'CpProofs.C14.C14_cookie_session_cookie',
    'CpProofs.C14.C14_cookie_attributes',
    'CpProofs.C14.C14_expire_cookie',
    'CpProofs.C14.C14_expire_keeps_store',
    'CpProofs.C14.C14_regen_cookie',
    'CpProofs.C14.C14_cookie_defaults_table',
    'CpProofs.C14.C14_monitor_started',
    'CpProofs.C14.C14_monitor_once',
    'CpProofs.C14.C14_monitor_count',
    # overlapping requests, self-expiring store (C14Conc)
    'CpProofs.C14.C14_overlap_distinct',
    'CpProofs.C14.memRun_eq_run',
    'CpProofs.C14.memRun_outs',
    'CpProofs.C14.C14_mem_no_fixation_history',
    'CpProofs.C14.C14_mem_persist',
    'CpProofs.C14.C14_mem_expired_not_adopted',
]
TRUSTED_BASE = [
    'pickle is a parameter of the model: the torn-file theorem is relative to the contract "a proper prefix of a '
    'pickle raises only EOFError or UnpicklingError, the whole pickle loads back", measured on every run over every '
    'truncation offset of real session pickles (all protocols) and of the files the histories save',
    'os.urandom never repeats a 160-bit value (the id source is injective); collisions with live ids are injected '
    'deliberately to exercise the retry loop',
    'filelock.FileLock, the file system (open/unlink/listdir)',
    'http.cookies: what the value text of ONE cookie pair means (unquoting) is taken from the library; which of '
    'several pairs is presented is the model\'s presentedOf, compared with Session.originalid on every request',
    'MemcachedSession is driven over an in-memory stand-in for the memcache module (get/set/delete, values pickled, '
    'an entry is no longer returned once its absolute expiry time is reached): memcached itself is a parameter',
]
ASSUMPTIONS = [
    'requests are sequential, or two of them overlap on different sessions (same-session concurrency is C13); '
    'the sweep runs between requests',
    'the clock is monotone; one tick = one minute, expiry arithmetic is exact on ticks',
]
LEVEL = 'proof'
TECHNIQUE = ('Lean 4 proof: invariants over every store state and induction over the operation list (all histories, '
             'cookies, handler scripts, clock positions, three backends; the self-expiring store by refinement to the '
             'RAM store), pickle as a parameter with a measured contract; model tied to cherrypy.lib.sessions by a '
             'differential history run through in-process WSGI')
LEVEL_TEXT = ('Proved in Lean for every store state / history / cookie / handler script: the response id is the presented one '
              'only if the store held it, otherwise drawn from the id source and not live (no fixation; unknown ids are '
              'replaced given the client cannot guess a urandom value; with several session cookies in one header the last '
              'pair under the configured name is the presented one and other names never matter; the issued id does not '
              'depend on what was presented; two overlapping requests presenting the same unknown id get different ids); '
              'the regeneration loop ends for an injective source; '
              'a saved record survives every history of other traffic, sweeps and clock advances up to its expiry and is '
              'what the next request presenting the id reads (RAM: strictly before expiry; the two boundary inequalities '
              'are stated side by side); the expiry slides with every request that touches the session and a request that '
              'does not touch it stores nothing; regenerate() carries the data to the new id; once nothing returnable is '
              'stored under an id (expired, deleted, regenerated, torn) it stays so '
              'through every history and requests presenting it read nothing until one of them writes (every method of '
              'the dict interface included); an expired but unswept id is adopted with an empty session (never its data; '
              '"never adopted" is proved false for RAM/file and true for the self-expiring store); delete() and '
              'regenerate() leave nothing under the old id; both sweeps remove exactly the expired entries; the cleanup '
              'Monitor is started once per class with the first non-zero clean_freq; the response cookie carries the '
              'configured attributes with max-age/expires equal to the stored expiry, expire() dates it a year back and '
              'leaves the store alone; the memcached backend is the RAM store swept before every operation, so the '
              'history theorems hold for it; relative to '
              'the measured pickle contract every truncation of a saved file is an absent session, no request is answered '
              '500 and the sweep runs to the end.  Every other damaged file (garbage on which pickle.load raises any class, a pickle of '
              'another shape) is an absent session as well since the F14d repair a245f5d (C14_damaged_full_holds).  '
              'Partial: overlapping requests are a theorem about one overlap, not part of the history inductions; '
              'the statement about delete() is proved false for the code before fix 8042c0e and true after.')
LEVEL_NOTE = ('Trusted: Lean kernel (axioms propext, Classical.choice, Quot.sound only), the hand model '
              'lean/CpModel/SessionStore.lean as validated by the differential run (status, response id numbered by '
              'id-source draw, which cookie was presented, handler observations through the whole dict interface, len(), '
              'the response cookie\'s attributes, the Monitors started, and the complete store listing with expiry ticks '
              'after every operation), the harness.  pickle, os.urandom, filelock, the file system, http.cookies\' value '
              'syntax and memcached are parameters; locks and the Monitor thread are out of scope (C13, C20).')
RULE = ('random histories (<= 40 operations counting handler statements) over 1-4 clients x {RAM, file, memcached stand-in} '
        'x timeout {1,2,3,default 60} ticks x cookie configuration (name, path, path_header, domain, secure, httponly, '
        'persistent) x storage_class / deprecated storage_type spelling x clean_freq x debug x locking '
        '(implicit / early / explicit) x tools.encode on/off: requests with no / own / stale / foreign / unknown / malformed '
        '(lock-file name, upper-cased, path alias, trailing slash or dot, prefix, empty, directory-escaping) / quoted '
        'cookie or several pairs in one header (duplicates, decoy names, the default name next to a configured one, '
        'separator whitespace) whose handler reads (items / keys+getitem / values), writes picklable values, uses '
        'get / [] / in / setdefault / update / pop with and without default / del, clears, calls len(), regenerates (through the '
        'tool or directly), deletes or expires the session, raises, redirects, streams or returns an iterator; two overlapping '
        'requests (same unknown id, none, a live id on one side); clock advances aimed at expiry-1/expiry/expiry+1; '
        'sweeps through the callback the code registered with the (recorded) Monitor; file damage (truncation offset, zero '
        'length, garbage); scripted id-source collisions with live ids; plus every truncation offset of real saved files with '
        'the torn file between two expired sessions, targeted overlap scenarios, direct sequences of load() calls over the '
        'three classes for the Monitor logic, a metamorphic re-run with other unknown-cookie texts (issued ids must not '
        'change), plus a systematic small scope: every sequence of 3 (quick) / 4 (thorough) operations over a 10/11-symbol '
        'alphabet on the three backends.  Non-trivial = at least two requests and at least one adopted id; distinct = distinct '
        '(backend, timeout, operation list, collision plan, cookie configuration)')
