"""Declarations of the C14 check (theorem list, trusted base, texts)."""
THEOREMS = [
    'CpProofs.C14.C14_no_fixation',
    'CpProofs.C14.C14_unknown_id_replaced',
    'CpProofs.C14.C14_fresh_not_live',
    'CpProofs.C14.C14_regenerate_fresh',
    'CpProofs.C14.regen_total',
    'CpProofs.C14.request_frame',
    'CpProofs.C14.C14_persist_store',
    'CpProofs.C14.C14_load_live',
    'CpProofs.C14.C14_persist',
    'CpProofs.C14.C14_save_stores',
    'CpProofs.C14.C14_sweep_exact_ram',
    'CpProofs.C14.C14_sweep_exact_file',
    'CpProofs.C14.C14_boundary_tick',
    'CpProofs.C14.C14_torn_file',
    'CpProofs.C14.torn_prefix_benign',
    'CpProofs.C14.whole_file_loads',
    'CpProofs.C14.toyPickle_contract',
    'CpProofs.C14.C14_expired_dead',
    'CpProofs.C14.request_dead',
    'CpProofs.C14.C14_no_resurrection',
    'CpProofs.C14.C14_delete_dead',
    'CpProofs.C14.C14_delete_full_false_before_fix',
    'CpProofs.C14.C14_regenerate_dead',
    'CpProofs.C14.C14_damaged_full_false',
    'CpProofs.C14.C14_sweep_abort_witness',
    'CpProofs.C14.C14_damaged_partial',
    'CpProofs.C14.C14_except_clause_table',
    'CpProofs.C14.run_inv',
    'CpProofs.C14.C14_no_fixation_history',
    'CpProofs.C14.C14_load_live_any_handler',
    'CpProofs.C14.C14_persist_any_handler',
    'CpProofs.C14.futureNot_of_drawn',
    'CpProofs.C14.futureNot_of_stored',
    # second layer (C14Ext): presented cookie, response cookie, sliding expiry, dict interface, Monitor
    'CpProofs.C14.requestS_eq',
    'CpProofs.C14.C14_presented_last_wins',
    'CpProofs.C14.C14_presented_ignores_other_names',
    'CpProofs.C14.C14_no_fixation_pairs',
    'CpProofs.C14.C14_fresh_id_independent_of_cookie',
    'CpProofs.C14.C14_sliding_expiry',
    'CpProofs.C14.C14_untouched_not_saved',
    'CpProofs.C14.C14_regenerate_keeps_data',
    'CpProofs.C14.C14_expired_unswept',
    'CpProofs.C14.C14_expired_never_adopted_false',
    'CpProofs.C14.C14_expiry_inequalities',
    'CpProofs.C14.C14_boundary_file',
    'CpProofs.C14.C14_boundary_ram',
    'CpProofs.C14.C14_acc_loads_lazily',
    'CpProofs.C14.C14_cookie_lifetime',
    'CpProofs.C14.C14_cookie_session_cookie',
    'CpProofs.C14.C14_cookie_attributes',
    'CpProofs.C14.C14_expire_cookie',
    'CpProofs.C14.C14_expire_keeps_store',
    'CpProofs.C14.C14_regen_cookie',
    'CpProofs.C14.C14_cookie_defaults_table',
    'CpProofs.C14.C14_monitor_started',
    'CpProofs.C14.C14_monitor_once',
    'CpProofs.C14.C14_monitor_count',
    # overlapping requests, self-expiring store (C14Conc)
    'CpProofs.C14.C14_overlap_distinct',
    'CpProofs.C14.memRun_eq_run',
    'CpProofs.C14.memRun_outs',
    'CpProofs.C14.C14_mem_no_fixation_history',
    'CpProofs.C14.C14_mem_persist',
    'CpProofs.C14.C14_mem_expired_not_adopted',
]
TRUSTED_BASE = [
    'pickle is a parameter of the model: the torn-file theorem is relative to the contract "a proper prefix of a '
    'pickle raises only EOFError or UnpicklingError, the whole pickle loads back", measured on every run over every '
    'truncation offset of real session pickles (all protocols) and of the files the histories save',
    'os.urandom never repeats a 160-bit value (the id source is injective); collisions with live ids are injected '
    'deliberately to exercise the retry loop',
    'filelock.FileLock, the file system (open/unlink/listdir), http.cookies parsing of the request cookie',
]
ASSUMPTIONS = [
    'requests are sequential (locking is C13); the sweep runs between requests',
    'the clock is monotone; one tick = one minute, expiry arithmetic is exact on ticks',
]
LEVEL = 'proof'
TECHNIQUE = ('Lean 4 proof: invariants over every store state and induction over the operation list (all histories, '
             'cookies, handler scripts, clock positions, both backends), pickle as a parameter with a measured '
             'contract; model tied to cherrypy.lib.sessions by a differential history run through in-process WSGI')
LEVEL_TEXT = ('Proved in Lean for every store state / history / cookie / handler script: the response id is the presented one '
              'only if the store held it, otherwise drawn from the id source and not live (no fixation; unknown ids are '
              'replaced given the client cannot guess a urandom value); the regeneration loop ends for an injective source; '
              'a saved record survives every history of other traffic, sweeps and clock advances up to its expiry and is '
              'what the next request presenting the id reads (RAM: strictly before expiry, the one-tick boundary is a '
              'lemma); once nothing returnable is stored under an id (expired, deleted, regenerated, torn) it stays so '
              'through every history and requests presenting it read nothing until one of them writes; delete() and '
              'regenerate() leave nothing under the old id; both sweeps remove exactly the expired entries; relative to '
              'the measured pickle contract every truncation of a saved file is an absent session, no request is answered '
              '500 and the sweep runs to the end.  Partial: for damaged files that are not truncations the statement is '
              'proved false (F14d: other exception classes propagate) and proved under the hypothesis that excludes them; '
              'the statement about delete() is proved false for the code before fix 8042c0e and true after.')
LEVEL_NOTE = ('Trusted: Lean kernel (axioms propext, Classical.choice, Quot.sound only), the hand model '
              'lean/CpModel/SessionStore.lean as validated by the differential run (status, response id numbered by '
              'id-source draw, handler reads, cookie expiry flag and the complete store listing with expiry ticks after '
              'every operation), the harness.  pickle, os.urandom, filelock and the file system are parameters; locks and '
              'the Monitor thread are out of scope (C13, C20).')
RULE = ('random histories (<= 40 operations counting handler statements) over 1-4 clients x {RAM, file} x timeout '
        '{1,2,3} ticks: requests with no / own / stale / foreign / unknown / malformed (lock-file name, upper-cased, '
        'path alias, prefix, empty, directory-escaping) cookie whose handler reads, writes picklable values, deletes '
        'keys, clears, regenerates, deletes or expires the session (some responses streamed, so that save runs at on_end_request); clock advances aimed at expiry-1/expiry/expiry+1; '
        'synchronous sweeps; file damage (truncation offset, zero length, garbage); scripted id-source collisions '
        'with live ids; plus every truncation offset of real saved files with the torn file between two expired '
        'sessions, plus a systematic small scope: every sequence of 3 (quick) / 4 (thorough) operations over a 10/11-symbol '
        'alphabet on both backends.  Non-trivial = at least two requests and at least one adopted id; distinct = distinct '
        '(backend, timeout, operation list, collision plan)')
