"""C18 - process bus: every listener runs, in order; state follows the lifecycle.

Model: lean/CpModel/Bus.lean, theorems: lean/CpProofs/C18.lean + C18X.lean, driver: lean/Drv/C18.lean,
tables regenerated from the live module: lean/CpModel/Gen/C18Tables.lean.
Real code: a fresh (trivial subclass of) `cherrypy.process.wspbus.Bus` per case with probe listeners;
`os._exit`, `os.execv`, `atexit.register`, `time.sleep`, `threading.Thread` are intercepted through the
module globals the code looks them up in.
"""
import hashlib
import itertools
import json
import os
import signal
import sys
import warnings

from . import common

PROPERTY = 'C18'
LEAN_TARGETS = ['CpProofs.C18', 'CpProofs.C18X', 'drv_c18']
DRIVER = 'drv_c18'
THEOREMS = [
    'CpProofs.C18.sortByPrio_perm',
    'CpProofs.C18.sortByPrio_sorted',
    'CpProofs.C18.sortByPrio_stable',
    'CpProofs.C18.publish_all_run_in_order',
    'CpProofs.C18.publish_result',
    'CpProofs.C18.publish_state_unchanged',
    'CpProofs.C18.start_listeners_see_STARTING',
    'CpProofs.C18.stop_listeners_see_STOPPING',
    'CpProofs.C18.exit_listeners_see_EXITING',
    'CpProofs.C18.exit_runs_stop_first',
    'CpProofs.C18.final_state_of_returning_calls',
    'CpProofs.C18.start_failure_shuts_down',
    'CpProofs.C18.exit_failure_nonzero',
    'CpProofs.C18.sysexit_code_fixup',
    'CpProofs.C18.publish_state_stable_general',
    'CpProofs.C18.stop_general',
    'CpProofs.C18.final_state_full_false',
    'CpProofs.C18.all_run_with_failing_log_false',
]
X_THEOREMS = [
    'publishX_frame', 'callX_frame', 'publishX_snapshot', 'publishX_pres', 'publishX_nc',
    'lifecycle_trace_nocalls', 'paths_follow_documented_graph', 'publishX_all_run_reentrant',
    'final_state_reentrant_calls', 'unsubscribed_during_publish_still_runs', 'subscribed_during_publish_waits',
    'reprioritised_during_publish_keeps_order', 'start_listeners_see_STARTING_reentrant_false',
    'exit_returns_not_EXITING', 'effPrio_spec', 'cleanExit_spec', 'waitW_returns_in_target',
    'gen_states', 'gen_builtin_channels', 'gen_default_priority', 'gen_exit_code', 'gen_transitions_match',
    'gen_priority_rows', 'conservative', 'exitX_stop_before_exit',
]
THEOREMS += ['CpProofs.C18X.' + t for t in X_THEOREMS]
TRUSTED_BASE = [
    'os._exit / os.execv / atexit / time.sleep / threading.Thread are outcomes or inputs of the model, not executed',
    'Python set iteration order inside a priority tie is arbitrary: journals are compared modulo '
    'order inside a tie group',
]
ASSUMPTIONS = [
    'listeners are finite scripts: (un)subscribe / publish / start / stop / exit / restart / graceful re-entrantly, '
    'then return, raise Exception, SystemExit(code) or KeyboardInterrupt',
    'wait / block / start_with_callback are modelled single-threaded (the state changes only through listeners of '
    'the polled channel); the multi-threaded line-granular view of block() is C20',
]
LEVEL = 'proof'
TECHNIQUE = ('Lean 4 proof: refinement of Bus.publish/start/stop/exit to a declarative loop spec and frame / snapshot / '
             'invariant inductions over fuel, listener list and script for re-entrant listeners; model tied to '
             'wspbus.Bus by a differential journal comparison and by tables regenerated from the live module')
LEVEL_TEXT = ('Proved in Lean for every listener list and failure pattern. Non-re-entrant listeners, non-raising log '
              'listeners: publish invokes a stable-sorted permutation of the subscribers exactly once and reports exactly '
              'the raisers; start/stop/exit journal their listeners in STARTING/STOPPING/EXITING, exit runs stop first, '
              'returning calls end in the documented state, a failed start shuts down, a failure while exiting is '
              'os._exit(70), SystemExit(0) after failures becomes 1. Re-entrant listeners (subscribe / unsubscribe / publish '
              '/ start / stop / exit / restart / graceful from inside a listener, any depth): nested publishes are well '
              'bracketed (publishX_frame); what a publish invokes itself is a prefix of the priority-sorted snapshot taken '
              'at its entry, the whole snapshot when it returns (publishX_snapshot) and, with never-raising log listeners '
              '(an invariant, publishX_pres), also when it raises ChannelFailures (publishX_all_run_reentrant); without '
              'lifecycle calls from listeners publish never touches state/execv/atexit (publishX_nc) and every lifecycle '
              'call follows a path of documented edges and ends in its last state, F19/F22 included '
              '(lifecycle_trace_nocalls); with lifecycle calls start->STARTED and stop->STOPPED still hold '
              '(final_state_reentrant_calls) while the claims that fail are proved false with witnesses replayed on the '
              'real Bus (F19, F22, start_listeners_see_STARTING_reentrant_false, exit_returns_not_EXITING). The 25 '
              'transitions of the listener-free bus, the priority routes, the built-in channels, the states and the exit '
              'code are tables measured on the live module with a theorem each. Correspondence only: wait / block / '
              'start_with_callback / atexit / _do_execv outcomes, ChannelFailures and log(traceback) as data, exact '
              'ChannelFailures contents for re-entrant listeners.')
LEVEL_NOTE = ('Trusted: Lean kernel (axioms propext, Classical.choice, Quot.sound only), the hand model '
              'lean/CpModel/Bus.lean as validated by the differential run against a fresh wspbus.Bus per case, the '
              'harness. os._exit/os.execv/atexit/time.sleep/threads are outcomes or inputs of the model; set iteration '
              'order inside a priority tie is arbitrary in the code, journals are compared modulo tie order; log '
              'message texts are never compared.')
RULE = ('random call sequences (<=6 calls after 0-4 subscriptions per channel over start/stop/exit/graceful/'
        'main/log/c1/c2; calls: start/stop/exit/restart/graceful/publish/subscribe (priority by argument, by '
        'attribute, by default, decorator form, re-subscription)/unsubscribe (also of unknown listeners)/atexit/'
        'wait/block/start_with_callback) with failing / exiting / re-entrant listeners (subscribe, unsubscribe, '
        'publish, lifecycle calls from inside a listener), plus an exhaustive enumeration of small listener sets x '
        'short call sequences (a slice in the quick tier, all of it in the thorough tier); a case is non-trivial when '
        'at least one listener was invoked; distinct = distinct call-token line')

CHANNELS = ['start', 'stop', 'exit', 'graceful', 'main', 'log', 'c1', 'c2']
# a listener on channel A may trigger (publish / lifecycle call) only channels of a strictly lower level:
# every generated script terminates
LEVELS = {'main': 7, 'graceful': 6, 'start': 5, 'stop': 4, 'exit': 3, 'c1': 2, 'c2': 1}
METH_TOP = {'start': 5, 'stop': 4, 'exit': 4, 'restart': 4, 'graceful': 6}
METHODS = ['start', 'stop', 'exit', 'restart', 'graceful']
OUTS = ['ok', 'raise', 'exit0', 'exit1', 'exit3', 'kbd']
STATE_NAMES = ('STOPPED', 'STARTING', 'STARTED', 'STOPPING', 'EXITING')
TICKCAP = 4              # = CpModel.Bus.tickCap
DEPTHCAP = 40
CASE_TIMEOUT = 10.0      # seconds; a case that takes longer is reported as a hang of the code under test


# ----------------------------------------------------------------------------------------------
# real-code runner
# ----------------------------------------------------------------------------------------------
class _Control(BaseException):
    """Base of the harness's own control-flow exceptions (never caught by the code under test)."""


class _ProcExit(_Control):
    def __init__(self, code):
        self.code = code


class _Execv(_Control):
    pass


class _Hang(_Control):
    pass


class _Deep(_Control):
    pass


class _Timeout(_Control):
    pass


class _FakeAtexit:
    def __init__(self):
        self.handlers = []

    def register(self, fn, *a, **k):
        self.handlers.append((fn, a, k))
        return fn

    def unregister(self, fn):
        self.handlers = [h for h in self.handlers if h[0] != fn]


class _OsShim:
    """`wspbus.os` with `_exit` / `execv` turned into observable outcomes."""

    def __init__(self, real):
        self._real = real
        self.environ = dict(real.environ)
        self.chdirs = 0

    def __getattr__(self, name):
        return getattr(self._real, name)

    @staticmethod
    def _exit(code):
        raise _ProcExit(code)

    @staticmethod
    def execv(path, args):
        raise _Execv()

    execve = execv

    def chdir(self, path):
        self.chdirs += 1


class _TimeShim:
    """`wspbus.time`: sleeping takes no time; the n-th sleep of a call ends as the plan says."""

    def __init__(self, real):
        self._real = real
        self.n = 0
        self.plan = []

    def __getattr__(self, name):
        return getattr(self._real, name)

    def reset(self, plan=()):
        self.n = 0
        self.plan = list(plan)

    def sleep(self, interval=0):
        self.n += 1
        if self.n > TICKCAP:
            raise _Hang()
        how = self.plan[self.n - 1] if self.n - 1 < len(self.plan) else 'o'
        if how == 'k':
            raise KeyboardInterrupt()
        if how == 'i':
            raise IOError(4, 'Interrupted function call')
        if how.startswith('x'):
            raise SystemExit(int(how[1:]))


class _FakeThread:
    made = None

    def __init__(self, group=None, target=None, name=None, args=(), kwargs=None, daemon=None):
        self.target, self.args, self.kwargs = target, tuple(args), dict(kwargs or {})
        self.name = name or 'Thread-1'
        self.daemon = bool(daemon)
        self.started = False
        _FakeThread.made.append(self)

    def start(self):
        self.started = True

    def join(self, timeout=None):
        return None

    def is_alive(self):
        return False

    isAlive = is_alive

    def isDaemon(self):
        return self.daemon

    def getName(self):
        return self.name

    ident = None


class _ThreadingShim:
    def __init__(self, real):
        self._real = real
        self.Thread = _FakeThread

    def __getattr__(self, name):
        return getattr(self._real, name)

    def enumerate(self):
        # what block() must skip (the main thread, daemons) and what it must join (a worker)
        d = _FakeThread(name='daemon-worker', daemon=True)
        n = _FakeThread(name='worker', daemon=False)
        _FakeThread.made[:] = [t for t in _FakeThread.made if t is not d and t is not n]
        return [self._real.main_thread(), d, n]


class _SysShim:
    def __init__(self, real, platform):
        self._real = real
        self.platform = platform

    def __getattr__(self, name):
        return getattr(self._real, name)


def parse_sub(f):
    """fields of a `sub` token -> (ch, lid, arg, attr, deco, out, acts)."""
    if len(f) == 6:
        return f[1], int(f[2]), int(f[3]), None, False, f[4], ([] if f[5] == '-' else f[5].split('+'))
    arg, deco = f[3], False
    if arg.startswith('d'):
        arg, deco = arg[1:], True
    return (f[1], int(f[2]), None if arg == 'n' else int(arg), None if f[4] == 'n' else int(f[4]), deco,
            f[5], ([] if f[6] == '-' else f[6].split('+')))


def eff_prio(arg, attr):
    """The priority a listener is subscribed with, as documented: argument, else attribute, else 50."""
    return arg if arg is not None else (attr if attr is not None else 50)


def variant(tokens):
    return int(hashlib.sha1(' '.join(tokens).encode()).hexdigest()[:4], 16)


def run_real(tokens, cov=None):
    """Execute one case on the real Bus.  Returns the observation dict."""
    import os as _os
    import time as _time
    import threading as _threading
    try:
        from cherrypy.process import wspbus
    except Exception as e:      # the code under test does not even import
        return _broken('import', e)
    var = variant(tokens)
    saved = {k: getattr(wspbus, k, None) for k in ('os', 'atexit', 'time', 'threading', 'sys')}
    fake_atexit = _FakeAtexit()
    tshim = _TimeShim(_time)
    wspbus.os = _OsShim(_os)
    wspbus.atexit = fake_atexit
    wspbus.time = tshim
    wspbus.threading = _ThreadingShim(_threading)
    if var % 5 == 0:
        wspbus.sys = _SysShim(sys, 'win32')
    _FakeThread.made = []
    old_alarm = None
    if hasattr(signal, 'setitimer'):
        def on_alarm(signum, frame):
            raise _Timeout()
        try:
            old_alarm = signal.signal(signal.SIGALRM, on_alarm)
            signal.setitimer(signal.ITIMER_REAL, CASE_TIMEOUT)
        except ValueError:      # not in the main thread
            old_alarm = None
    if cov is not None:
        cov.start(wspbus)
    try:
        return _run_case(tokens, wspbus, fake_atexit, tshim, var)
    except _Timeout:
        return _broken('timeout', None)
    finally:
        if cov is not None:
            cov.stop()
        if old_alarm is not None:
            signal.setitimer(signal.ITIMER_REAL, 0)
            signal.signal(signal.SIGALRM, old_alarm)
        for k, v in saved.items():
            if v is not None:
                setattr(wspbus, k, v)


def _broken(what, e):
    r = 'timeout' if what == 'timeout' else 'exc:%s' % type(e).__name__
    return {'results': [[r]], 'journal': [], 'state': '?', 'execv': 0, 'pubs': [], 'states_after': ['?'],
            'trace': [], 'warns': 0, 'lc': [False], 'broken': what}


def _run_case(tokens, wspbus, fake_atexit, tshim, var):
    names = {}
    for n in STATE_NAMES:
        s = getattr(wspbus.states, n, None)
        if s is not None:
            names[id(s)] = n
    journal = []          # (ch, id, state, prio at publish entry, depth)
    pubs = []             # publish records, for the oracle
    stack = []
    probes = {}
    shadow = {}           # channel -> {probe: priority}: who is subscribed according to the API calls made
    trace = []
    cur = {'call': None, 'lc': False}
    box = {}
    intent = {}           # (channel, probe) -> priority the next subscribe call of the harness asks for

    def state_name():
        st = box['bus'].state
        return names.get(id(st), repr(st))

    class Probe:
        def __init__(self, ch, lid, out, acts):
            self.ch, self.lid, self.out, self.acts = ch, lid, out, acts

        def __repr__(self):
            return '<probe %s.%d>' % (self.ch, self.lid)

        def __call__(self, *a, **k):
            bus = box['bus']
            me = stack[-1] if stack else None
            prio = me['entry'].get(self.lid, (None,))[0] if me is not None and me['ch'] == self.ch else None
            if prio is None:
                prio = shadow.get(self.ch, {}).get(self, -1)
            journal.append((self.ch, self.lid, state_name(), prio, len(stack)))
            if me is not None:
                me['invoked'].append(self.lid)
            try:
                for act in self.acts:
                    f = act.split('~')
                    if f[0] == 's':
                        p = get_probe(f[1], int(f[2]), f[4], [])
                        intent[(f[1], p)] = int(f[3])
                        bus.subscribe(f[1], p, priority=int(f[3]))
                    elif f[0] == 'u':
                        bus.unsubscribe(f[1], get_probe(f[1], int(f[2]), 'ok', []))
                    elif f[0] == 'p':
                        bus.publish(f[1])
                    elif f[0] == 'c':
                        cur['lc'] = True
                        getattr(bus, f[1])()
            except wspbus.ChannelFailures:
                if me is not None:
                    me['raised'].append(self.lid)
                raise
            if self.out == 'raise':
                if me is not None:
                    me['raised'].append(self.lid)
                raise ValueError('probe %d' % self.lid)
            if self.out == 'kbd':
                raise KeyboardInterrupt()
            if self.out.startswith('exit'):
                raise SystemExit(int(self.out[4:]))
            return self.lid

    def get_probe(ch, lid, out, acts):
        key = (ch, lid)
        if key not in probes:
            probes[key] = Probe(ch, lid, out, acts)
        return probes[key]

    def classify(e):
        if isinstance(e, wspbus.ChannelFailures):
            try:
                n = len(e.get_instances())
            except Exception:
                n = -1
            return ('fail', n)
        if isinstance(e, SystemExit):
            return 'sysexit%s' % (e.code,)
        if isinstance(e, KeyboardInterrupt):
            return 'kbd'
        if isinstance(e, _ProcExit):
            return 'procexit%s' % (e.code,)
        if isinstance(e, _Execv):
            return 'execv'
        if isinstance(e, _Hang):
            return 'hang'
        if isinstance(e, (_Deep, RecursionError)):
            return 'deep'
        if isinstance(e, _Timeout):
            raise e
        if isinstance(e, IOError) and e.args[:1] == (4,):
            return 'ioerr'
        return 'exc:%s' % type(e).__name__

    class TBus(wspbus.Bus):
        def __setattr__(self, key, value):
            if key == 'state' and 'bus' in box:
                trace.append(names.get(id(value), repr(value)))
            object.__setattr__(self, key, value)

        def log(self, *a, **k):
            box['via_log'] = True       # the next publish('log') is the bus's own, not the application's
            try:
                return wspbus.Bus.log(self, *a, **k)
            finally:
                box.pop('via_log', None)

        def subscribe(self, *a, **k):
            r = wspbus.Bus.subscribe(self, *a, **k)
            channel = a[0] if a else k.get('channel')
            callback = a[1] if len(a) > 1 else k.get('callback')
            priority = a[2] if len(a) > 2 else k.get('priority')
            if callback is not None and isinstance(callback, Probe):
                d = shadow.setdefault(channel, {})
                new = callback not in d
                # the priority the APPLICATION asked for (documented precedence: argument, else the callable's
                # `priority` attribute, else 50) -- recorded at the call site, not what the bus passes on internally
                want = intent.pop((channel, callback), None)
                d[callback] = want if want is not None else eff_prio(priority, getattr(callback, 'priority', None))
                for rec in stack:
                    if rec['ch'] == channel:
                        rec['added' if new else 'reprio'].add(callback.lid)
            return r

        def unsubscribe(self, *a, **k):
            r = wspbus.Bus.unsubscribe(self, *a, **k)
            channel = a[0] if a else k.get('channel')
            callback = a[1] if len(a) > 1 else k.get('callback')
            if isinstance(callback, Probe) and callback in shadow.get(channel, {}):
                del shadow[channel][callback]
                for rec in stack:
                    if rec['ch'] == channel:
                        rec['removed'].add(callback.lid)
            return r

        def publish(self, channel, *a, **k):
            if len(stack) >= DEPTHCAP:
                raise _Deep()
            rec = {'id': len(pubs), 'parent': stack[-1]['id'] if stack else None,
                   'via_log': channel == 'log' and bool(box.pop('via_log', False)),
                   'ch': channel, 'state': state_name(), 'depth': len(stack),
                   'entry': {p.lid: (pr, p.out, bool(p.acts)) for p, pr in shadow.get(channel, {}).items()},
                   'invoked': [], 'raised': [], 'added': set(), 'removed': set(), 'reprio': set(),
                   'result': None, 'call': cur['call'], 'lc': cur['lc']}
            pubs.append(rec)
            stack.append(rec)
            try:
                r = wspbus.Bus.publish(self, channel, *a, **k)
                rec['result'] = 'ret'
                return r
            except BaseException as e:
                c = classify(e)
                if isinstance(c, tuple):
                    rec['result'], rec['nfail'] = 'fail', c[1]
                else:
                    rec['result'] = 'procexit' if c.startswith('procexit') else c
                raise
            finally:
                rec['lc_end'] = cur['lc']
                stack.pop()

    try:
        bus = TBus()
    except Exception as e:
        return _broken('construct', e)
    box['bus'] = bus
    bus.max_cloexec_files = 0 if var % 2 else 7
    bus._set_cloexec = lambda: None
    if var % 3 == 0:
        def no_true_argv():
            raise NotImplementedError
        bus._get_true_argv = no_true_argv

    def outcome(fn):
        try:
            fn()
            return 'ret'
        except BaseException as e:
            return classify(e)

    results, states_after, lcs = [], [], []
    warns = [0]
    for ci, tok in enumerate(tokens):
        cur['call'], cur['lc'] = ci, False
        tshim.reset()
        f = tok.split(':')
        if f[0] == 'sub':
            ch, lid, arg, attr, deco, out, acts = parse_sub(f)
            p = get_probe(ch, lid, out, acts)
            if attr is None:
                if hasattr(p, 'priority'):
                    del p.priority
            else:
                p.priority = attr
            intent[(ch, p)] = eff_prio(arg, attr)
            if deco:
                rs = [outcome(lambda: (bus.subscribe(ch, priority=arg) if arg is not None
                                       else bus.subscribe(ch))(p))]
            elif arg is None:
                rs = [outcome(lambda: bus.subscribe(ch, p))]
            elif lid % 2:
                rs = [outcome(lambda: bus.subscribe(ch, p, arg))]
            else:
                rs = [outcome(lambda: bus.subscribe(ch, p, priority=arg))]
        elif f[0] == 'unsub':
            rs = [outcome(lambda: bus.unsubscribe(f[1], get_probe(f[1], int(f[2]), 'ok', [])))]
        elif f[0] == 'pub':
            rs = [outcome(lambda: bus.publish(f[1]))]
        elif f[0] == 'atexit':
            rs = []
            with warnings.catch_warnings(record=True) as wlist:
                warnings.simplefilter('always')
                todo = []
                for h in reversed(list(fake_atexit.handlers)):
                    if h not in todo:       # start() registers the same bound method every time: run it once
                        todo.append(h)
                for fn, a, k in todo:
                    r = outcome(lambda: fn(*a, **k))
                    rs.append(r)
                    if isinstance(r, str) and (r.startswith('procexit') or r in ('execv', 'hang', 'deep')):
                        break
            warns[0] += sum(1 for w in wlist if issubclass(w.category, RuntimeWarning))
        elif f[0] == 'wait':
            targets = [getattr(wspbus.states, n) for n in f[1].split('+')]
            target = targets[0] if len(targets) == 1 else (tuple(targets) if var % 2 else list(targets))
            chan = None if f[2] == 'none' else f[2]
            tshim.reset([] if f[3] == '-' else f[3].split('.'))
            rs = [outcome(lambda: bus.wait(target, interval=0.01, channel=chan))]
        elif f[0] == 'block':
            tshim.reset([] if f[1] == '-' else f[1].split('.'))
            rs = [outcome(lambda: bus.block(interval=0.01))]
        elif f[0] == 'swc':
            called = []
            _FakeThread.made[:] = []
            if var % 2:
                want = [((1,), {'x': 2})]
                r1 = outcome(lambda: bus.start_with_callback(lambda *a, **k: called.append((a, k)),
                                                             args=(1,), kwargs={'x': 2}))
            else:
                want = [((), {})]
                r1 = outcome(lambda: bus.start_with_callback(lambda *a, **k: called.append((a, k))))
            rs = [r1]
            if not (isinstance(r1, str) and (r1.startswith('procexit') or r1 in ('execv', 'hang', 'deep'))):
                tshim.reset()
                r2 = 'ret'
                for t in list(_FakeThread.made):
                    if t.started and t.target is not None:
                        r2 = outcome(lambda: t.target(*t.args, **t.kwargs))
                if r2 == 'ret' and called != want:
                    r2 = 'callback-not-called' if not called else 'callback-wrong-args'
                rs.append(r2)
        elif f[0] in METHODS:
            rs = [outcome(getattr(bus, f[0]))]
        else:
            raise common.HarnessError('unknown token %r' % tok)
        results.append(rs)
        states_after.append(state_name())
        lcs.append(cur['lc'])
        if any(isinstance(r, str) and (r.startswith('procexit') or r in ('execv', 'hang', 'deep')) for r in rs):
            break
    return {'results': results, 'journal': journal, 'state': state_name(),
            'execv': 1 if bus.execv else 0, 'pubs': pubs, 'states_after': states_after,
            'trace': trace, 'warns': warns[0], 'lc': lcs, 'atexit': len(fake_atexit.handlers)}


# ----------------------------------------------------------------------------------------------
# line coverage of the anchored functions during the correspondence stream
# ----------------------------------------------------------------------------------------------
ANCHORED = ['Bus.publish', 'Bus.subscribe', 'Bus.unsubscribe', 'Bus.start', 'Bus.stop', 'Bus.exit', 'Bus.restart',
            'Bus.graceful', 'Bus.log', 'Bus._do_execv', 'Bus._clean_exit', 'Bus.wait', 'Bus.block',
            'Bus.start_with_callback', 'ChannelFailures.__init__', 'ChannelFailures.handle_exception',
            'ChannelFailures.get_instances', 'ChannelFailures.__bool__']


class Coverage:
    TOOL = 3

    def __init__(self):
        self.codes = {}
        self.hit = set()
        self.ok = hasattr(sys, 'monitoring')
        self.active = False

    def _codes(self, wspbus):
        if self.codes:
            return
        for qn in ANCHORED:
            obj = wspbus
            try:
                for part in qn.split('.'):
                    obj = vars(obj)[part] if isinstance(obj, type) else getattr(obj, part)
                fn = getattr(obj, '__func__', obj)
                self.codes[fn.__code__] = qn
                for c in fn.__code__.co_consts:      # nested functions (start_with_callback._callback)
                    if hasattr(c, 'co_code'):
                        self.codes[c] = qn + '.' + c.co_name
            except (AttributeError, KeyError):
                continue

    def start(self, wspbus):
        if not self.ok:
            return
        self._codes(wspbus)
        mon = sys.monitoring
        try:
            mon.use_tool_id(self.TOOL, 'c18cov')
        except ValueError:
            self.ok = False
            return
        self.active = True

        def on_line(code, line):
            self.hit.add((code, line))
            return mon.DISABLE
        mon.register_callback(self.TOOL, mon.events.LINE, on_line)
        for c in self.codes:
            mon.set_local_events(self.TOOL, c, mon.events.LINE)

    def stop(self):
        if not self.active:
            return
        mon = sys.monitoring
        for c in self.codes:
            mon.set_local_events(self.TOOL, c, 0)
        mon.register_callback(self.TOOL, mon.events.LINE, None)
        mon.free_tool_id(self.TOOL)
        self.active = False

    def missing(self):
        import linecache
        out = []
        for c, qn in self.codes.items():
            lines = sorted({l for _, _, l in c.co_lines() if l is not None and l != c.co_firstlineno})
            for l in lines:
                if (c, l) not in self.hit:
                    src = linecache.getline(c.co_filename, l).strip()
                    if src.startswith(('"""', "'''")) or not src:
                        continue
                    out.append('%s:%d: %s' % (qn, l, src[:70]))
        return out


# ----------------------------------------------------------------------------------------------
# canonical form shared by both sides
# ----------------------------------------------------------------------------------------------
def canon_journal(entries):
    """Drop log-channel invocations; sort maximal runs of equal (channel, state, prio, depth) by id."""
    es = [e for e in entries if e[0] != 'log']
    out, i = [], 0
    while i < len(es):
        j = i
        while j < len(es) and (es[j][0], es[j][2], es[j][3], es[j][4]) == (es[i][0], es[i][2], es[i][3], es[i][4]):
            j += 1
        out += sorted(es[i:j], key=lambda e: e[1])
        i = j
    return ['%s.%d.%s.%d.%d' % (e[0], e[1], e[2], e[3], e[4]) for e in out]


def dedup(xs):
    out = []
    for x in xs:
        if not out or out[-1] != x:
            out.append(x)
    return out


def canon_results(tokens, per_call):
    out = []
    for ci, rs in enumerate(per_call):
        rs = ['fail%d' % r[1] if isinstance(r, tuple) else r for r in rs]
        if tokens[ci] == 'atexit':
            # how many handlers are registered is not an observable of the property: keep what they did
            rs = [r for r in rs if r != 'ret'] or ['ret']
        out.append(';'.join(rs))
    return out


def canon_real(tokens, obs):
    return {'R': canon_results(tokens, obs['results']), 'J': canon_journal(obs['journal']), 'S': obs['state'],
            'X': obs['execv'], 'T': dedup(obs['trace']), 'W': 1 if obs['warns'] else 0}


def canon_model(tokens, line):
    parts = dict(p.split('=', 1) for p in line.split(' '))
    per_call = []
    for call in ([] if parts['R'] == '-' else parts['R'].split(',')):
        rs = []
        for r in call.split(';'):
            if not r:
                continue
            if r.startswith('fail['):
                rs.append(('fail', len([x for x in r[5:-1].split('/') if x])))
            else:
                rs.append(r)
        per_call.append(rs)
    js = []
    for e in ([] if parts['J'] == '-' else parts['J'].split(',')):
        ch, lid, st, prio, depth = e.split('.')
        js.append((ch, int(lid), st, int(prio), int(depth)))
    return {'R': canon_results(tokens, per_call), 'J': canon_journal(js), 'S': parts['S'], 'X': int(parts['X']),
            'T': dedup([] if parts['T'] == '-' else parts['T'].split(',')), 'W': 1 if int(parts['W']) else 0,
            'O': parts['O']}


# ----------------------------------------------------------------------------------------------
# oracle: the property statement evaluated on what the real bus did
# ----------------------------------------------------------------------------------------------
OWN = {'start': ('start', 'STARTING'), 'stop': ('stop', 'STOPPING'), 'exit': ('exit', 'EXITING')}


def oracle(tokens, obs):
    """Return a list of (what, signature) failures of the property on this observation."""
    bad = []
    # F22 exactly as narrow as the finding: `Bus.log()` called BY THE BUS (from publish()'s except-branch of another
    # channel, or from a lifecycle method) raised ChannelFailures because a log listener raised.  A publish('log')
    # made by the application is an ordinary publish: all clauses apply to it.
    buslog_failed = [p for p in obs['pubs'] if p['ch'] == 'log' and p.get('via_log') and p['result'] == 'fail']
    f22_parents = {p['parent'] for p in buslog_failed if p['parent'] is not None}
    f22_calls = {p['call'] for p in buslog_failed}
    cur_sig = {'f22': False}

    def sig(s):
        return 'F22:failing_log_listener' if cur_sig['f22'] else s

    # anything but the documented exceptions leaving a bus call, or a call that does not come back
    for ci, rs in enumerate(obs['results']):
        for r in rs:
            if isinstance(r, str) and (r.startswith('exc:') or r in ('timeout', 'callback-wrong-args')):
                m = tokens[ci].split(':')[0] if ci < len(tokens) else '?'
                bad.append(('%s ended with %s instead of returning / ChannelFailures / SystemExit / '
                            'KeyboardInterrupt' % (tokens[ci] if ci < len(tokens) else '?', r),
                            'unexpected_exception:%s:%s' % (m, r)))
    if obs.get('broken'):
        r = obs['results'][0][0]
        return [('the bus %s on this call sequence (%s)' % (
            'did not come back within %.0f s' % CASE_TIMEOUT if r == 'timeout' else 'could not be set up', r),
            'unexpected_exception:%s:%s' % (obs['broken'], r))]

    # (a) every subscribed listener exactly once, ascending priority, failures reported collectively
    for p in obs['pubs']:
        cur_sig['f22'] = p['ch'] != 'log' and p['id'] in f22_parents
        entry = p['entry']
        entry_ids = sorted(entry)
        inv = p['invoked']
        must = set(entry_ids) - p['removed']
        may = set(entry_ids) | p['added']
        stable = [i for i in inv if i in entry and i not in p['reprio']]
        pr = [entry[i][0] for i in stable]
        if p['result'] in ('ret', 'fail'):
            aborting = [i for i in entry_ids if entry[i][1] == 'kbd' or entry[i][1].startswith('exit')]
            if aborting:
                continue    # cannot have completed normally unless the aborting listener was nested-safe
            if len(set(inv)) != len(inv) or not (must <= set(inv) <= may):
                bad.append(('publish(%s) invoked %s but %s were subscribed at entry (removed meanwhile: %s, '
                            'added meanwhile: %s; result %s)'
                            % (p['ch'], inv, entry_ids, sorted(p['removed']), sorted(p['added']), p['result']),
                            sig('not_all_listeners_run')))
                continue
            if pr != sorted(pr):
                bad.append(('publish(%s) order %s not ascending in priority' % (p['ch'], list(zip(stable, pr))),
                            sig('priority_order')))
            simple_fail = [i for i in entry_ids if entry[i][1] == 'raise']
            has_acts = any(x[2] for x in entry.values())
            if not has_acts and not p['added'] and not p['removed']:
                if bool(simple_fail) != (p['result'] == 'fail'):
                    bad.append(('publish(%s): failing listeners %s but result %s'
                                % (p['ch'], simple_fail, p['result']), sig('failures_not_reported')))
                elif p['result'] == 'fail' and p.get('nfail') != len(simple_fail):
                    bad.append(('publish(%s): %s failures reported, %d listeners failed'
                                % (p['ch'], p.get('nfail'), len(simple_fail)), sig('failures_not_reported')))
        else:
            # aborted by SystemExit / KeyboardInterrupt / process exit: a prefix, still in order, no repeats
            if len(set(inv)) != len(inv) or not set(inv) <= may:
                bad.append(('publish(%s) invoked %s, subscribed %s' % (p['ch'], inv, entry_ids),
                            sig('listener_twice_or_foreign')))
            if pr != sorted(pr):
                bad.append(('publish(%s) order not ascending' % p['ch'], sig('priority_order')))
        # (b) start/stop/exit listeners see STARTING/STOPPING/EXITING when the bus method publishes
        cur_sig['f22'] = p['call'] in f22_calls
        if p['depth'] == 0 and p['call'] is not None and not p['lc']:
            method = tokens[p['call']].split(':')[0]
            if method in ('start', 'stop', 'exit', 'restart') and p['ch'] in OWN:
                want = OWN[p['ch']][1]
                if p['state'] != want:
                    bad.append(('%s listeners published in state %s (want %s) during %s()'
                                % (p['ch'], p['state'], want, method), sig('wrong_state_seen')))
    # per-call checks
    for ci, tok in enumerate(tokens):
        if ci >= len(obs['results']):
            break
        cur_sig['f22'] = ci in f22_calls
        method = tok.split(':')[0]
        rs = obs['results'][ci]
        res = rs[0] if rs else 'ret'
        after = obs['states_after'][ci]
        mine = [p for p in obs['pubs'] if p['call'] == ci]
        top = [p for p in mine if p['depth'] == 0 and p['ch'] != 'log']
        chans = [p['ch'] for p in top]
        any_exc_failure = any(p['result'] == 'fail' for p in mine)
        lc = obs['lc'][ci]
        # (c) exit always runs the stop listeners before the exit listeners
        if 'exit' in chans and ('stop' not in chans or chans.index('stop') > chans.index('exit')):
            bad.append(('%s: exit listeners ran without/before stop listeners: %s' % (method, chans),
                        sig('exit_before_stop')))
        # SystemExit(0) after earlier failures must become non-zero
        for p in mine:
            if p['result'] == 'sysexit0' and p['raised']:
                bad.append(('SystemExit(0) left publish(%s) although listeners had failed' % p['ch'],
                            sig('sysexit_zero_after_failure')))
        if lc:
            continue    # a listener called start/stop/exit itself: outside the statement's quantifier
        # (d) final states
        if res == 'ret':
            want = {'start': 'STARTED', 'stop': 'STOPPED', 'exit': 'EXITING', 'restart': 'EXITING'}.get(method)
            if want and after != want:
                bad.append(('%s() returned with state %s' % (method, after), sig('final_state')))
            if method in ('graceful', 'pub', 'sub', 'unsub'):
                before = obs['states_after'][ci - 1] if ci else 'STOPPED'
                if after != before:
                    bad.append(('%s changed the state %s -> %s' % (method, before, after), sig('final_state')))
        elif isinstance(res, tuple) and method == 'stop':
            if after not in ('STARTED', 'STOPPED', 'EXITING'):
                bad.append(('stop() raised ChannelFailures and left the bus in %s' % after,
                            sig('F19:raising_stop_leaves_STOPPING')))
        # (e) failing start listener shuts the bus down
        if method == 'start':
            start_pubs = [p for p in top if p['ch'] == 'start']
            if start_pubs and start_pubs[0]['result'] == 'fail':
                ok = (isinstance(res, str) and res.startswith('procexit') and res != 'procexit0') or \
                     (isinstance(res, tuple) and after == 'EXITING' and 'stop' in chans) or \
                     (isinstance(res, str) and (res.startswith('sysexit') or res == 'kbd'))
                if not ok or after == 'STARTED':
                    bad.append(('start listener failed but start() -> %s, state %s, channels %s'
                                % (res, after, chans), sig('start_failure_not_shut_down')))
        # (f) a failure while exiting ends the process with a non-zero code
        if method in ('exit', 'restart') and any_exc_failure:
            aborted = any(p['result'] in ('kbd',) or str(p['result']).startswith('sysexit') for p in mine)
            if not aborted and not (isinstance(res, str) and res.startswith('procexit') and res != 'procexit0'):
                bad.append(('listener failed during %s() but result is %s' % (method, res),
                            sig('exit_failure_swallowed')))
    return bad


# ----------------------------------------------------------------------------------------------
# generators
# ----------------------------------------------------------------------------------------------
def sub_token(l):
    arg = 'n' if l['arg'] is None else str(l['arg'])
    return 'sub:%s:%d:%s%s:%s:%s:%s' % (l['ch'], l['id'], 'd' if l['deco'] else '', arg,
                                         'n' if l['attr'] is None else l['attr'], l['out'],
                                         '+'.join(l['acts']) or '-')


def gen_prio_route(rng, l, prio):
    """Make listener `l` reach priority `prio` by one of the routes the code offers."""
    routes = ['arg', 'arg+attr', 'attr']
    if prio == 50:
        routes += ['default', 'default']
    r = rng.choice(routes)
    l['deco'] = rng.random() < 0.3
    if r == 'arg':
        l['arg'], l['attr'] = prio, None
    elif r == 'arg+attr':
        l['arg'], l['attr'] = prio, rng.choice([0, 5, 50, 77])     # the argument wins, also when it is 0
    elif r == 'attr':
        l['arg'], l['attr'] = None, prio
    else:
        l['arg'], l['attr'] = None, None


def gen_case(rng, big=False):
    nid = [0]
    logfail = rng.random() < 0.12
    reentry = rng.random() < 0.45
    listeners = []
    for ch in CHANNELS:
        if ch == 'log':
            n = rng.choice([1, 2, 3, 3]) if logfail else rng.choice([0, 0, 1, 2, 3])
        else:
            n = rng.choice([0, 1, 1, 2, 2, 3, 4] if not big else [2, 3, 4, 5, 6])
        for _ in range(n):
            nid[0] += 1
            lid = nid[0]
            prio = rng.choice([0, 10, 50, 50, 90])
            acts = []
            if ch == 'log':
                out = rng.choice(['raise', 'ok']) if logfail else 'ok'
            else:
                out = rng.choices(OUTS, weights=[60, 25, 3, 3, 2, 4])[0]
                if reentry and rng.random() < 0.3:
                    for _ in range(rng.choice([1, 1, 2])):
                        kind = rng.choice('supcco')
                        if kind == 's':
                            nid[0] += 1
                            tch = rng.choice([c for c in CHANNELS if c != 'log'] + [ch])
                            acts.append('s~%s~%d~@~%s' % (tch, 100 + nid[0], rng.choice(['ok', 'raise'])))
                        elif kind == 'u':
                            pool = [t for t in listeners if t['ch'] != 'log']
                            if pool and rng.random() < 0.8:
                                t = rng.choice(pool)
                                acts.append('u~%s~%d' % (t['ch'], t['id']))
                            else:
                                acts.append('u~%s~%d' % (ch, lid + rng.choice([0, 1, 2])))   # itself / a later one
                        elif kind == 'p':
                            lower = [c for c in LEVELS if LEVELS[c] < LEVELS[ch]]
                            if lower:
                                acts.append('p~%s' % rng.choice(lower))
                        elif kind == 'c':
                            ms = [m for m in METHODS if METH_TOP[m] < LEVELS[ch]]
                            if ms:
                                acts.append('c~%s' % rng.choice(ms))
                        else:
                            # one-shot: unsubscribe itself, then call any lifecycle method
                            acts += ['u~%s~%d' % (ch, lid), 'c~%s' % rng.choice(METHODS)]
                            break
            l = {'ch': ch, 'id': lid, 'prio': prio, 'out': out, 'acts': acts, 'arg': prio, 'attr': None,
                 'deco': False}
            listeners.append(l)
    # ties only between insensitive listeners, and never when a log listener can fail
    sensitive = logfail or any('c~' in a or a.startswith('s~log') for l in listeners for a in l['acts'])
    for ch in CHANNELS:
        group = [l for l in listeners if l['ch'] == ch]
        for p in {l['prio'] for l in group}:
            tie = [l for l in group if l['prio'] == p]
            if len(tie) > 1 and (sensitive or any(l['acts'] or l['out'] not in ('ok', 'raise') for l in tie)):
                for k, l in enumerate(tie):
                    l['prio'] = p + k
    # listeners subscribed from inside a listener get a priority no other listener of the case has
    used = {l['prio'] for l in listeners}
    for l in listeners:
        for k, a in enumerate(l['acts']):
            if '~@~' in a:
                p = rng.choice([3, 7, 33, 77, 1000])
                while p in used:
                    p += 1
                used.add(p)
                l['acts'][k] = a.replace('~@~', '~%d~' % p)
    for l in listeners:
        gen_prio_route(rng, l, l['prio'])
    rng.shuffle(listeners)
    toks = [sub_token(l) for l in listeners]
    ncalls = rng.randint(1, 6)
    kinds = ['start', 'stop', 'exit', 'restart', 'graceful', 'pub', 'unsub', 'sub', 'resub',
             'atexit', 'wait', 'block', 'swc']
    weights = [25, 20, 14, 6, 8, 14, 7, 6, 8, 5, 4, 6, 3]
    for _ in range(ncalls):
        k = rng.choices(kinds, weights=weights)[0]
        if k == 'pub':
            toks.append('pub:%s' % rng.choice(['c1', 'c2', 'main', 'graceful', 'c7', 'stop', 'start', 'log', 'log']))
        elif k == 'unsub':
            if listeners and rng.random() < 0.8:
                t = rng.choice(listeners)
                toks.append('unsub:%s:%d' % (t['ch'], t['id']))
            else:   # a listener that was never subscribed / a channel that does not exist
                toks.append('unsub:%s:%d' % (rng.choice(['c1', 'stop', 'c9']), 900 + rng.randint(0, 3)))
        elif k == 'resub':
            # same callback again: the set is unchanged, the priority is overwritten by whatever the new
            # call says (argument, else the attribute, else the default)
            cands = [l for l in listeners if l['ch'] != 'log']
            if cands:
                t = rng.choice(cands)
                nid[0] += 1
                others = {l['prio'] for l in listeners if l['ch'] == t['ch'] and l is not t}
                if rng.random() < 0.3 and 50 not in others:
                    t['prio'], t['arg'], t['attr'], t['deco'] = 50, None, None, False
                else:
                    t['prio'] = rng.choice([1, 300]) + nid[0]
                    while t['prio'] in used:
                        t['prio'] += 1
                    used.add(t['prio'])
                    gen_prio_route(rng, t, t['prio'])
                toks.append(sub_token(t))
        elif k == 'sub':
            nid[0] += 1
            p = 200 + nid[0]
            while p in used:
                p += 1
            used.add(p)
            toks.append('sub:%s:%d:%d:%s:-' % (rng.choice(['start', 'stop', 'exit', 'c1', 'main']), 200 + nid[0],
                                               p, rng.choice(['ok', 'raise'])))
        elif k == 'wait':
            ts = rng.choice([['EXITING'], ['STARTED'], ['STOPPED', 'EXITING'], ['STARTED', 'STOPPED'],
                             ['STARTING']])
            plan = [rng.choices(['o', 'k', 'i', 'x0', 'x2'], weights=[8, 1, 1, 1, 1])[0]
                    for _ in range(rng.choice([0, 0, 1, 3]))]
            toks.append('wait:%s:%s:%s' % ('+'.join(ts), rng.choice(['main', 'main', 'none', 'c1']),
                                           '.'.join(plan) or '-'))
        elif k == 'block':
            plan = [rng.choices(['o', 'k', 'i', 'x0', 'x2'], weights=[6, 2, 1, 1, 1])[0]
                    for _ in range(rng.choice([0, 1, 2, 4]))]
            toks.append('block:%s' % ('.'.join(plan) or '-'))
        else:
            toks.append(k)
    return toks


ENUM_OUTS = ['ok', 'raise', 'exit0']
ENUM_CALLS = ['start', 'stop', 'exit', 'graceful', 'restart']


def enum_quick():
    """Exhaustive: every set of <=2 listeners over the channels start/stop/exit x outcomes ok/raise/SystemExit(0)
    (two listeners of one channel in both priority orders) x every call sequence of length <=3 over
    start/stop/exit/graceful/restart."""
    slots = [(ch, o) for ch in ('start', 'stop', 'exit') for o in ENUM_OUTS]
    sets = [[]] + [[s] for s in slots]
    for a in slots:
        for b in slots:
            if a[0] == b[0] or slots.index(a) < slots.index(b):
                sets.append([a, b])
    seqs = [list(s) for n in (1, 2, 3) for s in itertools.product(ENUM_CALLS, repeat=n)]
    for ls in sets:
        toks = ['sub:%s:%d:%d:%s:-' % (ch, k + 1, 10 + 40 * k, o) for k, (ch, o) in enumerate(ls)]
        for s in seqs:
            yield toks + s


def enum_small():
    """Exhaustive: <=2 listeners on each of start/stop/exit with out in {ok, raise, exit0, kbd},
    distinct priorities, x call sequences of length <=3 over {start, stop, exit, graceful}."""
    outs = ['ok', 'raise', 'exit0', 'kbd']
    per_channel = [[]] + [[o] for o in outs] + [[a, b] for a in outs for b in ('ok', 'raise')]
    calls = ['start', 'stop', 'exit', 'graceful']
    seqs = [list(s) for n in (1, 2, 3) for s in itertools.product(calls, repeat=n)]
    for ls in itertools.product(per_channel, repeat=3):
        toks, lid = [], 0
        for ch, lst in zip(('start', 'stop', 'exit'), ls):
            for k, o in enumerate(lst):
                lid += 1
                toks.append('sub:%s:%d:%d:%s:-' % (ch, lid, 10 + 40 * k, o))
        for s in seqs:
            yield toks + s


def enum_reentrant():
    """Exhaustive small scope of re-entrant scripts: two listeners A (priority 10) and B (priority 50) on one
    channel, A or B performing one re-entrant action, x one or two calls."""
    acts_for = lambda ch: (['u~%s~2' % ch, 'u~%s~1' % ch, 's~%s~3~5~ok' % ch, 's~%s~3~70~raise' % ch,
                            's~%s~2~1~ok' % ch, 'p~c2'] +
                           ['c~%s' % m for m in METHODS if METH_TOP[m] < LEVELS[ch]] +
                           ['u~%s~1+c~%s' % (ch, m) for m in ('stop', 'exit')])
    for ch in ('start', 'stop', 'exit', 'graceful', 'main'):
        calls = {'main': ['pub:main', 'block:-'], 'graceful': ['graceful']}.get(ch, [ch])
        for who in (1, 2):
            for act in acts_for(ch):
                if who == 2 and act.startswith('u~%s~1+' % ch):
                    act = act.replace('u~%s~1' % ch, 'u~%s~2' % ch)
                for oa, ob in itertools.product(('ok', 'raise'), repeat=2):
                    subs = ['sub:%s:1:10:%s:%s' % (ch, oa, act if who == 1 else '-'),
                            'sub:%s:2:50:%s:%s' % (ch, ob, act if who == 2 else '-'),
                            'sub:c2:9:50:ok:-']
                    for c in calls:
                        for pre in ([], ['start']):
                            for post in ([], [c], ['exit']):
                                yield subs + pre + [c] + post


def enum_log():
    """Exhaustive small scope on the `log` channel published by the application: 1..3 log listeners, every
    ok/raise pattern, distinct priorities in every order (and one tie), published once or twice; and the same
    listeners behind a raising listener of another channel (the F22 shape)."""
    for k in (1, 2, 3):
        for outs in itertools.product(('ok', 'raise'), repeat=k):
            for prios in itertools.permutations((10, 50, 90)[:k]):
                subs = ['sub:log:%d:%d:%s:-' % (i + 1, prios[i], outs[i]) for i in range(k)]
                yield subs + ['pub:log']
                yield subs + ['pub:log', 'pub:log']
                yield subs + ['sub:c1:8:10:raise:-', 'sub:c1:9:50:ok:-', 'pub:c1', 'pub:log']
            if k > 1 and 'raise' not in outs:
                yield ['sub:log:%d:50:ok:-' % (i + 1) for i in range(k)] + ['pub:log']


FORMS = [('%d', 'n'), ('%d', '77'), ('%d', '5'), ('n', '%d'), ('d%d', 'n'), ('d%d', '77'), ('dn', '%d'),
         ('dn', 'n'), ('n', 'n')]


def enum_priority_forms():
    """Exhaustive: a listener subscribed through every form the API offers (priority argument positional / by
    keyword, `priority` attribute only, argument and a different attribute, decorator form with / without argument,
    nothing at all) with a priority below / between / above two reference listeners (30 and 70), then re-subscribed
    through every other form; judged by the documented precedence argument > attribute > 50."""
    refs = ['sub:c1:8:30:n:ok:-', 'sub:c1:9:n:70:ok:-']
    for lid in (1, 2):              # odd ids pass the argument positionally, even ids by keyword
        for fa, ft in FORMS:
            for v in (10, 60, 90, 0):
                first = 'sub:c1:%d:%s:%s:ok:-' % (lid, fa % v if '%' in fa else fa, ft % v if '%' in ft else ft)
                yield refs + [first, 'pub:c1']
                yield [first] + refs + ['pub:c1']
                if v == 60:
                    for fa2, ft2 in FORMS:
                        second = 'sub:c1:%d:%s:%s:ok:-' % (lid, fa2 % 20 if '%' in fa2 else fa2,
                                                           ft2 % 20 if '%' in ft2 else ft2)
                        yield refs + [first, 'pub:c1', second, 'pub:c1']


# ----------------------------------------------------------------------------------------------
def _real_worker(chunk):
    out = []
    for t in chunk:
        if out and out[-1] is not None and out[-1].get('broken') == 'timeout':
            out.append(None)        # the code under test hangs: do not burn the budget on the rest
            continue
        out.append(run_real(t))
    return out


def _slim(obs):
    return obs


def check_cases(ctx, cases, compare=True, cov=None, procs=1):
    cases = list(cases)
    if ctx.extra.get('hang_in_code_under_test'):
        return
    model_lines = ctx.model([' '.join(c) for c in cases]) if compare else None
    if procs > 1 and len(cases) > 2000:
        n = (len(cases) + procs * 4 - 1) // (procs * 4)
        chunks = [cases[i:i + n] for i in range(0, len(cases), n)]
        try:
            observed = [o for part in common.parallel_map(_real_worker, chunks, procs) for o in part]
        except Exception as e:
            raise common.HarnessError('worker pool failed: %r' % (e,))
    else:
        observed = None
    for idx, toks in enumerate(cases):
        if ctx.extra.get('hang_in_code_under_test'):
            break
        obs = observed[idx] if observed is not None else run_real(toks, cov)
        if obs is None:
            continue
        if obs.get('broken') == 'timeout':
            ctx.extra['hang_in_code_under_test'] = ' '.join(toks)
        nontrivial = bool(obs['journal'])
        ctx.case(toks, nontrivial=nontrivial, key=' '.join(toks))
        flat = [r for rs in obs['results'] for r in rs]
        for r in flat:
            ctx.count('result:' + (r if isinstance(r, str) else 'fail'))
        ctx.count('final:' + obs['state'])
        if any(o['lc'] for o in obs['pubs']) or any(obs['lc']):
            ctx.count('reentrant_lifecycle_call')
        if any(o['added'] or o['removed'] or o['reprio'] for o in obs['pubs']):
            ctx.count('membership_changed_during_publish')
        ctx.count('max_depth:%d' % max([e[4] for e in obs['journal']] or [0]))
        if 'deep' in flat:
            ctx.count('discarded:too_deep')
            continue
        for what, sig in oracle(toks, obs):
            ctx.oracle_fail({'tokens': toks}, what, sig)
        if model_lines is not None:
            if any(p['ch'] == 'log' and p['result'] == 'fail' and p['call'] is not None
                   and toks[p['call']].split(':')[0] not in ('pub', 'sub', 'unsub') for p in obs['pubs']):
                # a raising log listener inside a lifecycle method: what happens next depends on where the
                # method writes its log lines, which is not an observable of the property (known finding F22)
                ctx.count('not_compared:failing_log_listener_inside_lifecycle_method')
                continue
            model = canon_model(toks, model_lines[idx])
            if any('outoffuel' in r for r in model['R']):
                ctx.count('discarded:model_out_of_fuel')
                continue
            ctx.compared()
            real = canon_real(toks, obs)
            if model.pop('O') == 'diff':
                ctx.disagree({'tokens': toks}, real, model, 'first- and second-generation model differ')
            if real != model:
                diff = [k for k in real if real[k] != model[k]]
                ctx.disagree({'tokens': toks}, real, model, 'bus observables differ in %s' % diff)


def corpus_cases():
    d = os.path.join(common.CORPUS, PROPERTY)
    out = []
    if os.path.isdir(d):
        for f in sorted(os.listdir(d)):
            if f.endswith('.json'):
                out.append(json.load(open(os.path.join(d, f)))['tokens'])
    return out


def run(ctx):
    cov = Coverage()
    # known findings: replay the recorded witnesses first
    for e in ctx.known:
        if e.get('status') == 'known':
            check_cases(ctx, [e['witness']['tokens']], compare=True, cov=cov)
    check_cases(ctx, corpus_cases(), cov=cov)
    check_cases(ctx, coverage_cases(), cov=cov)
    unit_checks(ctx, cov)
    n = ctx.budget(2500, 60000)
    cases = [gen_case(ctx.rng, big=(i % 10 == 9)) for i in range(n)]
    if ctx.quick():
        check_cases(ctx, cases, cov=cov)
    else:
        check_cases(ctx, cases[:3000], cov=cov)
        check_cases(ctx, cases[3000:], procs=16)
    missing = cov.missing()
    ctx.extra['anchored_lines_not_executed'] = missing
    ctx.extra['anchored_lines_not_executed_why'] = {
        'Bus.start: pass': 'handler of `except Exception` around self.exit(): exit() turns every Exception into '
                           'os._exit(70), so nothing reaches it',
        'Bus._do_execv: SystemRestart (2 lines)': 'Jython only (sys.platform == "java")',
    }
    ctx.extra['anchored_functions_traced'] = sorted(set(cov.codes.values())) if cov.ok else 'sys.monitoring unavailable'
    small = list(enum_quick()) + list(enum_reentrant()) + list(enum_log()) + list(enum_priority_forms())
    check_cases(ctx, small, procs=16)
    ctx.extra['exhaustive_small_scope_quick'] = len(small)
    if not ctx.quick():
        small = list(enum_small())
        check_cases(ctx, small, procs=16)
        ctx.extra['exhaustive_small_scope'] = len(small)


def search(ctx, around=None):
    """Deeper hunt for an input on which the property itself fails on the real code."""
    cases = [gen_case(ctx.rng, big=(i % 3 == 0)) for i in range(ctx.budget(8000, 40000))]
    check_cases(ctx, cases, compare=False, procs=16)
    if not ctx.oracle_failures:
        small = list(enum_small())
        if ctx.quick():
            small = ctx.rng.sample(small, 25000)
        check_cases(ctx, small, compare=False, procs=16)


def replay(ctx, case):
    toks = case['tokens']
    obs = run_real(toks)
    print('tokens :', ' '.join(toks))
    print('impl   :', json.dumps(canon_real(toks, obs)))
    m = ctx.model([' '.join(toks)])
    if m:
        print('model  :', json.dumps(canon_model(toks, m[0])))
    check_cases(ctx, [toks])


def T(text):
    return '-' if text == '' else '.'.join(str(ord(c)) for c in text)


def unit_checks(ctx, cov=None):
    """`ChannelFailures` and `Bus.log(msg, level, traceback)` against the model (CF / logArgs)."""
    import traceback as tb_mod
    try:
        from cherrypy.process import wspbus
    except Exception:
        return
    if cov is not None:
        cov.start(wspbus)
    lines, real = [], []
    try:
        for n in (0, 1, 2, 5, ctx.rng.randint(3, 9)):
            excs = [ctx.rng.randint(0, 99) for _ in range(n)]
            try:
                cf = wspbus.ChannelFailures()
                before = bool(cf)
                for e in excs:
                    try:
                        raise ValueError(e)
                    except ValueError:
                        cf.handle_exception()
                inst = cf.get_instances()
                inst.append('not shared')            # get_instances() returns a copy
                got = 'CF=%d:%s' % (1 if cf else 0, '/'.join(str(x.args[0]) for x in cf.get_instances()))
                if before:
                    got = 'CF=fresh instance is truthy'
            except Exception as e:
                got = 'exc:%s' % type(e).__name__
            lines.append('cf:%s' % ('.'.join(map(str, excs)) or '-'))
            real.append(got)
        for tb in (0, 1):
            for active in (0, 1):
                level = ctx.rng.choice([10, 20, 30, 40])
                msg = 'probe message %d' % ctx.rng.randint(0, 999)
                seen = []
                try:
                    bus = wspbus.Bus()
                    bus.subscribe('log', lambda m, l: seen.append((m, l)))
                    if active:
                        try:
                            raise KeyError('k%d' % level)
                        except KeyError:
                            exc_text = ''.join(tb_mod.format_exception(*sys.exc_info()))
                            bus.log(msg, level, bool(tb))
                    else:
                        exc_text = ''.join(tb_mod.format_exception(*sys.exc_info()))
                        if tb:
                            bus.log(msg, level=level, traceback=True)
                        else:
                            bus.log(msg, level)
                    got = 'LOG=%s:%s' % (T(seen[0][0]), seen[0][1]) if len(seen) == 1 else 'LOG=%d calls' % len(seen)
                except Exception as e:
                    got = 'exc:%s' % type(e).__name__
                    exc_text = ''
                lines.append('log:%d:%d:%s:%s' % (tb, level, T(msg), T(exc_text)))
                real.append(got)
    finally:
        if cov is not None:
            cov.stop()
    model = ctx.model(lines)
    for i, l in enumerate(lines):
        ctx.case({'unit': l[:80]}, nontrivial=True, key=l)
        ctx.count('unit:' + l.split(':')[0])
        if model is not None:
            ctx.compared()
            if model[i] != real[i]:
                ctx.disagree({'unit': l}, real[i][:300], model[i][:300], 'ChannelFailures / Bus.log differ from the model')


def coverage_cases():
    """Deterministic cases that steer the harness variants (platform, cloexec, argv fallback, thread list,
    callback arguments) through `_do_execv`, `block` and `start_with_callback`."""
    out = []
    for i in range(30):
        out.append(['unsub:c9:%d' % (900 + i), 'restart', 'block:-'])
    for i in range(4):
        out.append(['unsub:c9:%d' % (900 + i), 'swc', 'exit'])
    out.append(['sub:main:1:50:ok:c~restart', 'start', 'block:o.o'])
    out.append(['start', 'block:k'])
    out.append(['start', 'block:x3'])
    out.append(['start', 'block:i', 'atexit'])
    out.append(['start', 'atexit', 'atexit'])
    out.append(['start', 'start', 'atexit'])
    out.append(['sub:start:1:50:raise:-', 'start', 'atexit'])
    return out


# ----------------------------------------------------------------------------------------------
# tables regenerated from the live module (lean/CpModel/Gen/C18Tables.lean)
# ----------------------------------------------------------------------------------------------
ST_CODE = {n: i for i, n in enumerate(STATE_NAMES)}
CH_CODE = {'start': 0, 'stop': 1, 'exit': 2, 'graceful': 3, 'log': 4, 'main': 5}


def _measure_priority(wspbus, arg, attr):
    """Effective priority of a listener subscribed with (argument, attribute), measured through the
    invocation order against a reference listener at p + 0.5 (no ties): smallest p it runs before."""
    def runs_first(p):
        bus = wspbus.Bus()
        order = []

        class L:
            def __init__(self, n):
                self.n = n

            def __call__(self, *a, **k):
                order.append(self.n)
        x, ref = L('x'), L('r')
        if attr is not None:
            x.priority = attr
        if arg is None:
            bus.subscribe('c', x)
        else:
            bus.subscribe('c', x, arg)
        bus.subscribe('c', ref, p + 0.5)
        bus.publish('c')
        return order[:1] == ['x']
    lo, hi = 0, 1024
    if not runs_first(hi):
        return 9999
    while lo < hi:
        mid = (lo + hi) // 2
        if runs_first(mid):
            hi = mid
        else:
            lo = mid + 1
    return lo


def _measure_tables():
    import os as _os
    from cherrypy.process import wspbus
    try:
        names = [n for n in vars(wspbus.states) if n.isupper()]
    except TypeError:
        names = []
    names = names or [n for n in dir(wspbus.states) if n.isupper()]
    state_codes = sorted(ST_CODE.get(n, 9) for n in names)
    ids = {id(getattr(wspbus.states, n)): n for n in names}
    chans = sorted(CH_CODE.get(c, 9) for c in getattr(wspbus.Bus(), 'listeners', {}))
    rows = []
    exit_codes = set()
    saved = (wspbus.os, wspbus.atexit)
    wspbus.os = _OsShim(_os)
    wspbus.atexit = _FakeAtexit()
    try:
        for sn in STATE_NAMES:
            for mi, m in enumerate(METHODS):
                trace = []

                class TB(wspbus.Bus):
                    def __setattr__(self, k, v):
                        if k == 'state' and trace is not None and getattr(self, '_rec', False):
                            trace.append(ST_CODE.get(ids.get(id(v)), 9))
                        object.__setattr__(self, k, v)
                bus = TB()
                bus.state = getattr(wspbus.states, sn)
                object.__setattr__(bus, '_rec', True)
                try:
                    getattr(bus, m)()
                    res = 0
                except _ProcExit as e:
                    res = 1000 + int(e.code)
                    exit_codes.add(int(e.code))
                except BaseException:
                    res = 2000
                rows.append((ST_CODE[sn], mi, dedup(trace), res, bool(bus.execv)))
    finally:
        wspbus.os, wspbus.atexit = saved
    prio = [(a, t, _measure_priority(wspbus, a, t)) for a in (None, 0, 10) for t in (None, 0, 70)]
    return state_codes, chans, rows, sorted(exit_codes), prio


TABLES_TIMEOUT = 30.0


def _measure_tables_guarded():
    """Run the measurement in a forked child with a hard time limit: `tables()` is called while the global
    build lock is held, so code under test that hangs must not be able to hang it."""
    import multiprocessing as mp
    ctxm = mp.get_context('fork')
    parent, child = ctxm.Pipe(duplex=False)

    def work(conn):
        try:
            conn.send(('ok', _measure_tables()))
        except BaseException as e:
            conn.send(('err', repr(e)))
        finally:
            conn.close()
    proc = ctxm.Process(target=work, args=(child,), daemon=True)
    proc.start()
    child.close()
    try:
        if parent.poll(TABLES_TIMEOUT):
            kind, val = parent.recv()
        else:
            kind, val = 'err', 'timed out after %.0fs (the code under test hangs)' % TABLES_TIMEOUT
    except (EOFError, OSError) as e:
        kind, val = 'err', 'measurement process died: %r' % (e,)
    finally:
        if proc.is_alive():
            proc.kill()
        proc.join(5)
        parent.close()
    if kind != 'ok':
        raise RuntimeError(val)
    return val


def tables(ctx):
    try:
        state_codes, chans, rows, exit_codes, prio = _measure_tables_guarded()
    except Exception as e:     # the module is broken: the table says so, the proof obligation fails
        state_codes, chans, rows, exit_codes, prio = [9], [9], [], [], []
        ctx.note('tables: measuring wspbus failed: %r' % (e,))

    def opt(x):
        return 'none' if x is None else '(some %d)' % x
    default = [e for a, t, e in prio if a is None and t is None]
    src = ['/- GENERATED by harness/c18.py from the live cherrypy.process.wspbus; do not edit. -/',
           'namespace CpModel.Gen.C18',
           '',
           '/-- the states defined on `wspbus.states`, sorted, as indices into `CpModel.Bus.St`',
           '    (STOPPED STARTING STARTED STOPPING EXITING; 9 = a state the model does not know) -/',
           'def stateCodes : List Nat := %s' % json.dumps(state_codes),
           '',
           '/-- the channels a fresh `Bus()` has (start stop exit graceful log main = 0..5; 9 = unknown), sorted -/',
           'def builtinChannelCodes : List Nat := %s' % json.dumps(chans),
           '',
           '/-- priority of a listener subscribed without priority argument or attribute (measured) -/',
           'def defaultPriority : Nat := %d' % (default[0] if default else 9999),
           '',
           '/-- every code `os._exit` was called with while driving a listener-free bus through all transitions -/',
           'def exitCodes : List Nat := %s' % json.dumps(exit_codes),
           '',
           '/-- (state before, method start/stop/exit/restart/graceful = 0..4, states assigned in order,',
           '    result: 0 returned / 1000+c os._exit(c) / 2000 other, execv afterwards) on a listener-free bus -/',
           'def transitions : List (Nat × Nat × List Nat × Nat × Bool) := [']
    src += ['  (%d, %d, %s, %d, %s)%s' % (a, b, json.dumps(c), d, 'true' if e else 'false',
                                         ',' if i + 1 < len(rows) else '')
            for i, (a, b, c, d, e) in enumerate(rows)]
    src += [']', '',
            '/-- (priority argument, `priority` attribute of the callable, effective priority measured through the',
            '    invocation order) -/',
            'def prioRows : List (Option Nat × Option Nat × Nat) := [']
    src += ['  (%s, %s, %d)%s' % (opt(a), opt(t), e, ',' if i + 1 < len(prio) else '')
            for i, (a, t, e) in enumerate(prio)]
    src += [']', '', 'end CpModel.Gen.C18', '']
    return {'CpModel/Gen/C18Tables.lean': '\n'.join(src)}
