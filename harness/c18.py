"""C18 - process bus: every listener runs, in order; state follows the lifecycle.

Model: lean/CpModel/Bus.lean, theorems: lean/CpProofs/C18.lean, driver: lean/Drv/C18.lean.
Real code: a fresh `cherrypy.process.wspbus.Bus()` per case with probe listeners; `os._exit` and
`atexit.register` are intercepted through the module globals the code looks them up in.
"""
import json

from . import common

PROPERTY = 'C18'
LEAN_TARGETS = ['CpProofs.C18', 'drv_c18']
DRIVER = 'drv_c18'
THEOREMS = [
    'CpProofs.C18.sortByPrio_perm',
    'CpProofs.C18.sortByPrio_sorted',
    'CpProofs.C18.sortByPrio_stable',
    'CpProofs.C18.publish_all_run_in_order',
    'CpProofs.C18.publish_result',
    'CpProofs.C18.publish_state_unchanged',
    'CpProofs.C18.start_listeners_see_STARTING',
    'CpProofs.C18.stop_listeners_see_STOPPING',
    'CpProofs.C18.exit_listeners_see_EXITING',
    'CpProofs.C18.exit_runs_stop_first',
    'CpProofs.C18.final_state_of_returning_calls',
    'CpProofs.C18.start_failure_shuts_down',
    'CpProofs.C18.exit_failure_nonzero',
    'CpProofs.C18.sysexit_code_fixup',
    'CpProofs.C18.publish_state_stable_general',
    'CpProofs.C18.stop_general',
    'CpProofs.C18.final_state_full_false',
    'CpProofs.C18.all_run_with_failing_log_false',
]
TRUSTED_BASE = [
    'os._exit / atexit / execv are outcomes of the model, not executed',
    'Python set iteration order inside a priority tie is arbitrary: journals are compared modulo '
    'order inside a tie group',
]
ASSUMPTIONS = [
    'listeners are finite scripts: (un)subscribe / publish re-entrantly, then return, raise Exception, '
    'SystemExit(code) or KeyboardInterrupt',
    'ordering / exactly-once / lifecycle theorems cover scripts without re-entrant actions; for arbitrary '
    're-entrant scripts the state-stability theorems (publish_state_stable_general, stop_general) hold and '
    'the rest is covered by the correspondence stream only',
]
LEVEL = 'proof'
TECHNIQUE = ('Lean 4 proof: refinement of Bus.publish/start/stop/exit to a declarative loop spec, by induction over the '
             'listener list (all listener sets, priorities, failure patterns); model tied to wspbus.Bus by a '
             'differential journal comparison')
LEVEL_TEXT = ('Proved in Lean for every listener list and failure pattern of non-re-entrant listeners with non-raising log '
              'listeners: publish invokes a stable-sorted permutation of the subscribers exactly once and reports exactly '
              'the raisers; start/stop/exit journal their listeners in STARTING/STOPPING/EXITING, exit runs stop first, '
              'returning calls end in the documented state, a failed start shuts down, a failure while exiting is '
              'os._exit(70), SystemExit(0) after failures becomes 1. Partial: re-entrant listeners (subscribe/unsubscribe/'
              'publish inside a listener) are modelled and compared with the real Bus on generated call sequences but not '
              'covered by theorems; the two statements that are false on the unchanged tree are proved false (F19, F22).')
LEVEL_NOTE = ('Trusted: Lean kernel (axioms propext, Classical.choice, Quot.sound only), the hand model '
              'lean/CpModel/Bus.lean as validated by the differential run against a fresh wspbus.Bus per case, the '
              'harness. os._exit/atexit/execv are outcomes of the model; set iteration order inside a priority tie is '
              'arbitrary in the code, journals are compared modulo tie order.')
RULE = ('random call sequences (<=6 calls after 0-4 subscriptions per channel over start/stop/exit/graceful/'
        'main/log/c1/c2) with failing / exiting / re-entrant listeners, plus (thorough) an exhaustive '
        'enumeration of small listener sets x short call sequences; a case is non-trivial when at least one '
        'listener was invoked; distinct = distinct call-token line')

CHANNELS = ['start', 'stop', 'exit', 'graceful', 'main', 'log', 'c1', 'c2']
RANK = {'start': 0, 'stop': 0, 'exit': 0, 'graceful': 0, 'main': 0, 'c1': 1, 'c2': 2, 'log': 9}
OUTS = ['ok', 'raise', 'exit0', 'exit1', 'exit3', 'kbd']


# ----------------------------------------------------------------------------------------------
# real-code runner
# ----------------------------------------------------------------------------------------------
class _ProcExit(BaseException):
    def __init__(self, code):
        self.code = code


class _FakeAtexit:
    @staticmethod
    def register(*a, **k):
        return None


class _OsShim:
    """`wspbus.os` with `_exit` turned into an observable outcome."""

    def __init__(self, real):
        self._real = real

    def __getattr__(self, name):
        return getattr(self._real, name)

    @staticmethod
    def _exit(code):
        raise _ProcExit(code)


def run_real(tokens):
    """Execute one case on the real Bus.  Returns the observation dict."""
    from cherrypy.process import wspbus
    import os as _os
    saved = (wspbus.os, wspbus.atexit)
    wspbus.os = _OsShim(_os)
    wspbus.atexit = _FakeAtexit
    try:
        bus = wspbus.Bus()
        names = {id(getattr(wspbus.states, n)): n for n in
                 ('STOPPED', 'STARTING', 'STARTED', 'STOPPING', 'EXITING')}
        journal = []          # (ch, id, state, prio)
        pubs = []             # publish records, for the oracle
        stack = []
        probes = {}
        static_prio = {}

        def state_name():
            return names.get(id(bus.state), repr(bus.state))

        class Probe:
            def __init__(self, ch, lid, prio, out, acts):
                self.ch, self.lid, self.prio, self.out, self.acts = ch, lid, prio, out, acts

            def __call__(self, *a, **k):
                journal.append((self.ch, self.lid, state_name(), self.prio))
                if stack:
                    stack[-1]['invoked'].append(self.lid)
                me = stack[-1] if stack else None
                try:
                    for act in self.acts:
                        f = act.split('~')
                        if f[0] == 's':
                            p = get_probe(f[1], int(f[2]), int(f[3]), f[4], [])
                            do_subscribe(f[1], p, int(f[3]))
                        elif f[0] == 'u':
                            p = probes.get((f[1], int(f[2])))
                            if p is not None:
                                bus.unsubscribe(f[1], p)
                        elif f[0] == 'p':
                            bus.publish(f[1])
                except wspbus.ChannelFailures:
                    if me is not None:
                        me['raised'].append(self.lid)
                    raise
                if self.out == 'raise':
                    if me is not None:
                        me['raised'].append(self.lid)
                    raise ValueError('probe %d' % self.lid)
                if self.out == 'kbd':
                    raise KeyboardInterrupt()
                if self.out.startswith('exit'):
                    raise SystemExit(int(self.out[4:]))
                return self.lid

        def get_probe(ch, lid, prio, out, acts):
            key = (ch, lid)
            if key not in probes:
                probes[key] = Probe(ch, lid, prio, out, acts)
            return probes[key]

        def do_subscribe(ch, p, prio):
            # the three ways a priority reaches the bus: explicit argument, the callback's
            # `priority` attribute, or the default (50) when neither is given
            route = p.lid % 3
            if route == 1:
                p.priority = prio
                bus.subscribe(ch, p)
            elif route == 2 and prio == 50:
                if hasattr(p, 'priority'):
                    del p.priority
                bus.subscribe(ch, p)
            else:
                bus.subscribe(ch, p, priority=prio)

        cls_publish = wspbus.Bus.publish

        def publish(channel, *a, **k):
            rec = {'ch': channel, 'state': state_name(), 'depth': len(stack),
                   'entry': sorted((p.prio, p.lid, p.out, bool(p.acts))
                                   for p in bus.listeners.get(channel, ()) if isinstance(p, Probe)),
                   'invoked': [], 'raised': [], 'result': None, 'call': cur_call[0]}
            pubs.append(rec)
            stack.append(rec)
            try:
                r = cls_publish(bus, channel, *a, **k)
                rec['result'] = 'ret'
                return r
            except wspbus.ChannelFailures as e:
                rec['result'] = 'fail'
                rec['nfail'] = len(e.get_instances())
                raise
            except SystemExit as e:
                rec['result'] = 'sysexit%s' % e.code
                raise
            except KeyboardInterrupt:
                rec['result'] = 'kbd'
                raise
            except _ProcExit:
                rec['result'] = 'procexit'
                raise
            finally:
                stack.pop()

        bus.publish = publish
        cur_call = [None]
        results = []
        states_after = []
        for ci, tok in enumerate(tokens):
            cur_call[0] = ci
            f = tok.split(':')
            try:
                if f[0] == 'sub':
                    acts = [] if f[5] == '-' else f[5].split('+')
                    p = get_probe(f[1], int(f[2]), int(f[3]), f[4], acts)
                    p.prio = int(f[3])      # a top-level re-subscribe overwrites the priority
                    do_subscribe(f[1], p, int(f[3]))
                elif f[0] == 'unsub':
                    p = probes.get((f[1], int(f[2])))
                    if p is not None:
                        bus.unsubscribe(f[1], p)
                elif f[0] == 'pub':
                    bus.publish(f[1])
                else:
                    getattr(bus, f[0])()
                results.append('ret')
            except wspbus.ChannelFailures as e:
                ids = sorted(int(str(x.args[0]).split()[-1]) if isinstance(x, ValueError)
                             else -1 for x in e.get_instances())
                results.append(('fail', ids, len(e.get_instances())))
            except SystemExit as e:
                results.append('sysexit%s' % e.code)
            except KeyboardInterrupt:
                results.append('kbd')
            except _ProcExit as e:
                results.append('procexit%s' % e.code)
                states_after.append(state_name())
                break
            except RecursionError:
                results.append('outoffuel')
            states_after.append(state_name())
        return {'results': results, 'journal': journal, 'state': state_name(),
                'execv': 1 if bus.execv else 0, 'pubs': pubs, 'states_after': states_after}
    finally:
        wspbus.os, wspbus.atexit = saved


# ----------------------------------------------------------------------------------------------
# canonical form shared by both sides
# ----------------------------------------------------------------------------------------------
def canon_journal(entries):
    """Drop log-channel invocations; sort maximal runs of equal (channel, state, prio) by id."""
    es = [e for e in entries if e[0] != 'log']
    out, i = [], 0
    while i < len(es):
        j = i
        while j < len(es) and (es[j][0], es[j][2], es[j][3]) == (es[i][0], es[i][2], es[i][3]):
            j += 1
        out += sorted(es[i:j], key=lambda e: e[1])
        i = j
    return ['%s.%d.%s' % (e[0], e[1], e[2]) for e in out]


def canon_real(obs):
    rs = []
    for r in obs['results']:
        if isinstance(r, tuple):
            # nested ChannelFailures instances count as the failing outer listener: compare the count
            rs.append('fail%d' % r[2])
        else:
            rs.append(r)
    return {'R': rs, 'J': canon_journal(obs['journal']), 'S': obs['state'], 'X': obs['execv']}


def canon_model(line):
    parts = dict(p.split('=', 1) for p in line.split(' '))
    rs = []
    for r in ([] if parts['R'] == '-' else parts['R'].split(',')):
        if r.startswith('fail['):
            ids = [x for x in r[5:-1].split('/') if x]
            rs.append('fail%d' % len(ids))
        else:
            rs.append(r)
    js = []
    for e in ([] if parts['J'] == '-' else parts['J'].split(',')):
        ch, lid, st, prio = e.split('.')
        js.append((ch, int(lid), st, int(prio)))
    return {'R': rs, 'J': canon_journal(js), 'S': parts['S'], 'X': int(parts['X'])}


# ----------------------------------------------------------------------------------------------
# oracle: the property statement evaluated on what the real bus did
# ----------------------------------------------------------------------------------------------
OWN = {'start': ('start', 'STARTING'), 'stop': ('stop', 'STOPPING'), 'exit': ('exit', 'EXITING')}


def oracle(tokens, obs):
    """Return a list of (what, signature) failures of the property on this observation."""
    bad = []
    log_raisers = set()
    for t in tokens:
        f = t.split(':')
        if f[0] == 'sub' and f[1] == 'log' and f[4] != 'ok':
            log_raisers.add(int(f[2]))
    invoked_ids = {e[1] for e in obs['journal']}
    logfail = bool(log_raisers & invoked_ids)

    def sig(s):
        return 'F22:failing_log_listener' if logfail else s

    # (a) every subscribed listener exactly once, ascending priority, failures reported collectively
    for p in obs['pubs']:
        entry_ids = [x[1] for x in p['entry']]
        outs = {x[1]: x[2] for x in p['entry']}
        prio = {x[1]: x[0] for x in p['entry']}
        inv = p['invoked'][:len(p['invoked'])]
        # only the listeners invoked by this publish itself (nested publishes append to their own record)
        if p['result'] in ('ret', 'fail'):
            aborting = [i for i in entry_ids if outs[i] in ('kbd',) or outs[i].startswith('exit')]
            if aborting:
                continue    # cannot have completed normally unless the aborting listener was nested-safe
            if sorted(inv) != sorted(entry_ids):
                bad.append(('publish(%s) invoked %s but %s were subscribed at entry (result %s)'
                            % (p['ch'], inv, entry_ids, p['result']), sig('not_all_listeners_run')))
                continue
            pr = [prio[i] for i in inv]
            if pr != sorted(pr):
                bad.append(('publish(%s) order %s not ascending in priority' % (p['ch'], list(zip(inv, pr))),
                            sig('priority_order')))
            simple_fail = [i for i in entry_ids if outs[i] == 'raise']
            has_acts = any(x[3] for x in p['entry'])
            if not has_acts:
                if bool(simple_fail) != (p['result'] == 'fail'):
                    bad.append(('publish(%s): failing listeners %s but result %s'
                                % (p['ch'], simple_fail, p['result']), sig('failures_not_reported')))
                elif p['result'] == 'fail' and p.get('nfail') != len(simple_fail):
                    bad.append(('publish(%s): %d failures reported, %d listeners failed'
                                % (p['ch'], p.get('nfail'), len(simple_fail)), sig('failures_not_reported')))
        else:
            # aborted by SystemExit / KeyboardInterrupt / process exit: a prefix, still in order, no repeats
            if len(set(inv)) != len(inv) or not set(inv) <= set(entry_ids):
                bad.append(('publish(%s) invoked %s, subscribed %s' % (p['ch'], inv, entry_ids),
                            sig('listener_twice_or_foreign')))
            pr = [prio[i] for i in inv if i in prio]
            if pr != sorted(pr):
                bad.append(('publish(%s) order not ascending' % p['ch'], sig('priority_order')))
        # (b) start/stop/exit listeners see STARTING/STOPPING/EXITING when the bus method publishes
        if p['depth'] == 0 and p['call'] is not None:
            method = tokens[p['call']].split(':')[0]
            if method in ('start', 'stop', 'exit', 'restart') and p['ch'] in OWN:
                want = OWN[p['ch']][1]
                if p['state'] != want:
                    bad.append(('%s listeners published in state %s (want %s) during %s()'
                                % (p['ch'], p['state'], want, method), sig('wrong_state_seen')))
    # per-call checks
    for ci, tok in enumerate(tokens):
        if ci >= len(obs['results']):
            break
        method = tok.split(':')[0]
        res = obs['results'][ci]
        after = obs['states_after'][ci]
        mine = [p for p in obs['pubs'] if p['call'] == ci]
        top = [p for p in mine if p['depth'] == 0 and p['ch'] != 'log']
        chans = [p['ch'] for p in top]
        any_exc_failure = any(p['result'] == 'fail' for p in mine)
        # (c) exit always runs the stop listeners before the exit listeners
        if method in ('exit', 'restart'):
            if 'exit' in chans and ('stop' not in chans or chans.index('stop') > chans.index('exit')):
                bad.append(('%s(): exit listeners ran without/before stop listeners: %s' % (method, chans),
                            sig('exit_before_stop')))
        # (d) final states
        if res == 'ret':
            want = {'start': 'STARTED', 'stop': 'STOPPED', 'exit': 'EXITING', 'restart': 'EXITING'}.get(method)
            if want and after != want:
                bad.append(('%s() returned with state %s' % (method, after), sig('final_state')))
            if method in ('graceful', 'pub', 'sub', 'unsub'):
                before = obs['states_after'][ci - 1] if ci else 'STOPPED'
                if after != before:
                    bad.append(('%s changed the state %s -> %s' % (method, before, after), sig('final_state')))
        elif isinstance(res, tuple) and method == 'stop':
            if after not in ('STARTED', 'STOPPED', 'EXITING'):
                bad.append(('stop() raised ChannelFailures and left the bus in %s' % after,
                            sig('F19:raising_stop_leaves_STOPPING')))
        # (e) failing start listener shuts the bus down
        if method == 'start':
            start_pubs = [p for p in top if p['ch'] == 'start']
            if start_pubs and start_pubs[0]['result'] == 'fail':
                ok = (isinstance(res, str) and res.startswith('procexit') and res != 'procexit0') or \
                     (isinstance(res, tuple) and after == 'EXITING' and 'stop' in chans) or \
                     (isinstance(res, str) and (res.startswith('sysexit') or res == 'kbd'))
                if not ok or after == 'STARTED':
                    bad.append(('start listener failed but start() -> %s, state %s, channels %s'
                                % (res, after, chans), sig('start_failure_not_shut_down')))
        # (f) a failure while exiting ends the process with a non-zero code
        if method in ('exit', 'restart') and any_exc_failure:
            aborted = any(p['result'] in ('kbd',) or str(p['result']).startswith('sysexit') for p in mine)
            if not aborted and not (isinstance(res, str) and res.startswith('procexit') and res != 'procexit0'):
                bad.append(('listener failed during %s() but result is %s' % (method, res),
                            sig('exit_failure_swallowed')))
        # SystemExit(0) after earlier failures must become non-zero
        for p in mine:
            if p['result'] == 'sysexit0':
                if p['raised']:
                    bad.append(('SystemExit(0) left publish(%s) although listeners had failed' % p['ch'],
                                sig('sysexit_zero_after_failure')))
    return bad


# ----------------------------------------------------------------------------------------------
# generators
# ----------------------------------------------------------------------------------------------
def gen_case(rng, big=False):
    nid = [0]
    logfail = rng.random() < 0.12
    listeners = []     # (ch, id, prio, out, acts)
    for ch in CHANNELS:
        if ch == 'log':
            n = rng.choice([0, 0, 1, 2])
        else:
            n = rng.choice([0, 1, 1, 2, 2, 3, 4] if not big else [2, 3, 4, 5, 6])
        for _ in range(n):
            nid[0] += 1
            prio = rng.choice([10, 50, 50, 90])
            if ch == 'log':
                out = rng.choice(['raise', 'ok']) if logfail else 'ok'
                acts = []
            else:
                out = rng.choices(OUTS, weights=[60, 25, 3, 3, 2, 4])[0]
                acts = []
                if rng.random() < 0.2:
                    for _ in range(rng.choice([1, 1, 2])):
                        kind = rng.choice('sup')
                        if kind == 's':
                            nid[0] += 1
                            tch = rng.choice([c for c in CHANNELS if c != 'log'])
                            acts.append('s~%s~%d~%d~%s' % (tch, 100 + nid[0], 100 + nid[0],
                                                           rng.choice(['ok', 'raise'])))
                        elif kind == 'u' and listeners:
                            t = rng.choice(listeners)
                            acts.append('u~%s~%d' % (t[0], t[1]))
                        else:
                            higher = [c for c in ('c1', 'c2') if RANK[c] > RANK[ch]]
                            if higher:
                                acts.append('p~%s' % rng.choice(higher))
            listeners.append([ch, nid[0], prio, out, acts])
    # ties only between insensitive listeners, and never when a log listener can fail
    for ch in CHANNELS:
        group = [l for l in listeners if l[0] == ch]
        for p in {l[2] for l in group}:
            tie = [l for l in group if l[2] == p]
            if len(tie) > 1 and (logfail or any(l[4] or l[3] not in ('ok', 'raise') for l in tie)):
                for k, l in enumerate(tie):
                    l[2] = p + k
    rng.shuffle(listeners)
    toks = ['sub:%s:%d:%d:%s:%s' % (l[0], l[1], l[2], l[3], '+'.join(l[4]) or '-') for l in listeners]
    ncalls = rng.randint(1, 6)
    for _ in range(ncalls):
        k = rng.choices(['start', 'stop', 'exit', 'restart', 'graceful', 'pub', 'unsub', 'sub', 'resub'],
                        weights=[25, 20, 14, 6, 8, 14, 7, 6, 6])[0]
        if k == 'pub':
            toks.append('pub:%s' % rng.choice(['c1', 'c2', 'main', 'graceful', 'c7']))
        elif k == 'unsub':
            if listeners:
                t = rng.choice(listeners)
                toks.append('unsub:%s:%d' % (t[0], t[1]))
        elif k == 'resub':
            # same callback again with a new, unique priority: the set is unchanged, the priority is
            cands = [l for l in listeners if l[0] != 'log']
            if cands:
                t = rng.choice(cands)
                nid[0] += 1
                t[2] = rng.choice([1, 300]) + nid[0]
                toks.append('sub:%s:%d:%d:%s:%s' % (t[0], t[1], t[2], t[3], '+'.join(t[4]) or '-'))
        elif k == 'sub':
            nid[0] += 1
            toks.append('sub:%s:%d:%d:%s:-' % (rng.choice(['start', 'stop', 'exit', 'c1']), 200 + nid[0],
                                               200 + nid[0], rng.choice(['ok', 'raise'])))
        else:
            toks.append(k)
    return toks


def enum_small():
    """Exhaustive: <=2 listeners on each of start/stop/exit with out in {ok, raise, exit0, kbd},
    distinct priorities, x call sequences of length <=3 over {start, stop, exit, graceful}."""
    import itertools
    outs = ['ok', 'raise', 'exit0', 'kbd']
    per_channel = [[]] + [[o] for o in outs] + [[a, b] for a in outs for b in ('ok', 'raise')]
    calls = ['start', 'stop', 'exit', 'graceful']
    seqs = [list(s) for n in (1, 2, 3) for s in itertools.product(calls, repeat=n)]
    for ls in itertools.product(per_channel, repeat=3):
        toks, lid = [], 0
        for ch, lst in zip(('start', 'stop', 'exit'), ls):
            for k, o in enumerate(lst):
                lid += 1
                toks.append('sub:%s:%d:%d:%s:-' % (ch, lid, 10 + 40 * k, o))
        for s in seqs:
            yield toks + s


# ----------------------------------------------------------------------------------------------
def check_cases(ctx, cases, compare=True):
    model_lines = ctx.model([' '.join(c) for c in cases]) if compare else None
    for idx, toks in enumerate(cases):
        obs = run_real(toks)
        nontrivial = bool(obs['journal'])
        ctx.case(toks, nontrivial=nontrivial, key=' '.join(toks))
        for r in obs['results']:
            ctx.count('result:' + (r if isinstance(r, str) else 'fail'))
        ctx.count('final:' + obs['state'])
        if 'outoffuel' in obs['results']:
            raise common.HarnessError('generator produced unbounded re-entrancy: %s' % toks)
        for what, sig in oracle(toks, obs):
            ctx.oracle_fail({'tokens': toks}, what, sig)
        if model_lines is not None:
            ctx.compared()
            real, model = canon_real(obs), canon_model(model_lines[idx])
            if real != model:
                diff = [k for k in real if real[k] != model[k]]
                ctx.disagree({'tokens': toks}, real, model, 'bus observables differ in %s' % diff)


def corpus_cases():
    import os
    d = os.path.join(common.CORPUS, PROPERTY)
    out = []
    if os.path.isdir(d):
        for f in sorted(os.listdir(d)):
            if f.endswith('.json'):
                out.append(json.load(open(os.path.join(d, f)))['tokens'])
    return out


def run(ctx):
    # known findings: replay the recorded witnesses first
    for e in ctx.known:
        if e.get('status') == 'known':
            check_cases(ctx, [e['witness']['tokens']], compare=True)
    check_cases(ctx, corpus_cases())
    n = ctx.budget(2500, 60000)
    cases = [gen_case(ctx.rng, big=(i % 10 == 9)) for i in range(n)]
    check_cases(ctx, cases)
    if not ctx.quick():
        small = list(enum_small())
        check_cases(ctx, small)
        ctx.extra['exhaustive_small_scope'] = len(small)


def search(ctx, around=None):
    """Deeper hunt for an input on which the property itself fails on the real code."""
    cases = [gen_case(ctx.rng, big=(i % 3 == 0)) for i in range(ctx.budget(8000, 40000))]
    check_cases(ctx, cases, compare=False)
    if not ctx.oracle_failures:
        small = list(enum_small())
        if ctx.quick():
            small = ctx.rng.sample(small, 25000)
        check_cases(ctx, small, compare=False)


def replay(ctx, case):
    toks = case['tokens']
    obs = run_real(toks)
    print('tokens :', ' '.join(toks))
    print('impl   :', json.dumps(canon_real(obs)))
    m = ctx.model([' '.join(toks)])
    if m:
        print('model  :', json.dumps(canon_model(m[0])))
    check_cases(ctx, [toks])
