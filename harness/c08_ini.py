"""C08 - the INI layer under `reprconf.Parser.as_dict`: option names through `optionxform` (identity for
`Parser`, lower-casing for the stock parser), the `[DEFAULT]` section, `%(name)s` interpolation.
Model: lean/CpModel/ConfigIni.lean, theorems: lean/CpProofs/C08Ini.lean.
"""
import configparser
import io
import json

from . import c02_tree as T

OPTION_NAMES = ['a', 'b', 'A', 'k1', 'my.dir', 'tools.x.on', 'B', 'c']
SECTION_NAMES = ['/', '/a', 'global', '/A', 'my']
PLAIN = ['1', "'s'", '[1, 2]', 'True', "{'k': (1, 2)}", "'two words'", '-3', 'None']
REFS = ['%(a)s', '%(A)s', '%(b)s', '%(c)s', "%(a)s + 1", "[%(a)s, %(b)s]", "'100%%'", '%%', "'%%(a)s'", '%(nosuch)s', '%(a',
        '%()s', "'50%'", '%(a)d', '%(my.dir)s', "%(k1)s", '%(a)s%(b)s', '%(B)s']
ERRS = {'InterpolationSyntaxError': 'syntax', 'InterpolationMissingOptionError': 'missing',
        'InterpolationDepthError': 'depth', 'DuplicateOptionError': 'duplicate'}


BAD_REFS = ['%(nosuch)s', '%(a', '%()s', "'50%'", '%(a)d', '%', '%(a)']


def gen_value(rng, present):
    r = rng.random()
    if r < 0.5 or not present:
        return rng.choice(PLAIN)
    if r < 0.9:
        n = rng.choice(present) if rng.random() < 0.85 else rng.choice(OPTION_NAMES)
        return rng.choice(['%%(%s)s', '%%(%s)s + 1', '[%%(%s)s, 2]', "'%%%%(%s)s'", '%%(%s)s%%(%s)s']).replace('%s', n) % ()
    if r < 0.94:
        return rng.choice(["'100%%'", '%%', "'a%%b'"])
    return rng.choice(BAD_REFS)


def gen_ini_case(rng):
    dnames = rng.sample(OPTION_NAMES, rng.choice([0, 0, 1, 2, 3]))
    secs = []
    for s in rng.sample(SECTION_NAMES, rng.choice([1, 2, 3])):
        names = rng.sample(OPTION_NAMES, rng.choice([0, 1, 2, 3, 4]))
        present = names + [d for d in dnames if d not in names]
        secs.append([s, [[n, gen_value(rng, [x for x in present if x != n])] for n in names]])
    # a DEFAULT option may refer to options that only some sections have
    dflt = [[n, gen_value(rng, [x for x in dnames + rng.sample(OPTION_NAMES, 1) if x != n])] for n in dnames]
    return {'ini': {'defaults': dflt, 'sections': secs}}


def ini_text(doc):
    out = []
    if doc['defaults']:
        out.append('[DEFAULT]')
        out += ['%s = %s' % (n, v) for n, v in doc['defaults']]
        out.append('')
    for s, os_ in doc['sections']:
        out.append('[%s]' % s)
        out += ['%s = %s' % (n, v) for n, v in os_]
        out.append('')
    return '\n'.join(out)


def run_parser(parser, text):
    """(texts per section in as_dict's order | error kind)"""
    try:
        parser.read_file(io.StringIO(text))
        out = []
        for section in parser.sections():
            row = []
            for option in parser.options(section):
                row.append([option, parser.get(section, option)])
            out.append([section, row])
        return ('ok', out)
    except configparser.Error as e:
        return ('err', ERRS.get(type(e).__name__, 'other:' + type(e).__name__))
    except Exception as e:
        return ('err', 'other:' + type(e).__name__)


def ref_texts(doc):
    """The documented INI meaning for `Parser` (case kept): every section holds its own options plus the
    DEFAULT ones it does not override; `%(name)s` stands for that option's text, `%%` for a percent sign.
    None where the documentation promises an error (or nothing)."""
    names = [n for n, _ in doc['defaults']]
    if len(set(names)) != len(names):
        return None
    dflt = dict(doc['defaults'])
    out = []
    for s, os_ in doc['sections']:
        names = [n for n, _ in os_]
        if len(set(names)) != len(names):
            return None
        own = dict(os_)
        both = dict(dflt)
        both.update(own)

        def expand(text, depth):
            if depth > 10:
                raise ValueError('depth')
            res, i = '', 0
            while i < len(text):
                c = text[i]
                if c != '%':
                    res += c
                    i += 1
                elif text[i + 1:i + 2] == '%':
                    res += '%'
                    i += 2
                elif text[i + 1:i + 2] == '(':
                    j = text.find(')', i)
                    if j < 0 or j == i + 2 or text[j + 1:j + 2] != 's':
                        raise ValueError('syntax')
                    v = both[text[i + 2:j]]
                    res += expand(v, depth + 1) if '%' in v else v
                    i = j + 2
                else:
                    raise ValueError('syntax')
            return res
        row = []
        for n in list(own) + [d for d in dflt if d not in own]:
            try:
                row.append([n, expand(both[n], 1)])
            except (ValueError, KeyError):
                return None
        out.append([s, row])
    return out


def enc_opts(os_):
    return ','.join('%s~%s' % (T.enc_text(n), T.enc_text(v)) for n, v in os_) or 'E'


def check_ini_cases(ctx, cases, compare_model=True):
    from cherrypy.lib import reprconf
    lines, meta = [], []
    for case in cases:
        doc = case['ini']
        text = ini_text(doc)
        ctx.case(case, nontrivial=True, key='ini:' + json.dumps(doc, sort_keys=True))
        got = run_parser(reprconf.Parser(), text)
        stock = run_parser(configparser.ConfigParser(), text)
        ctx.count('ini:' + (got[0] if got[0] == 'ok' else 'err:' + got[1]))
        want = ref_texts(doc)
        if want is not None and (got[0] != 'ok' or got[1] != want):
            ctx.oracle_fail(case, 'Parser reads the file\n%s\nas %s, its INI meaning is %s' % (text, got, want), 'ini_layer')
        if got[0] == 'ok':
            # as_dict = unrepr of exactly these texts (or ValueError when one of them is not valid Python)
            try:
                d = ('ok', reprconf.Parser.load(io.StringIO(text)))
            except ValueError:
                d = ('err', 'ValueError')
            except Exception as e:
                d = ('err', type(e).__name__)
            try:
                ev = ('ok', dict((s, dict((o, reprconf.unrepr(t)) for o, t in row)) for s, row in got[1]))
            except Exception:
                ev = ('err', 'ValueError')
            same = d[0] == ev[0] and (d[0] == 'err' or repr(d[1]) == repr(ev[1]))
            if not same:
                ctx.oracle_fail(case, 'as_dict of the file\n%s\ngives %s, unrepr of the option texts gives %s' % (text, d, ev),
                                'ini_as_dict')
        secs = ';'.join('%s|%s' % (T.enc_text(s), enc_opts(os_)) for s, os_ in doc['sections']) or '-'
        for xf, res in (('I', got), ('L', stock)):
            lines.append('ini %s %s %s' % (xf, enc_opts(doc['defaults']), secs))
            meta.append((case, xf, res))
    if not compare_model:
        return
    out = ctx.model(lines)
    if out is None:
        return
    for (case, xf, res), mline in zip(meta, out):
        ctx.compared()
        if res[0] == 'ok':
            mine = 'ok ' + (';'.join('%s|%s' % (T.enc_text(s), enc_opts(row)) for s, row in res[1]) or '-')
        else:
            mine = 'err ' + res[1]
        if mine != mline:
            ctx.disagree(case, mine, mline, 'INI layer (%s optionxform) differs' % ('identity' if xf == 'I' else 'lower-casing'))
