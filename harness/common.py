"""Shared machinery for every property check (see DESIGN.md sections 1, 2, 10).

A per-property module `harness/cNN.py` declares

    PROPERTY     = "C18"
    THEOREMS     = ["CpProofs.C18.all_run_in_order", ...]   # Lean names; each one is an obligation
    LEAN_TARGETS = ["CpProofs.C18", "drv_c18"]              # lake targets built on every run
    DRIVER       = "drv_c18"                                # or None
    TRUSTED_BASE = [...]; ASSUMPTIONS = [...]; RULE = "how cases are generated / what is non-trivial"
    def tables(ctx) -> {relative lean path: content}        # optional: regenerated from /repo
    def run(ctx)                                            # corpus + generated cases
    def search(ctx, around=None)                            # optional: deeper hunt for a failing input
    def replay(ctx, case)                                   # re-run one case, report through ctx

and reports through the `Ctx` methods below.  `main()` applies the verdict rule:

  oracle failure (property predicate false on the real code)  -> VIOLATION (or KNOWN-FINDING)
  model/implementation disagreement, or Lean build/audit broken
        -> search for a failing input; report it, or report `no-failing-input-found`
  harness error / timeout -> exit 2
"""
from __future__ import annotations

import fcntl
import hashlib
import importlib
import json
import os
import random
import re
import subprocess
import sys
import time
import traceback

HERE = os.path.dirname(os.path.abspath(__file__))
# The code under test is whatever `import cherrypy` finds: /repo (editable install in /venv) unless
# CHERRYPY_REPO points at a scratch worktree (used only for self-tests against seeded changes).
if os.environ.get('CHERRYPY_REPO') and os.environ['CHERRYPY_REPO'] != '/repo':
    sys.path.insert(0, os.environ['CHERRYPY_REPO'])
VERIF = os.path.dirname(HERE)
LEAN = os.path.join(VERIF, 'lean')
REPO = os.environ.get('CHERRYPY_REPO', '/repo')
EVIDENCE = os.path.join(VERIF, 'evidence')
REPLAYS = os.path.join(EVIDENCE, 'replays')
CORPUS = os.path.join(VERIF, 'corpus')
FINDINGS = os.path.join(VERIF, 'findings')
ALLOWED_AXIOMS = {'propext', 'Classical.choice', 'Quot.sound'}
FORBIDDEN = re.compile(
    r'\b(sorry|admit|native_decide|bv_decide|implemented_by|unsafe)\b|^\s*axiom\s|maxHeartbeats\s+0',
    re.M)
BASE_TRUST = [
    "Lean 4.33 kernel; axioms limited to propext, Classical.choice, Quot.sound (audited by "
    "`#print axioms` on every run; no sorry/admit/native_decide/bv_decide/own axioms)",
    "hand-written Lean model = description of the code only as far as this run's correspondence "
    "(differential) stream exercised it",
    "the Python harness: generators, canonicalisers, oracle, line protocol; CPython 3.12 semantics of "
    "the primitives the model transcribes",
]


class HarnessError(Exception):
    """Something in the machinery (not in cherrypy) went wrong: exit 2."""


class _Alarm(BaseException):
    pass


def _with_alarm(seconds, fn):
    """Run fn() in the main thread under SIGALRM; raise _Alarm when it does not return in time."""
    import signal
    if seconds <= 0 or not hasattr(signal, 'SIGALRM'):
        return fn()

    def _handler(signum, frame):
        raise _Alarm()
    old = signal.signal(signal.SIGALRM, _handler)
    signal.alarm(seconds)
    try:
        return fn()
    finally:
        signal.alarm(0)
        signal.signal(signal.SIGALRM, old)


def start_watchdog(tier):
    """Last line of defence against a hang (of the harness or of code under test that no per-property
    guard caught): after VERIF_WATCHDOG seconds the process prints HARNESS-TIMEOUT and exits 2."""
    import threading
    limit = int(os.environ.get('VERIF_WATCHDOG', '2400' if tier == 'quick' else '14400'))
    if limit <= 0:
        return

    def _bark():
        time.sleep(limit)
        try:
            sys.stdout.write('HARNESS-TIMEOUT: check still running after %d s (watchdog)\n' % limit)
            sys.stdout.flush()
        finally:
            try:
                os.killpg(os.getpgid(0), 15) if os.environ.get('VERIF_WATCHDOG_KILLPG') else None
            finally:
                os._exit(2)
    threading.Thread(target=_bark, name='verif-watchdog', daemon=True).start()


def _strip_lean_comments(src: str) -> str:
    out, i, depth, n = [], 0, 0, len(src)
    while i < n:
        if src.startswith('/-', i):
            depth += 1
            i += 2
        elif depth and src.startswith('-/', i):
            depth -= 1
            i += 2
        elif depth:
            i += 1
        elif src.startswith('--', i):
            j = src.find('\n', i)
            i = n if j < 0 else j
        elif src[i] == '"':
            j = i + 1
            while j < n and src[j] != '"':
                j += 2 if src[j] == '\\' else 1
            out.append('""')
            i = j + 1
        else:
            out.append(src[i])
            i += 1
    return ''.join(out)


def lean_sources():
    for root, dirs, files in os.walk(LEAN):
        dirs[:] = [d for d in dirs if d not in ('.lake', '.audit')]
        for f in files:
            if f.endswith('.lean'):
                yield os.path.join(root, f)


_IMPORT = re.compile(r'^\s*(?:public\s+)?import\s+([A-Za-z0-9_.]+)', re.M)


def lean_closure(mod):
    """Source files in the import closure of the property's own Lean modules (its proofs and driver)."""
    exe_roots = {}
    try:
        lf = open(os.path.join(LEAN, 'lakefile.toml')).read()
        for m in re.finditer(r'name = "(drv_\w+)"\s+root = "([\w.]+)"', lf):
            exe_roots[m.group(1)] = m.group(2)
    except OSError:
        pass
    todo = [exe_roots.get(t, t) for t in getattr(mod, 'LEAN_TARGETS', [])]
    todo += list(getattr(mod, 'AUDIT_IMPORTS', []))
    seen, files = set(), []
    while todo:
        m = todo.pop()
        if m in seen:
            continue
        seen.add(m)
        path = os.path.join(LEAN, *m.split('.')) + '.lean'
        if not os.path.exists(path):
            continue
        files.append(path)
        todo += _IMPORT.findall(open(path).read())
    return sorted(files)


class LeanStatus:
    def __init__(self):
        self.build_ok = False
        self.build_log = ''
        self.driver_ok = False
        self.audit = {}            # theorem -> sorted list of axioms, or None when missing
        self.forbidden = []        # "file:line: token"
        self.tables_changed = []
        self.tables_problem = None # tables() hung / raised on the live modules (tie model<->code broken)
        self.leanchecker = None
        self.wall = 0.0

    @property
    def discharged(self):
        return [t for t, ax in self.audit.items() if ax is not None and set(ax) <= ALLOWED_AXIOMS]

    @property
    def ok(self):
        return (self.build_ok and not self.forbidden and not self.tables_problem
                and len(self.discharged) == len(self.audit) and len(self.audit) > 0)

    def problems(self):
        p = []
        if not self.build_ok:
            p.append('lake build failed: ' + self.build_log[-1500:])
        p += ['forbidden token ' + f for f in self.forbidden]
        if self.tables_problem:
            p.append(self.tables_problem)
        for t, ax in self.audit.items():
            if ax is None:
                p.append('theorem %s not found / not checked' % t)
            elif not set(ax) <= ALLOWED_AXIOMS:
                p.append('theorem %s depends on axioms %s' % (t, ax))
        return p


def _run(cmd, cwd=None, timeout=3600, env=None):
    r = subprocess.run(cmd, cwd=cwd, stdout=subprocess.PIPE, stderr=subprocess.STDOUT,
                       timeout=timeout, env=env)
    out = r.stdout.decode('utf-8', 'replace')
    out = '\n'.join(l for l in out.splitlines() if 'conda' not in l.lower() or 'warning' not in l.lower())
    return r.returncode, out


def lean_prepare(mod, ctx) -> LeanStatus:
    """Regenerate tables from /repo, build the property's Lean targets, audit axioms.

    Serialised across concurrent checks by a lock file (lake's build directory is shared).
    """
    st = LeanStatus()
    t0 = time.time()
    os.makedirs(os.path.join(LEAN, '.audit'), exist_ok=True)
    # tables() executes the code under test: it runs OUTSIDE the global build lock and under a time
    # limit, so that a change to /repo that makes an introspected function hang cannot block the other
    # checks (or this one forever).  A table that cannot be regenerated is a broken tie between model
    # and code: it is reported like a broken proof obligation (verdict rule: search, then VIOLATION).
    new_tables, tables_problem = {}, None
    if hasattr(mod, 'tables'):
        try:
            new_tables = _with_alarm(int(os.environ.get('VERIF_TABLES_TIMEOUT', '300')),
                                     lambda: mod.tables(ctx))
        except _Alarm:
            tables_problem = 'tables(): regenerating the tables from the live modules did not finish in time'
        except HarnessError:
            raise
        except Exception as e:      # the introspected code raised: the tie is broken, not the harness
            tables_problem = 'tables(): %r while regenerating the tables from the live modules' % (e,)
    lockf = open(os.path.join(VERIF, '.lock'), 'w')
    fcntl.flock(lockf, fcntl.LOCK_EX)
    try:
        st.tables_problem = tables_problem
        if new_tables:
            for rel, content in new_tables.items():
                path = os.path.join(LEAN, rel)
                old = open(path).read() if os.path.exists(path) else None
                if old != content:
                    os.makedirs(os.path.dirname(path), exist_ok=True)
                    with open(path, 'w') as f:
                        f.write(content)
                    st.tables_changed.append(rel)
        targets = list(getattr(mod, 'LEAN_TARGETS', []))
        rc, out = _run(['lake', 'build'] + targets, cwd=LEAN)
        st.build_ok = rc == 0
        st.build_log = out
        drv = getattr(mod, 'DRIVER', None)
        if drv:
            if st.build_ok:
                st.driver_ok = True
            else:
                rc2, _ = _run(['lake', 'build', drv], cwd=LEAN)
                st.driver_ok = rc2 == 0
            if st.driver_ok:
                copy = _private_driver_copy(drv)
                if copy and getattr(ctx, 'driver', None) is not None and ctx.driver.name == drv:
                    ctx.driver.path = copy
        # forbidden tokens anywhere in the Lean sources (comments and strings stripped)
        closure = lean_closure(mod)
        for path in closure:
            code = _strip_lean_comments(open(path).read())
            for m in FORBIDDEN.finditer(code):
                st.forbidden.append('%s: %r' % (os.path.relpath(path, LEAN), m.group(0).strip()))
        # axiom audit
        thms = list(mod.THEOREMS)
        st.audit = {t: None for t in thms}
        if st.build_ok and thms:
            mods = sorted({t for t in getattr(mod, 'AUDIT_IMPORTS', [])} or
                          {tg for tg in targets if tg.startswith('CpProofs')})
            src = ''.join('import %s\n' % m for m in mods) + ''.join('#print axioms %s\n' % t for t in thms)
            key = hashlib.sha256()
            key.update(src.encode())
            for path in closure:
                key.update(path.encode())
                key.update(open(path, 'rb').read())
            cache = os.path.join(LEAN, '.audit', mod.PROPERTY + '.cache.json')
            cached = None
            if os.path.exists(cache):
                try:
                    c = json.load(open(cache))
                    if c.get('key') == key.hexdigest():
                        cached = c['audit']
                except Exception:
                    cached = None
            if cached is None:
                apath = os.path.join(LEAN, '.audit', mod.PROPERTY + '.lean')
                with open(apath, 'w') as f:
                    f.write(src)
                rc, out = _run(['lake', 'env', 'lean', apath], cwd=LEAN)
                cached = parse_axioms(out, thms)
                if rc == 0:
                    json.dump({'key': key.hexdigest(), 'audit': cached}, open(cache, 'w'))
                else:
                    st.build_log += '\n[audit] ' + out[-1500:]
            st.audit = {t: cached.get(t) for t in thms}
        # thorough tier: independent re-check of the compiled proof modules with leanchecker
        if st.build_ok and ctx.tier == 'thorough' and not os.environ.get('VERIF_NO_LEANCHECKER'):
            mods = [tg for tg in targets if tg.startswith('CpProofs')]
            if mods:
                rc, out = _run(['lake', 'env', 'leanchecker'] + mods, cwd=LEAN, timeout=1800)
                st.leanchecker = {'modules': mods, 'ok': rc == 0, 'output': out[-400:]}
                if rc != 0:
                    st.build_ok = False
                    st.build_log += '\n[leanchecker] ' + out[-1500:]
    finally:
        fcntl.flock(lockf, fcntl.LOCK_UN)
        lockf.close()
    st.wall = time.time() - t0
    return st


def parse_axioms(out, thms):
    res = {}
    # "'Foo.bar' depends on axioms: [propext, Quot.sound]"  /  "'Foo.bar' does not depend on any axioms"
    flat = re.sub(r'\s+', ' ', out)
    for m in re.finditer(r"'([^']+)' depends on axioms: \[([^\]]*)\]", flat):
        res[m.group(1)] = sorted(a.strip() for a in m.group(2).split(',') if a.strip())
    for m in re.finditer(r"'([^']+)' does not depend on any axioms", flat):
        res[m.group(1)] = []
    return {t: res.get(t) for t in thms}


_PRIVATE_DRIVERS = {}     # driver name -> path of this process's private copy of the binary


def _private_driver_copy(name):
    """Copy the freshly built driver binary to a private temporary file (called under the build lock)."""
    import atexit
    import shutil
    import tempfile
    src = os.path.join(LEAN, '.lake', 'build', 'bin', name)
    if not os.path.exists(src):
        return None
    d = tempfile.mkdtemp(prefix='verif-drv-')
    dst = os.path.join(d, name)
    shutil.copy2(src, dst)
    owner = os.getpid()

    def _cleanup():
        if os.getpid() == owner:          # forked workers must not remove the parent's copy
            shutil.rmtree(d, ignore_errors=True)
    atexit.register(_cleanup)
    _PRIVATE_DRIVERS[name] = dst
    return dst


class Driver:
    """The compiled Lean model behind the line protocol."""

    def __init__(self, name):
        self.name = name
        # a private copy taken under the build lock (lean_prepare), when there is one: the shared
        # .lake/build/bin/<name> may be rebuilt by a concurrent check of another tree while this run lasts
        self.path = _PRIVATE_DRIVERS.get(name) or os.path.join(LEAN, '.lake', 'build', 'bin', name)
        self.lines = 0

    def available(self):
        return os.path.exists(self.path)

    def __call__(self, lines):
        lines = list(lines)
        if not lines:
            return []
        for l in lines:
            if '\n' in l:
                raise HarnessError('newline inside a driver line')
        data = ('\n'.join(lines) + '\n').encode('utf-8')
        r = subprocess.run([self.path], input=data, stdout=subprocess.PIPE, stderr=subprocess.PIPE,
                           timeout=3600)
        if r.returncode != 0:
            raise HarnessError('driver %s exited %d: %s' % (self.name, r.returncode, r.stderr[-500:]))
        out = r.stdout.decode('utf-8').split('\n')
        if out and out[-1] == '':
            out.pop()
        if len(out) != len(lines):
            raise HarnessError('driver %s: %d lines in, %d out' % (self.name, len(lines), len(out)))
        for i, o in enumerate(out):
            if o == 'bad-op':
                raise HarnessError('driver %s rejected line: %s' % (self.name, lines[i][:300]))
        self.lines += len(lines)
        return out


def load_known(prop):
    """Entries of findings/<prop>.json (committed; never written at run time)."""
    path = os.path.join(FINDINGS, prop + '.json')
    if not os.path.exists(path):
        return []
    data = json.load(open(path))
    return [e for e in data.get('findings', []) if e.get('property', prop) == prop]


class Ctx:
    def __init__(self, mod, tier, seed):
        self.mod = mod
        self.prop = mod.PROPERTY
        self.tier = tier
        self.seed = seed
        self.rng = random.Random((seed << 8) ^ int(hashlib.sha256(self.prop.encode()).hexdigest()[:8], 16))
        self.lean = None
        self.driver = Driver(mod.DRIVER) if getattr(mod, 'DRIVER', None) else None
        self.evaluations = 0
        self._nontrivial = set()
        self.samples = []
        self.hist = {}
        self.oracle_failures = []      # (case, what, signature)
        self.disagreements = []        # (case, impl, model, what)
        self.disagreements_checked = 0  # cases on which model and implementation were compared
        self.known_seen = {}           # finding id -> text
        self.known = [e for e in load_known(self.prop)]
        self.notes = []
        self.extra = {}
        self.t0 = time.time()
        self.searching = False

    # ---- counters -------------------------------------------------------------------------
    def quick(self):
        return self.tier == 'quick'

    def budget(self, quick, thorough):
        return quick if self.tier == 'quick' else thorough

    def count(self, key, n=1):
        self.hist[key] = self.hist.get(key, 0) + n

    def case(self, case, nontrivial=True, key=None):
        """Register one explored case; `key` identifies it for distinct counting."""
        self.evaluations += 1
        if nontrivial:
            k = key if key is not None else json.dumps(case, sort_keys=True, default=repr)
            self._nontrivial.add(hashlib.sha1(str(k).encode('utf-8', 'replace')).digest()[:10])
        if len(self.samples) < 5 or (self.evaluations % 997 == 0 and len(self.samples) < 12):
            self.samples.append(_clip(case))

    def compared(self, n=1):
        self.disagreements_checked += n

    # ---- findings -------------------------------------------------------------------------
    def match_known(self, signature):
        if signature is None:
            return None
        for e in self.known:
            if e.get('status') == 'known' and e.get('signature') == signature:
                return e
        return None

    def oracle_fail(self, case, what, signature=None):
        """The property's own predicate is false on the real code for this case."""
        e = self.match_known(signature)
        if e is not None:
            self.known_seen.setdefault(e['id'], e.get('text', ''))
            self.count('known:' + e['id'])
            return
        self.oracle_failures.append((case, what, signature))

    def disagree(self, case, impl, model, what=''):
        """Model and implementation differ on a compared observable (the oracle held)."""
        self.disagreements.append((case, impl, model, what))

    def note(self, s):
        self.notes.append(s)

    def lean_ok(self):
        return self.lean is not None and self.lean.ok

    def model(self, lines):
        if self.driver is None or not (self.lean and self.lean.driver_ok and self.driver.available()):
            return None
        return self.driver(lines)


def _clip(x, n=600):
    s = json.dumps(x, default=repr, sort_keys=True)
    if len(s) <= n:
        return json.loads(s)
    return s[:n] + '…'


def write_replay(prop, payload):
    os.makedirs(REPLAYS, exist_ok=True)
    blob = json.dumps(payload, sort_keys=True, default=repr, indent=1)
    name = '%s-%s.json' % (prop, hashlib.sha1(blob.encode()).hexdigest()[:12])
    path = os.path.join(REPLAYS, name)
    with open(path, 'w') as f:
        f.write(blob)
    return os.path.relpath(path, VERIF)


def shrink_list(items, still_fails, max_rounds=200):
    """Greedy delta-debugging over a list: drop chunks, then single elements."""
    items = list(items)
    n = 2
    rounds = 0
    while len(items) >= 2 and rounds < max_rounds:
        rounds += 1
        chunk = max(1, len(items) // n)
        reduced = False
        for i in range(0, len(items), chunk):
            cand = items[:i] + items[i + chunk:]
            if cand != items and still_fails(cand):
                items = cand
                n = max(n - 1, 2)
                reduced = True
                break
        if not reduced:
            if chunk == 1:
                break
            n = min(len(items), n * 2)
    return items


def parallel_map(fn, args, procs=None):
    """Run fn over args in forked worker processes (fn must be picklable / module level)."""
    import multiprocessing as mp
    procs = procs or min(16, os.cpu_count() or 4)
    if procs <= 1 or len(args) <= 1:
        return [fn(a) for a in args]
    with mp.get_context('fork').Pool(procs) as pool:
        return pool.map(fn, args, chunksize=1)


def write_evidence(ctx, violations, wall):
    mod, st = ctx.mod, ctx.lean
    thms = list(mod.THEOREMS)
    discharged = len(st.discharged) if st else 0
    cov = {
        'obligations': len(thms),
        'discharged': discharged,
        'checker_cmd': 'cd lean && lake build %s && lake env lean .audit/%s.lean  # #print axioms of every listed theorem'
                       % (' '.join(getattr(mod, 'LEAN_TARGETS', [])), mod.PROPERTY),
        'trusted_base': BASE_TRUST + list(getattr(mod, 'TRUSTED_BASE', [])),
        'theorems': {t: (st.audit.get(t) if st else None) for t in thms},
        'lean_build_ok': bool(st and st.build_ok),
        'lean_problems': st.problems() if st else ['lean not run'],
        'tables_regenerated': st.tables_changed if st else [],
        'leanchecker': st.leanchecker if st else None,
        'evaluations': ctx.evaluations,
        'distinct_nontrivial': len(ctx._nontrivial),
        'rule': getattr(mod, 'RULE', ''),
        'samples': ctx.samples or ['(no generated cases in this mode)'],
        'disagreements_checked': ctx.disagreements_checked,
        'model_impl_disagreements': len(ctx.disagreements),
        'driver_lines': ctx.driver.lines if ctx.driver else 0,
        'distribution': dict(sorted(ctx.hist.items())),
        'known_findings_seen': sorted(ctx.known_seen),
        'notes': ctx.notes[:40],
        'exhaustive': bool(ctx.extra.get('exhaustive', False)),
    }
    cov.update({k: v for k, v in ctx.extra.items() if k != 'exhaustive'})
    ev = {
        'property_id': ctx.prop,
        'tier': ctx.tier,
        'seed': ctx.seed,
        'level': getattr(mod, 'LEVEL', 'proof'),
        'coverage': cov,
        'assumptions': list(getattr(mod, 'ASSUMPTIONS', [])),
        'wall_s': round(wall, 2),
        'violations': violations,
    }
    os.makedirs(EVIDENCE, exist_ok=True)
    tmp = os.path.join(EVIDENCE, ctx.prop + '.json.tmp')
    with open(tmp, 'w') as f:
        json.dump(ev, f, indent=1, sort_keys=True, default=repr)
    os.replace(tmp, os.path.join(EVIDENCE, ctx.prop + '.json'))


def main(argv=None):
    argv = list(sys.argv[1:] if argv is None else argv)
    if not argv:
        print('usage: check <ID> [--tier quick|thorough] [--replay FILE]')
        return 2
    prop = argv[0].upper()
    tier = os.environ.get('VERIF_TIER', 'quick')
    replay = None
    i = 1
    while i < len(argv):
        if argv[i] == '--tier':
            tier = argv[i + 1]
            i += 2
        elif argv[i] == '--replay':
            replay = argv[i + 1]
            i += 2
        else:
            print('unknown argument', argv[i])
            return 2
    if tier not in ('quick', 'thorough'):
        tier = 'quick'
    try:
        seed = int(os.environ.get('VERIF_SEED', '0'))
    except ValueError:
        seed = 0
    t0 = time.time()
    sys.path.insert(0, VERIF)
    try:
        mod = importlib.import_module('harness.' + prop.lower())
    except ImportError as e:
        print('no check module for', prop, e)
        return 2
    ctx = Ctx(mod, tier, seed)
    start_watchdog(tier)
    try:
        ctx.lean = lean_prepare(mod, ctx)
        if replay is not None:
            payload = json.load(open(replay if os.path.isabs(replay) else os.path.join(VERIF, replay)))
            if payload.get('kind') == 'theorem' and not hasattr(mod, 'replay_theorem'):
                probs = ctx.lean.problems()
                print('lean status:', 'ok' if ctx.lean.ok else 'BROKEN')
                for p in probs:
                    print('  ' + p[:2000])
                return 0 if ctx.lean.ok else 1
            mod.replay(ctx, payload.get('case', payload))
            for case, what, sig in ctx.oracle_failures:
                print('ORACLE-FAIL:', what)
            for case, impl, model, what in ctx.disagreements:
                print('DISAGREE:', what, '\n  impl :', impl, '\n  model:', model)
            for k, v in ctx.known_seen.items():
                print('KNOWN-FINDING: property=%s %s %s' % (prop, k, v))
            return 1 if (ctx.oracle_failures or ctx.disagreements) else 0
        mod.run(ctx)
        # --- verdict --------------------------------------------------------------------
        needs_search = (not ctx.lean.ok) or bool(ctx.disagreements)
        if needs_search and not ctx.oracle_failures and hasattr(mod, 'search'):
            ctx.searching = True
            ctx.note('search triggered: lean_ok=%s disagreements=%d' % (ctx.lean.ok, len(ctx.disagreements)))
            around = ctx.disagreements[0][0] if ctx.disagreements else None
            mod.search(ctx, around)
        lines = []
        if ctx.oracle_failures:
            seen = set()
            for case, what, sig in ctx.oracle_failures:
                k = sig or what
                if k in seen:
                    continue
                seen.add(k)
                if len(seen) > 5:
                    break
                path = write_replay(prop, {'property': prop, 'kind': 'input', 'case': case,
                                           'oracle_failed': what, 'signature': sig, 'seed': seed,
                                           'tier': tier})
                lines.append('VIOLATION property=%s replay=%s' % (prop, path))
                print('  oracle failed: %s' % what[:500])
        elif ctx.disagreements:
            case, impl, model, what = ctx.disagreements[0]
            path = write_replay(prop, {'property': prop, 'kind': 'correspondence', 'case': case,
                                       'impl_observed': impl, 'model_observed': model,
                                       'theorem_or_correspondence':
                                           'correspondence %s model vs /repo: %s' % (prop, what),
                                       'seed': seed, 'tier': tier,
                                       'n_disagreements': len(ctx.disagreements)})
            print('  model/implementation disagreement: %s\n    impl : %s\n    model: %s'
                  % (what, str(impl)[:400], str(model)[:400]))
            lines.append('VIOLATION property=%s replay=%s no-failing-input-found' % (prop, path))
        elif not ctx.lean.ok:
            path = write_replay(prop, {'property': prop, 'kind': 'theorem',
                                       'theorem_or_correspondence': ctx.lean.problems(),
                                       'tables_regenerated': ctx.lean.tables_changed,
                                       'seed': seed, 'tier': tier})
            for p in ctx.lean.problems()[:5]:
                print('  lean: ' + p[:800])
            lines.append('VIOLATION property=%s replay=%s no-failing-input-found' % (prop, path))
        for k, v in sorted(ctx.known_seen.items()):
            print('KNOWN-FINDING: property=%s %s %s' % (prop, k, v))
        write_evidence(ctx, len(lines), time.time() - t0)
        for l in lines:
            print(l)
        print('%s %s seed=%d: %d cases (%d distinct non-trivial), %d compared with the model, '
              '%d/%d theorems audited, %.1fs'
              % (prop, tier, seed, ctx.evaluations, len(ctx._nontrivial), ctx.disagreements_checked,
                 len(ctx.lean.discharged), len(mod.THEOREMS), time.time() - t0))
        return 1 if lines else 0
    except HarnessError as e:
        print('HARNESS-ERROR:', e)
        traceback.print_exc()
        return 2
    except subprocess.TimeoutExpired as e:
        print('HARNESS-TIMEOUT:', e)
        return 2
    except Exception as e:   # a bug in the harness is never a violation
        print('HARNESS-ERROR (unexpected):', repr(e))
        traceback.print_exc()
        return 2


if __name__ == '__main__':
    sys.exit(main())
