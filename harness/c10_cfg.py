"""C10 - the deeper part of the model tied to the live code:

* `cfg_probe`      aliasing probe for Dispatcher.find_handler / set_conf: write-journalling dicts as `_cp_config`
                   (class-, instance-, function-level, on a `default` handler) and as application config sections;
                   is the dict the code merges into identical to any long-lived dict?  -> Gen.C10.cfgTable
* `release_probe`  behaviour of the live Application.release_serving under the nine fault plans (listeners /
                   close() return, raise an Exception, raise another BaseException)  -> Gen.C10.releaseTable
* `cfg_io`         real history -> `CFG` driver line (tree shape, `_cp_config` cells by dict identity, sections,
                   global config, the requests in real order) + what every request really had in request.config
* `local_io`       random load / clear / setattr / getattr sequences on a real `_Serving()` from real threads
* `release_io`     the three transcribed release programs evaluated by the driver, against the measured table
"""
import io
import json
import sys
import threading

from . import common
from . import c10_site as S

import cherrypy
from cherrypy import _cprequest, _cptree
from cherrypy.lib import httputil

OUTS = ['ok', 'exc', 'base']


# ------------------------------------------------------------------------------------------------
# aliasing probe for the config merge
# ------------------------------------------------------------------------------------------------
class WatchDict(dict):
    """A dict that journals every mutation (who, how) into a shared list."""
    journal = None
    name = '?'

    def _note(self, how):
        if self.journal is not None:
            self.journal.append((self.name, how))

    def __setitem__(self, k, v):
        self._note('setitem')
        dict.__setitem__(self, k, v)

    def __delitem__(self, k):
        self._note('delitem')
        dict.__delitem__(self, k)

    def update(self, *a, **kw):
        self._note('update')
        dict.update(self, *a, **kw)

    def setdefault(self, k, d=None):
        self._note('setdefault')
        return dict.setdefault(self, k, d)

    def pop(self, *a):
        self._note('pop')
        return dict.pop(self, *a)

    def popitem(self):
        self._note('popitem')
        return dict.popitem(self)

    def clear(self):
        self._note('clear')
        dict.clear(self)

    def __ior__(self, other):
        self._note('ior')
        dict.update(self, other)
        return self


def _watch(journal, name, d):
    w = WatchDict(d)
    w.journal, w.name = journal, name
    return w


def _simple_call(app, path):
    out = {}
    env = {'REQUEST_METHOD': 'GET', 'SCRIPT_NAME': app.script_name, 'PATH_INFO': path, 'QUERY_STRING': '',
           'SERVER_NAME': 'localhost', 'SERVER_PORT': '80', 'SERVER_PROTOCOL': 'HTTP/1.1', 'HTTP_HOST': 'localhost',
           'wsgi.version': (1, 0), 'wsgi.url_scheme': 'http', 'wsgi.input': io.BytesIO(), 'wsgi.errors': sys.stderr,
           'wsgi.multithread': True, 'wsgi.multiprocess': False, 'wsgi.run_once': False}

    def start_response(status, headers, exc_info=None):
        out['status'] = status
    try:
        res = app(env, start_response)
        try:
            out['body'] = b''.join(res)
        finally:
            if hasattr(res, 'close'):
                res.close()
    except BaseException as e:          # an observation
        out['exc'] = type(e).__name__
    return out


def cfg_probe():
    """{'root': mode, 'node': mode, 'glob': mode, 'foreign': [writes to sections / default-handler config]}.
    Meant for a forked child (it serves requests)."""
    journal = []
    seen = []            # (path, id(request.config)) from inside the handlers

    def note():
        seen.append(cherrypy.serving.request.config)

    class Leaf(object):
        _cp_config = _watch(journal, 'node.cls', {'c10probe.cls': 1})

        def index(self):
            note()
            return b'leaf'
        index.exposed = True
        index._cp_config = _watch(journal, 'node.fn', {'c10probe.fn': 1})

        def default(self, *a):
            note()
            return b'default'
        default.exposed = True
        default._cp_config = _watch(journal, 'default', {'c10probe.default': 1})

    class Root(object):
        _cp_config = _watch(journal, 'root', {'c10probe.root': 1})

        def index(self):
            note()
            return b'root'
        index.exposed = True

    root = Root()
    root.a = Leaf()
    root.b = Leaf()
    root.b._cp_config = _watch(journal, 'node.inst', {'c10probe.inst': 1})
    conf = {'/': {'c10probe.s': 'root'}, '/index': {'c10probe.s2': 'rootindex'}, '/a': {'c10probe.s': 'a'},
            '/a/index': {'c10probe.s2': 'aindex'}, '/b': {'c10probe.s': 'b'}, '/b/index': {'c10probe.s2': 'bindex'},
            '/a/zzz': {'c10probe.s': 'virtual'}, '/a/zzz/index': {'c10probe.s2': 'virtualindex'}}
    app = _cptree.Application(root, '/c10cfgprobe', conf)
    for sect in list(app.config):
        app.config[sect] = _watch(journal, 'sect:' + sect, app.config[sect])
    glob_before = S.canon(dict(cherrypy.config))
    statuses = []
    for path in ('/', '/a/', '/b/', '/a/zzz/', '/a/', '/'):
        statuses.append(_simple_call(app, path).get('status', 'EXC')[:3])
    if statuses != ['200'] * 6:
        # the probe itself could not be served: the table says "unknown" = alias (the obligation breaks, search runs)
        return {'root': 'alias', 'node': 'alias', 'glob': 'alias', 'foreign': ['probe requests answered %s' % statuses]}
    who = {n for n, _ in journal}
    shared = {id(Root._cp_config): 'root', id(Leaf._cp_config): 'node', id(Leaf.index._cp_config): 'node',
              id(root.b._cp_config): 'node', id(cherrypy.config): 'glob'}
    ident = {shared[id(c)] for c in seen if id(c) in shared}
    glob_changed = S.canon(dict(cherrypy.config)) != glob_before
    return {'root': 'alias' if ('root' in who or 'root' in ident) else 'copy',
            'node': 'alias' if (who & {'node.cls', 'node.fn', 'node.inst'} or 'node' in ident) else 'copy',
            'glob': 'alias' if (glob_changed or 'glob' in ident) else 'copy',
            'foreign': sorted({n for n in who if n == 'default' or n.startswith('sect:')})}


# ------------------------------------------------------------------------------------------------
# behaviour of the live release_serving under fault plans
# ------------------------------------------------------------------------------------------------
class _ProbeBase(BaseException):
    """A BaseException that is neither KeyboardInterrupt nor SystemExit nor an Exception."""


def _raise(kind, what):
    if kind == 'exc':
        raise ValueError('c10 release probe: %s' % what)
    if kind == 'base':
        raise _ProbeBase('c10 release probe: %s' % what)


def release_probe():
    """{(pub, close): {'cleared', 'closed', 'raised'}} measured on Application.release_serving of the code under
    test, each plan on a thread of its own."""
    class Root(object):
        pass
    app = _cptree.Application(Root(), '/c10relprobe')
    table = {}
    for pub in OUTS:
        for close_how in OUTS:
            close = close_how
            state = {'closed': False}

            class Req(_cprequest.Request):
                def close(self, how=close_how, state=state):
                    state['closed'] = True
                    _raise(how, 'close')

            def listener(how=pub):
                _raise(how, 'after_request listener')

            obs = {}

            def body():
                req = Req(httputil.Host('127.0.0.1', 80), httputil.Host('127.0.0.1', 1111))
                req.app = app
                cherrypy.serving.load(req, _cprequest.Response())
                cherrypy.serving.c10_probe = 1
                cherrypy.engine.subscribe('after_request', listener)
                try:
                    try:
                        app.release_serving()
                        obs['raised'] = 'ok'
                    except Exception:
                        obs['raised'] = 'exc'
                    except BaseException:
                        obs['raised'] = 'base'
                    left = set(vars(cherrypy.serving))
                    obs['cleared'] = not (left & {'request', 'response', 'c10_probe'})
                    obs['closed'] = state['closed']
                finally:
                    cherrypy.engine.unsubscribe('after_request', listener)
                    cherrypy.serving.clear()
            th = threading.Thread(target=body, daemon=True)
            th.start()
            th.join(20)
            if th.is_alive() or 'cleared' not in obs:
                obs = {'raised': 'base', 'cleared': False, 'closed': False, 'hung': True}
            table[(pub, close)] = obs
    return table


def lean_cfg_release(cfg, rel):
    """The part of Gen/C10Tables.lean that comes from the two probes above."""
    lines = ['', '/-- How root `_cp_config`, node `_cp_config` and the global config enter find_handler\'s merge',
             '    (write-journalling dicts on a probe tree: is the dict merged into a long-lived one?). -/',
             'def cfgTable : CpModel.IsolationCfg.Table :=',
             '  { rootMode := .%s, nodeMode := .%s, globMode := .%s }' % (cfg['root'], cfg['node'], cfg['glob']),
             '', '/-- Writes into application config sections or a `default` handler\'s `_cp_config` seen by the probe. -/',
             'def cfgForeignWrites : Bool := %s' % ('true' if cfg['foreign'] else 'false'),
             '', '/-- Application.release_serving under the nine fault plans (after_request listeners × close()). -/',
             'def releaseTable : CpModel.IsolationRelease.RTable']
    for pub in OUTS:
        for close in OUTS:
            o = rel[(pub, close)]
            lines.append('  | .%s, .%s => { cleared := %s, closed := %s, raised := .%s }'
                         % (pub, close, 'true' if o['cleared'] else 'false', 'true' if o['closed'] else 'false', o['raised']))
    return '\n'.join(lines)


# ------------------------------------------------------------------------------------------------
# real history -> CFG driver line
# ------------------------------------------------------------------------------------------------
class _Intern(object):
    def __init__(self):
        self.d = {}

    def __call__(self, kind, s):
        return self.d.setdefault((kind, s), len(self.d) + 1)


def _items(intern, d):
    return ','.join('%d=%d' % (intern('k', str(k)), intern('v', json.dumps(S.canon(v), sort_keys=True)))
                    for k, v in d.items()) or '-'


def _nid(obj):
    f, s = getattr(obj, '__func__', None), getattr(obj, '__self__', None)
    return ('m', id(s), id(f)) if f is not None else ('o', id(obj))


def _segs(path):
    return [x for x in path.strip('/').split('/') if x]


def cfg_io(case, res):
    """(driver line, expected) for one executed case, or None.  expected = [(who, {key: value}) | None] per `Q`,
    then the long-lived dicts at the end."""
    if res.get('aborted'):
        return None
    site = res['site']
    intern = _Intern()
    toks = ['CFG', 'I:%d' % intern('n', 'index'), 'G:' + _items(intern, dict(cherrypy.config))]
    cells, cell_objs = {}, []          # id(dict) -> cell number

    def cell(d, kind):
        if id(d) not in cells:
            cells[id(d)] = len(cell_objs)
            cell_objs.append((kind, d))
            toks.append('%s:%d:%s' % (kind, cells[id(d)], _items(intern, d)))
        return cells[id(d)]
    plans = {}
    for bp, brec in res['baselines'].values():
        plans[bp['token']] = (bp, brec)
    for p, r in zip(case['plans'], res['records']):
        if r is not None:
            plans[p['token']] = (p, r)
    nodes = {}                          # app -> {nid: number}
    keep = []

    def node(ai, obj):
        m = nodes.setdefault(ai, {})
        k = _nid(obj)
        if k in m:
            return m[k]
        m[k] = len(m)
        keep.append(obj)
        cfg = getattr(obj, '_cp_config', None)
        dflt = getattr(obj, 'default', None) if not k[0] == 'm' else None
        dn = node(ai, dflt) if dflt is not None else None
        toks.append('N:%d:%d:%s:%d:%s' % (ai, m[k], '-' if not isinstance(cfg, dict) else cell(cfg, 'P'),
                                          1 if getattr(obj, 'exposed', False) else 0, '-' if dn is None else dn))
        return m[k]
    edges = set()

    def register(ai, path):
        app = site.apps[ai]
        if ai not in nodes:
            toks.append('A:%d:%d' % (ai, node(ai, app.root)))
            for sect, d in app.config.items():
                names = '.'.join(str(intern('n', x)) for x in _segs(sect)) or '-'
                toks.append('X:%d:%s:%d' % (ai, names, cell(d, 'S')))
        cur = app.root
        for name in _segs(path) + ['index']:
            sub = getattr(cur, name, None) if cur is not None else None
            if sub is None:
                break
            e = (ai, node(ai, cur), intern('n', name), node(ai, sub))
            if e not in edges:
                edges.add(e)
                toks.append('E:%d:%d:%d:%d' % e)
            cur = sub
        return '.'.join(str(intern('n', x)) for x in _segs(path)) or '-'
    expected = []
    last = None
    for ev in res['events']:
        kind, tok = ev[0], ev[1]
        if tok not in plans:
            continue
        plan, rec = plans[tok]
        if kind == 'B':
            sub = ev[2]
            snap = next((s for s in rec['snaps'] if s.get('sub', 0) == sub and s['stage'] == 'start:in'), None)
            # the path of a sub-request is the one the running request reports (redirect chains, fault redirects)
            seen_pi = snap['contents']['reqScalars'].get('path_info') if snap is not None else None
            path = plan['path'] if sub == 0 else seen_pi
            if plan.get('kind') == 'mwfail' or not isinstance(path, str):
                last = None
                continue
            toks.append('Q:%d:%s' % (plan['app'], register(plan['app'], path)))
            if snap is None or not isinstance(snap['contents'].get('config'), dict):
                expected.append(None)
            else:
                expected.append(('%s sub %d (app %d %s)' % (tok, sub, plan['app'], path),
                                 {intern('k', k): intern('v', json.dumps(v, sort_keys=True))
                                  for k, v in snap['contents']['config'].items()}))
            last = (tok, sub)
        elif kind == 'M' and last == (tok, ev[2]):
            op = plan['ops'][ev[3]]
            if op['op'] == 'config.set':
                toks.append('W:%d=%d' % (intern('k', op['marker']), intern('v', json.dumps(tok))))
    toks.append('H')
    final = {}
    for i, (kind, d) in enumerate(cell_objs):
        final['%s%d' % (kind.lower(), i)] = {intern('k', str(k)): intern('v', json.dumps(S.canon(v), sort_keys=True))
                                            for k, v in d.items()}
    final['g'] = {intern('k', str(k)): intern('v', json.dumps(S.canon(v), sort_keys=True))
                  for k, v in dict(cherrypy.config).items()}
    names = {v: k[1] for k, v in intern.d.items()}
    return ' '.join(toks), {'q': expected, 'final': final, 'names': names}


def _parse_items(s):
    if s in ('', '-'):
        return {}
    return {int(a): int(b) for a, b in (x.split('=') for x in s.split(','))}


def cfg_compare(exp, line):
    """None when the model's effective configs / final long-lived dicts equal the real ones."""
    parts = line.split(' ')
    qs = [p for p in parts if p.startswith('q[')]
    hs = [p for p in parts if p.startswith('H[')]
    if len(qs) != len(exp['q']) or len(hs) != 1:
        return ('number of observations', len(exp['q']), len(qs))
    nm = exp['names']

    def show(d):
        return {nm.get(k, k): nm.get(v, v) for k, v in sorted(d.items())}
    for e, q in zip(exp['q'], qs):
        if e is None:
            continue
        who, conf = e
        body, own = q[2:-1].rsplit(';', 1)
        got = _parse_items(body)
        if got != conf:
            diff = {k for k in set(got) | set(conf) if got.get(k) != conf.get(k)}
            return ('effective config of request %s' % who, show({k: conf[k] for k in diff if k in conf}),
                    show({k: got[k] for k in diff if k in got}))
        if own != 'own':
            return ('request.config of %s is a long-lived dict' % who, 'own', own)
    got = {}
    body = hs[0][2:-1]
    for f in body.split(';') if body else []:
        k, v = f.split(':', 1)
        got[k] = _parse_items(v)
    for k, d in exp['final'].items():
        if got.get(k, {}) != d:
            return ('long-lived config dict %s after the history' % k, show(d), show(got.get(k, {})))
    return None


# ------------------------------------------------------------------------------------------------
# the thread-local container
# ------------------------------------------------------------------------------------------------
ATTR = {0: 'request', 1: 'response', 2: 'released_show_tracebacks'}


def _attr(a):
    return ATTR.get(a, 'x%d' % a)


def local_case(rng, n=None):
    nthreads = rng.choice([1, 2, 3, 4])
    ops = []
    for _ in range(n or rng.choice([4, 8, 12, 20])):
        t = rng.randrange(nthreads)
        k = rng.choice(['L', 'L', 'C', 'S', 'S', 'G', 'G', 'G', 'N'])
        if k == 'L':
            ops.append(['L', t, rng.randint(100, 120), rng.randint(200, 220)])
        elif k == 'C':
            ops.append(['C', t])
        elif k == 'S':
            ops.append(['S', t, rng.choice([0, 1, 2, 3, 3, 4, 5]), rng.randint(300, 320)])
        elif k == 'G':
            ops.append(['G', t, rng.choice([0, 0, 1, 2, 3, 4, 5])])
        else:
            ops.append(['N', t])
    return {'nthreads': nthreads, 'ops': ops}


def local_run(case):
    """Perform the ops on a fresh real `_Serving()` - each op on its own real thread - and return the outputs."""
    sv = cherrypy._Serving()
    dreq, dresp = cherrypy._Serving.request, cherrypy._Serving.response
    jobs = [[] for _ in range(case['nthreads'])]
    go = [threading.Semaphore(0) for _ in range(case['nthreads'])]
    done = threading.Semaphore(0)
    out = []
    failed = []

    def val(v):
        if v is dreq:
            return '900'
        if v is dresp:
            return '901'
        return 'none' if v is None else str(v)

    def do(op):
        k, t = op[0], op[1]
        if k == 'L':
            sv.load(op[2], op[3])
        elif k == 'C':
            sv.clear()
        elif k == 'S':
            setattr(sv, _attr(op[2]), op[3])
        elif k == 'G':
            out.append('g=' + val(getattr(sv, _attr(op[2]), None)))
        elif k == 'N':
            inv = {v: k2 for k2, v in ATTR.items()}
            ns = sorted(inv[n] if n in inv else int(n[1:]) for n in vars(sv))
            out.append('n=' + (','.join(str(x) for x in ns) or '-'))

    def worker(t):
        try:
            while True:
                go[t].acquire()
                if not jobs[t]:
                    return
                op = jobs[t].pop(0)
                if op is None:
                    return
                try:
                    do(op)
                except Exception as e:          # an observation
                    out.append('error=' + type(e).__name__)
                done.release()
        except BaseException as e:
            failed.append(repr(e))
            done.release()
    ths = [threading.Thread(target=worker, args=(t,), daemon=True) for t in range(case['nthreads'])]
    for th in ths:
        th.start()
    for op in case['ops']:
        jobs[op[1]].append(op)
        go[op[1]].release()
        if not done.acquire(timeout=20):
            raise common.HarnessError('thread-local probe: op %r did not finish' % (op,))
    for t in range(case['nthreads']):
        jobs[t].append(None)
        go[t].release()
    for th in ths:
        th.join(5)
    if failed:
        raise common.HarnessError('thread-local probe failed: %s' % failed[0])
    return out


def local_line(case):
    toks = ['LOC', 'D:0=900,1=901']
    for op in case['ops']:
        toks.append(':'.join(str(x) for x in op))
    return ' '.join(toks)


def local_oracle(case, out):
    """From the statement (`belongs to its own thread alone`): a per-thread dict in front of the two defaults."""
    d = {t: {} for t in range(case['nthreads'])}
    want = []
    for op in case['ops']:
        k, t = op[0], op[1]
        if k == 'L':
            d[t].pop(2, None)
            d[t][0], d[t][1] = op[2], op[3]
        elif k == 'C':
            d[t] = {}
        elif k == 'S':
            d[t][op[2]] = op[3]
        elif k == 'G':
            v = d[t].get(op[2], {0: 900, 1: 901}.get(op[2]))
            want.append('g=' + ('none' if v is None else str(v)))
        else:
            want.append('n=' + (','.join(str(x) for x in sorted(d[t])) or '-'))
    return want


def release_lines():
    return ['REL %s %s %s' % (prog, a, b) for prog in ('head', 'repaired', 'seeded') for a in OUTS for b in OUTS]


def release_compare(table, lines):
    """The measured table must be the behaviour of the try/finally transcription (`repaired`) as the driver
    evaluates it; says which transcription the live method behaves like."""
    got = {}
    for req, line in zip(release_lines(), lines):
        _, prog, a, b = req.split(' ')
        f = dict(x.split('=') for x in line.split(';'))
        got.setdefault(prog, {})[(a, b)] = {'cleared': f['cleared'] == '1', 'closed': f['closed'] == '1', 'raised': f['raised']}
    real = {k: {x: v[x] for x in ('cleared', 'closed', 'raised')} for k, v in table.items()}
    which = next((p for p in ('repaired', 'head', 'seeded') if real == got[p]), None)
    if which == 'repaired':
        return which, None
    bad = sorted(k for k in real if real[k] != got['repaired'][k])
    return which, ('release_serving under fault plan (listeners, close) = %s' % (bad[0],), real[bad[0]],
                   got['repaired'][bad[0]])
