"""C10 - deterministic multi-thread runner and the oracle (written from the property statement).

A case = {site, plans, nthreads, assign, schedule}.  Every plan is one WSGI call executed by the
real thread `assign[i]`; a controller hands a baton to exactly one thread at a time, so requests of
different threads overlap *inside* handlers/hooks (parked at gates) in a replayable way.  No sleeps:
gates are semaphores; a gate that is not reached within WATCHDOG seconds is a harness error.
"""
import copy
import json
import re
import threading

from . import common
from . import c10_site as S

WATCHDOG = 60.0
STAGE_ORDER = {'start': 0, 'handler': 1, 'finalize': 2, 'body': 3, 'end': 4}
PRISTINE = S.class_level_fingerprint()
PRISTINE_JSON = json.dumps(PRISTINE, sort_keys=True)


# ------------------------------------------------------------------------------------------------
# execution
# ------------------------------------------------------------------------------------------------
def urlkey(plan):
    return json.dumps([plan['app'], plan['path'], plan.get('method', 'GET'), plan.get('qs', ''),
                       plan.get('ctype', ''), _mask(plan.get('body') or ''), plan.get('redirect_to', ''),
                       sorted((f['at'], f['exc']) for f in plan.get('faults') or ()), bool(plan.get('abandon')),
                       bool(plan.get('rawqs')), plan.get('mount', ''), plan.get('redirect_chain') or []])


def _mask(s):
    if isinstance(s, bytes):
        s = s.decode('latin-1')
    return S.TOKEN_RE.sub('TOKEN', s)


def baseline_plan(plan, n):
    b = {k: copy.deepcopy(v) for k, v in plan.items() if k not in ('ops', 'parks', 'token')}
    b['token'] = S.token_of(n)
    if b.get('body'):
        b['body'] = S.TOKEN_RE.sub(b['token'], plan['body'])
    b['ops'] = []
    b['parks'] = []
    return b


def _nopark(stage):
    return None


def baseline_plans(case):
    """urlkey -> the no-op first-request plan for it, in order of first use."""
    out, n = {}, 900
    for p in case['plans']:
        k = urlkey(p)
        if k not in out:
            n += 1
            out[k] = baseline_plan(p, n if n < 1000 else 999)
    return out


def summarize(rec, tok):
    """What a call observed and answered, normalised: comparable across processes."""
    return [[[s['stage'], normalise(s['contents'], tok)] for s in rec['snaps']], rec['status'],
            normalise(canon_wsgi_headers(rec['wsgi_headers']), tok), _mask(rec['body'] or ''),
            _mask(rec['exc']) if rec['exc'] else rec['exc']]


def lone_request(site_desc, bp):
    """Serve exactly one request on a freshly built site (meant to run in a process that served nothing)."""
    site = S.Site(site_desc)
    del S.EVENTS[:]
    return summarize(S.do_call(site, bp, _nopark), bp['token'])


def deep_check(site, pristine, rec, full=False):
    """Compare the long-lived state with what it was right after the site was built; the first differences go
    into the record of the call that has just finished.  After every call: everything hanging on the mounted trees
    and the applications + the global config; `full`: classes, modules and the default toolbox as well."""
    now = S.deep_state(site, full)
    for k, v in now.items():                 # a pipeline is built by the first call to its application: from then on
        if k.endswith(' pipeline') and pristine.get(k) == 'unbuilt' and v != 'unbuilt':
            pristine[k] = v                  # it is long-lived state like everything else
    if any(now[k] != pristine.get(k) for k in now) or (full and len(now) != len(pristine)):
        then = pristine if full else {k: pristine.get(k) for k in now}
        rec['deep_diff'] = diff_paths(json.loads(json.dumps(now, sort_keys=True)),
                                      json.loads(json.dumps(then, sort_keys=True)), limit=4)
    return now


class _Abort(BaseException):
    """Unwinds a parked worker when the controller gives up on a case (state blow-up after a leak)."""


MAX_SNAPS = 40       # a sane call takes <= ~14 snapshots; leaked probe hooks double that per request


class Controller(object):
    def __init__(self, site, plans, nthreads, assign, deep=None):
        self.aborted = False
        self.deep = deep
        self.ncalls = 0
        self.site = site
        self.plans = plans
        self.queues = [[i for i, t in enumerate(assign) if t == k] for k in range(nthreads)]
        self.pos = [0] * nthreads                  # next plan of each thread
        self.state = ['idle'] * nthreads           # idle | parked | running | finished
        self.go = [threading.Semaphore(0) for _ in range(nthreads)]
        self.ctl = threading.Semaphore(0)
        self.records = [None] * len(plans)
        self.trace = []                            # (thread, plan index, event) in global order
        self.errors = []
        self.threads = []
        for k in range(nthreads):
            if not self.queues[k]:
                self.state[k] = 'finished'
                continue
            th = threading.Thread(target=self._worker, args=(k,), daemon=True, name='c10-w%d' % k)
            self.threads.append(th)
            th.start()

    def _worker(self, k):
        try:
            for i in self.queues[k]:
                self._wait_go(k)
                self.trace.append((k, i, 'begin'))

                def park(stage, k=k, i=i):
                    self.trace.append((k, i, 'park:' + stage))
                    self.state[k] = 'parked'
                    self.ctl.release()
                    self._wait_go(k)
                    self.trace.append((k, i, 'resume:' + stage))
                self.records[i] = S.do_call(self.site, self.plans[i], park)
                if self.deep is not None:
                    self.ncalls += 1
                    last = self.pos[k] + 1 >= len(self.queues[k])
                    deep_check(self.site, self.deep, self.records[i], full=last or self.ncalls % 8 == 0)
                self.trace.append((k, i, 'done'))
                if len(self.records[i]['snaps']) > MAX_SNAPS:
                    self.aborted = True
                self.pos[k] += 1
                self.state[k] = 'idle' if self.pos[k] < len(self.queues[k]) else 'finished'
                self.ctl.release()
        except _Abort:
            self.state[k] = 'finished'
        except BaseException as e:          # harness-side failure inside a worker
            self.errors.append('%s: %s' % (type(e).__name__, e))
            self.state[k] = 'finished'
            self.ctl.release()

    def _wait_go(self, k):
        if self.aborted:
            raise _Abort()
        if not self.go[k].acquire(timeout=WATCHDOG * 2):
            raise common.HarnessError('worker %d never got the baton' % k)
        if self.aborted:
            raise _Abort()

    def step(self, k):
        """Give the baton to thread k until it parks, finishes a call, or has nothing left."""
        if self.state[k] == 'finished':
            return False
        self.state[k] = 'running'
        self.go[k].release()
        if not self.ctl.acquire(timeout=WATCHDOG):
            raise common.HarnessError('thread %d did not reach its next gate within %ss (trace tail %s)'
                                      % (k, WATCHDOG, self.trace[-5:]))
        if self.errors:
            raise common.HarnessError('worker failed: %s' % self.errors[0])
        return True

    def run(self, schedule):
        for k in schedule:
            if self.aborted:
                break
            self.step(k)
        while any(s != 'finished' for s in self.state) and not self.aborted:
            for k in range(len(self.state)):
                if not self.aborted:
                    self.step(k)
        if self.aborted:
            for g in self.go:
                g.release(64)
        for th in self.threads:
            th.join(timeout=WATCHDOG)
            if th.is_alive():
                raise common.HarnessError('worker thread did not terminate')


def execute(case):
    """Build the site, take the baselines, run the plans under the schedule.  Returns a result dict."""
    site = S.Site(case['site'])
    del S.EVENTS[:]
    plans = case['plans']
    baselines = {}
    blown = False
    deep = S.deep_state(site)
    bplans = baseline_plans(case)
    for bi, (k, bp) in enumerate(bplans.items()):
        if True:
            S.CUR.plan = None
            baselines[k] = (bp, S.do_call(site, bp, _nopark))
            deep_check(site, deep, baselines[k][1], full=bi == len(bplans) - 1)
            if len(baselines[k][1]['snaps']) > MAX_SNAPS:
                blown = True
                break
    class_after_baseline = json.dumps(S.class_level_fingerprint(), sort_keys=True)
    if blown:
        for p in plans:
            baselines.setdefault(urlkey(p), baselines[k])
        return {'site': site, 'records': [None] * len(plans), 'baselines': baselines, 'trace': [], 'aborted': True,
                'events': list(S.EVENTS),
                'class_after_baseline': class_after_baseline, 'class_after': S.class_level_fingerprint(),
                'apps_after': [site.app_state(i) for i in range(len(site.apps))]}
    ctl = Controller(site, plans, case['nthreads'], case['assign'], deep)
    ctl.run(case['schedule'])
    return {'site': site, 'records': ctl.records, 'baselines': baselines, 'trace': ctl.trace, 'aborted': ctl.aborted,
            'events': list(S.EVENTS),
            'class_after_baseline': class_after_baseline,
            'class_after': S.class_level_fingerprint(),
            'apps_after': [site.app_state(i) for i in range(len(site.apps))]}


# ------------------------------------------------------------------------------------------------
# normalisation
# ------------------------------------------------------------------------------------------------
def _own_marker_re(token):
    num = S.TOKEN_RE.match(token).group(1)
    return re.compile(r'(?i)mk%skx\d+' % num)


def strip_own(v, mre):
    """Remove every entry that carries one of the request's OWN mutation markers."""
    if isinstance(v, dict):
        out = {}
        for k, x in v.items():
            if mre.search(k) or (isinstance(x, str) and mre.search(x)):
                continue
            out[k] = strip_own(x, mre)
        return out
    if isinstance(v, list):
        return [strip_own(x, mre) for x in v if not mre.search(json.dumps(x))]
    return v


def normalise(v, token):
    """Canonical JSON text with the own markers removed and the own token replaced by TOKEN."""
    num = S.TOKEN_RE.match(token).group(1)
    txt = json.dumps(strip_own(v, _own_marker_re(token)), sort_keys=True)
    return re.sub(r'(?i)tk%sk' % num, 'TOKEN', txt)


def foreign_tokens(v, token):
    num = S.TOKEN_RE.match(token).group(1)
    txt = v if isinstance(v, str) else json.dumps(v, sort_keys=True)
    return sorted({m.group(0).lower() for m in S.TOKEN_RE.finditer(txt) if m.group(1) != num})


def diff_paths(a, b, path='', out=None, limit=6):
    """Human-readable list of places where two canonical structures differ."""
    out = [] if out is None else out
    if len(out) >= limit:
        return out
    if isinstance(a, dict) and isinstance(b, dict):
        for k in sorted(set(a) | set(b)):
            if k not in a:
                out.append('%s/%s: only in baseline: %s' % (path, k, json.dumps(b[k])[:80]))
            elif k not in b:
                out.append('%s/%s: only in request: %s' % (path, k, json.dumps(a[k])[:80]))
            else:
                diff_paths(a[k], b[k], path + '/' + k, out, limit)
    elif a != b:
        out.append('%s: request %s != baseline %s' % (path, json.dumps(a)[:90], json.dumps(b)[:90]))
    return out


def destructive_stage(plan):
    """Order index of the first stage with a del/set op (None when the plan only adds marked entries)."""
    idx = [STAGE_ORDER[o['stage']] for o in plan['ops'] if S.OPS[o['op']][1] != 'add']
    return min(idx) if idx else None


def in_snaps(rec):
    """[(sub-request index, stage, snapshot)] of the ':in' snapshots (taken before the stage's ops)."""
    out = []
    for j, s in enumerate(rec['snaps']):
        st, io = s['stage'].split(':')
        if io == 'in':
            out.append((s.get('sub', 0), st, s, j))
    return out


def canon_wsgi_headers(hs):
    out = []
    for k, v in hs or []:
        kl = k.lower()
        if kl == 'date':
            v = 'DATE'
        out.append([k, v])
    return sorted(out)


# ------------------------------------------------------------------------------------------------
# the oracle
# ------------------------------------------------------------------------------------------------
MUTABLE = (dict, list)


def _is_collection(o):
    if o is None or isinstance(o, (str, bytes, int, float, tuple, bool)):
        return False
    return isinstance(o, MUTABLE) or hasattr(o, '__dict__')


PRIORITY = ['aliases_class_level', 'aliases_other_request', 'shared_state_changed', 'history_dependent', 'foreign_entry_visible',
            'token_crossed', 'foreign_hook_ran', 'class_state_changed', 'serving_not_cleared', 'thread_not_idle',
            'serving_not_loaded',
            'token_lost', 'thread_local_broken', 'app_settings_crossed', 'app_state_changed',
            'response_history_dependent', 'own_mutation_lost', 'stages_differ', 'escaped']


RELEASE_SKIPPED = ('%s: an `after_request` listener of the engine failed and Application.release_serving gave up before '
                   'req.close() and cherrypy.serving.clear(): the thread still holds %s')


LEFTOVER = ['released_show_tracebacks']


def _clean(st):
    """Is this idle state of a thread what the statement demands?  After a WSGI call that an exception escaped from
    (the server never got a response object it could close) the trapper's `released_show_tracebacks` may still be
    there: the next call drops it before any request can see it (that part stays checked: `serving_not_loaded`)."""
    serving = st['serving']
    if st.get('prev_escaped') and serving == LEFTOVER:
        serving = []
    return serving == [] and st['default'] and st['app_none'] and not st['adhoc']


def _faults_txt(plan, rec):
    if not plan.get('faults'):
        return ''
    return ', faults planned %s fired %s' % ([(f['at'], f['exc']) for f in plan['faults']], rec.get('faults_fired'))


def _idle_and_deep(who, rec):
    """Between requests a thread owns nothing; no call changes long-lived shared state."""
    bad = []
    for when in ('idle_before', 'idle_after'):
        st = rec.get(when)
        if st and not _clean(st):
            if when == 'idle_after' and (st['serving'] != [] or not st['default'] or rec.get('release_skipped')):
                continue            # reported as serving_not_cleared / release_skipped
            bad.append(('%s: %s it the thread is not idle: cherrypy.serving holds %s, default objects in place: %s, '
                        'cherrypy.request.app is None: %s, ad-hoc attributes %s'
                        % (who, 'before' if when == 'idle_before' else 'after', st['serving'], st['default'],
                           st['app_none'], st['adhoc']), 'thread_not_idle:' + when.split('_')[1]))
    if rec.get('deep_diff'):
        d = rec['deep_diff']
        key = d[0].split(':')[0].split('/')[1] if d else '?'
        key = re.sub(r'app\d+ ', 'app ', key)
        key = ' '.join(key.split(' ')[:2])
        bad.append(('%s changed long-lived shared state: %s' % (who, '; '.join(d)), 'shared_state_changed:' + key))
    return bad


def oracle(case, res):
    """Evaluate the property statement on what the real code did.  Returns [(what, signature)],
    the most specific kinds of failure first."""
    bad = _oracle(case, res)

    def rank(b):
        k = b[1].split(':')[0]
        return PRIORITY.index(k) if k in PRIORITY else len(PRIORITY)
    return sorted(bad, key=rank)


def _oracle(case, res):
    bad = []
    plans, recs = case['plans'], res['records']
    class_objs = S.class_level_objects()
    class_ids = {}
    for name, o in class_objs.items():
        if _is_collection(o):
            class_ids.setdefault(id(o), name)
    owner = {}          # id(obj) -> (call, sub, slot)
    for i, (plan, rec) in enumerate(zip(plans, recs)):
        tok = plan['token']
        if rec is None:
            if res.get('aborted'):
                continue
            raise common.HarnessError('plan %d produced no record' % i)
        bplan, brec = res['baselines'][urlkey(plan)]
        btok = bplan['token']
        dstage = destructive_stage(plan)
        # (1) initial observation == first-request baseline for this URL
        mine, base = in_snaps(rec), in_snaps(brec)
        if [m[:2] for m in mine] != [m[:2] for m in base] and dstage is None:
            bad.append(('request %d (%s %s): stages observed %s, baseline %s'
                        % (i, plan['path'], tok, [m[:2] for m in mine], [m[:2] for m in base]), 'stages_differ'))
        fd = rec.get('first_destructive')
        for (sub, st, snap, j), (bsub, bst, bsnap, _bj) in zip(mine, base):
            if (sub, st) != (bsub, bst):
                break
            # exact comparison until the request's own first destructive op (stages may repeat after a fault)
            exact = fd is None or j <= fd
            if exact:
                a = normalise(snap['contents'], tok)
                b = normalise(bsnap['contents'], btok)
                if a != b:
                    d = diff_paths(json.loads(a), json.loads(b))
                    slot = d[0].split(':')[0].split('/')[1] if d else '?'
                    bad.append(('request %d (app %d %s, %s) at %s: observation differs from its first-request '
                                'baseline: %s' % (i, plan['app'], plan['path'], tok, st, '; '.join(d)),
                                'history_dependent:' + slot))
            # (2) nothing of another request is visible
            ft = foreign_tokens(snap['contents'], tok)
            if ft:
                bad.append(('request %d (%s) at %s sees entries of other requests: %s' % (i, tok, st, ft),
                            'foreign_entry_visible'))
            for ch, val in snap['seen'].items():
                if ch == 'error':
                    bad.append(('request %d (%s) at %s: thread-local access failed: %s' % (i, tok, st, val),
                                'thread_local_broken'))
                elif val is not None and isinstance(val, str) and foreign_tokens(val, tok):
                    bad.append(('request %d (%s) at %s: channel %s shows token of another request: %s'
                                % (i, tok, st, ch, val), 'token_crossed:' + ch))
                elif ch == 'resp' and val == 'UNMARKED':
                    pass
                elif ch in ('proxy.qs', 'serving.qs', 'environ', 'header', 'proxy.header', 'resp') \
                        and (val is None or tok not in val):
                    bad.append(('request %d (%s) at %s: channel %s lost the request: %r' % (i, tok, st, ch, val),
                                'token_lost:' + ch))
            want_mw = 'mw|%s' % case['site']['apps'][plan['app']]['wsgi_tag'] \
                if case['site']['apps'][plan['app']].get('mw') else 'mwNone'
            if snap['seen'].get('mw', want_mw) != want_mw:
                bad.append(('request %d (%s) at %s went through the middleware of another application: %s (own: %s)'
                            % (i, tok, st, snap['seen'].get('mw'), want_mw), 'app_settings_crossed'))
            if sorted(k for k in snap['serving'] if 'mk' not in k) != ['request', 'response']:
                bad.append(('request %d (%s) at %s: cherrypy.serving holds %s' % (i, tok, st, snap['serving']),
                            'serving_not_loaded'))
            elif st == 'start' and sorted(snap['serving']) != ['request', 'response']:
                # before the (sub-)request's own first op: nothing ad hoc yet - an internal redirect's sub-request
                # must not find what its parent parked in the container
                bad.append(('request %d (%s) sub-request %d at start: cherrypy.serving already carries %s'
                            % (i, tok, sub, snap['serving']), 'serving_not_loaded'))
            if foreign_tokens(json.dumps(snap['serving']), tok):
                bad.append(('request %d (%s) at %s: cherrypy.serving carries attributes of another request: %s'
                            % (i, tok, st, snap['serving']), 'foreign_entry_visible'))
        # all snapshots, including ':out'
        for snap in rec['snaps']:
            ft = foreign_tokens(snap['contents'], tok)
            if ft:
                bad.append(('request %d (%s) at %s sees entries of other requests: %s'
                            % (i, tok, snap['stage'], ft), 'foreign_entry_visible'))
        # (3) own mutations took effect on the own request
        for snap in rec['snaps']:
            st, io = snap['stage'].split(':')
            if io != 'out':
                continue
            txt = json.dumps([snap['contents'], snap['serving']]).lower()
            for oi, o in enumerate(plan['ops']):
                later_del = any(S.OPS[q['op']][1] == 'del' and q['stage'] == st for q in plan['ops'][oi + 1:])
                if o['stage'] == st and S.OPS[o['op']][1] == 'add' and o['marker'] in rec['applied'] \
                        and not later_del and o['marker'] not in txt:
                    bad.append(('request %d (%s): own %s at %s not visible to itself' % (i, tok, o['op'], st),
                                'own_mutation_lost:' + o['op']))
        # (4) response
        if rec['exc'] and not plan.get('faults'):
            bad.append(('request %d (%s): exception escaped the WSGI stack: %s' % (i, tok, rec['exc']), 'escaped'))
        elif dstage is None and (rec['exc'] or '').split(':')[0] != (brec['exc'] or '').split(':')[0]:
            # (a request that removed hooks itself may well have removed the failing one)
            bad.append(('request %d (%s, faults %s): %s escaped the WSGI stack, as the first request ever: %s'
                        % (i, tok, plan.get('faults'), rec['exc'], brec['exc']), 'response_history_dependent'))
        if rec['body'] is not None and foreign_tokens(rec['body'], tok):
            bad.append(('request %d (%s): body carries another request: %s' % (i, tok, rec['body'][:200]),
                        'token_crossed:body'))
        if foreign_tokens(json.dumps(rec['wsgi_headers']), tok):
            bad.append(('request %d (%s): response headers carry another request: %s' % (i, tok, rec['wsgi_headers']),
                        'token_crossed:response_headers'))
        if dstage is None and not rec['op_errors']:
            mre = _own_marker_re(tok)
            a = [rec['status'], normalise(canon_wsgi_headers([h for h in (rec['wsgi_headers'] or [])
                                                              if not mre.search(h[0]) and not mre.search(h[1])]), tok),
                 _mask(rec['body'] or '')]
            b = [brec['status'], normalise(canon_wsgi_headers(brec['wsgi_headers']), btok), _mask(brec['body'] or '')]
            if a != b:
                bad.append(('request %d (app %d %s, %s): response differs from its first-request baseline: %s vs %s'
                            % (i, plan['app'], plan['path'], tok, json.dumps(a)[:300], json.dumps(b)[:300]),
                            'response_history_dependent'))
        # (5) hooks attached by a request run in that request only
        for marker, own in rec['hook_runs']:
            if own != tok:
                bad.append(('request %d (%s) ran hook %s attached by request %s' % (i, tok, marker, own),
                            'foreign_hook_ran'))
        # (6) the thread's serving container is empty again afterwards
        if rec.get('release_skipped'):
            bad.append((RELEASE_SKIPPED % ('request %d (%s%s)' % (i, tok, _faults_txt(plan, rec)), rec['serving_after']),
                        'release_skipped:after_request_listener'))
        elif (rec['serving_after'] != [] or not rec['default_after']) and not _clean(rec['idle_after']):
            bad.append(('after request %d (%s%s) cherrypy.serving still holds %s (default objects restored: %s)'
                        % (i, tok, _faults_txt(plan, rec), rec['serving_after'], rec['default_after']),
                        'serving_not_cleared'))
        bad.extend(_idle_and_deep('request %d (app %d %s, %s%s)' % (i, plan['app'], plan['path'], tok,
                                                                   _faults_txt(plan, rec)), rec))
        # (7) object identity: no per-request collection is shared with another request or class level
        for (stage, objs), snap in zip(rec['objs'], rec['snaps']):
            sub = snap.get('sub', 0)
            for slot, o in objs.items():
                if not _is_collection(o):
                    continue
                if id(o) in class_ids:
                    bad.append(('request %d (%s) at %s: %s IS the class-level object %s'
                                % (i, tok, stage, slot, class_ids[id(o)]), 'aliases_class_level:' + slot.split('.')[0]))
                prev = owner.get(id(o))
                if prev is None:
                    owner[id(o)] = (i, sub, slot)
                elif prev[:2] != (i, sub):
                    bad.append(('request %d (%s) at %s: %s IS the same object as %s of request %d'
                                % (i, tok, stage, slot, prev[2], prev[0]), 'aliases_other_request:' + slot.split('.')[0]))
    # baselines are held to the same identity rule
    for k, (bp, brec) in res['baselines'].items():
        for (stage, objs), snap in zip(brec['objs'], brec['snaps']):
            sub = snap.get('sub', 0)
            for slot, o in objs.items():
                if not _is_collection(o):
                    continue
                if id(o) in class_ids:
                    bad.append(('baseline request %s at %s: %s IS the class-level object %s'
                                % (bp['path'], stage, slot, class_ids[id(o)]), 'aliases_class_level:' + slot.split('.')[0]))
                prev = owner.get(id(o))
                if prev is None:
                    owner[id(o)] = (bp['token'], sub, slot)
                elif prev[:2] != (bp['token'], sub):
                    bad.append(('baseline request %s at %s: %s IS the same object as %s of request %s'
                                % (bp['path'], stage, slot, prev[2], prev[0]), 'aliases_other_request:' + slot.split('.')[0]))
        if brec.get('release_skipped'):
            bad.append((RELEASE_SKIPPED % ('first request (app %d %s%s)' % (bp['app'], bp['path'], _faults_txt(bp, brec)),
                                           brec['serving_after']), 'release_skipped:after_request_listener'))
        elif (brec['serving_after'] != [] or not brec['default_after']) and not _clean(brec['idle_after']):
            bad.append(('after baseline request %s%s cherrypy.serving still holds %s'
                        % (bp['path'], _faults_txt(bp, brec), brec['serving_after']), 'serving_not_cleared'))
        bad.extend(_idle_and_deep('first request (app %d %s%s)' % (bp['app'], bp['path'], _faults_txt(bp, brec)), brec))
    # (8) class-level / process-level state untouched
    for label, fp in (('after the first requests', json.loads(res['class_after_baseline'])),
                      ('after the history', res['class_after'])):
        if json.dumps(fp, sort_keys=True) != PRISTINE_JSON:
            d = diff_paths(json.loads(json.dumps(fp)), PRISTINE)
            key = d[0].split(':')[0].split('/')[1] if d else '?'
            bad.append(('class-level state changed %s: %s' % (label, '; '.join(d)), 'class_state_changed:' + key))
            break
    # (9) per-application state untouched and own
    site = res['site']
    for ai, (now, then) in enumerate(zip(res['apps_after'], site.app_meta)):
        if now != then:
            bad.append(('application %d state changed by requests: %s' % (ai, diff_paths(now, then)),
                        'app_state_changed'))
        ad = case['site']['apps'][ai]
        names = [x[0] for x in then['pipeline']]
        if names != ['ExceptionTrapper', 'InternalRedirector'] + (['c10mw'] if ad.get('mw') else []):
            bad.append(('application %d: WSGI pipeline %s is not what its own configuration says (mw=%s)'
                        % (ai, names, bool(ad.get('mw'))), 'app_settings_crossed'))
        if ad.get('wsgi_tag'):
            if then['log_tag'] != ad['wsgi_tag'] or then['wsgiconfig'] != {'c10mw': {'tag': ad['wsgi_tag']}}:
                bad.append(('application %d carries settings of another application: log tag %r, wsgi config %s'
                            % (ai, then['log_tag'], then['wsgiconfig']), 'app_settings_crossed'))
    return bad
