"""C07 - malformed client input is answered with 4xx, never with 5xx.

Model: lean/CpModel/ParseTypes.lean + ParseSites.lean (+ generated Gen/C07Tables.lean), theorems:
lean/CpProofs/C07.lean, driver: lean/Drv/C07.lean.

Three layers on every run:

1. `tables(ctx)` re-measures the CATCH MAP from the live code: for every parse site (the place where one
   stdlib / CherryPy parser is called on client bytes) and every exception class of a fixed universe, the
   callee is replaced (module global that names it, or a codec registered under a private charset name) by a
   stub raising exactly that class, one request is driven through the site, and the response status is
   written to lean/CpModel/Gen/C07Tables.lean together with the live class hierarchy.  The Lean theorems
   quantify over that table, so removing or narrowing an `except` / `HTTPError.handle` in /repo changes a
   proof obligation.
2. stdlib CONTRACTS (which classes a stdlib parser can raise) are re-measured by fuzzing each callee alone.
3. the request stream: per-element grammars with systematic mutations x target resources through in-process
   WSGI; oracle = status < 500; every 5xx is identified by `module:function:ExceptionClass` of the innermost
   cherrypy frame.  CherryPy's own parsers (ranges, query string, url-encoded body, multipart framing,
   filename*, qvalue, max-age) are additionally compared with their Lean models, unit- and site-level.
"""
import binascii
import codecs
import email.errors
import http.cookies
import json
import os

from . import common
from . import c07_app as app
from . import c07_gen as gen
from . import c07_cov as covmod
from . import c07_tok as tok

PROPERTY = 'C07'
LEAN_TARGETS = ['CpProofs.C07', 'CpProofs.C07Tok', 'drv_c07']
DRIVER = 'drv_c07'
THEOREMS = [
    'CpProofs.C07.allSites_complete',
    'CpProofs.C07.allExcs_complete',
    'CpProofs.C07.catchHand_agrees_table',
    'CpProofs.C07.table_covers_universe',
    'CpProofs.C07.isSub_agrees_live_hierarchy',
    'CpProofs.C07.C07_catch_table',
    'CpProofs.C07.C07_catch_table_full_false',
    'CpProofs.C07.knownUncaught_all_real',
    'CpProofs.C07.http_status_passthrough',
    'CpProofs.C07.C07_getRanges',
    'CpProofs.C07.getRangesRaw_raises_only_ValueError',
    'CpProofs.C07.C07_queryString',
    'CpProofs.C07.C07_urlencoded',
    'CpProofs.C07.urlencoded_ok_or_400',
    'CpProofs.C07.C07_multipart',
    'CpProofs.C07.multipart_ok_or_400',
    'CpProofs.C07.C07_filenameStar',
    'CpProofs.C07.C07_qvalue_accept',
    'CpProofs.C07.C07_qvalue_gzip_full_false',
    'CpProofs.C07.C07_qvalue_gzip_partial',
    'CpProofs.C07.C07_maxAge',
    'CpProofs.C07.C07_bodyFraming',
    # round 2 (CpProofs/C07Tok.lean): header tokenising, digest outcome classes, response header encoding
    'CpProofs.C07.headerElements_ok_or_400',
    'CpProofs.C07.headerElements_nonAccept_total',
    'CpProofs.C07.headerElements_400_iff',
    'CpProofs.C07.headerElements_empty',
    'CpProofs.C07.C07_headerElements',
    'CpProofs.C07.C07_headerElements_full_false',
    'CpProofs.C07.acceptQvalue_ok_or_400',
    'CpProofs.C07.digestInit_raises_only_ValueError',
    'CpProofs.C07.digestAuth_status_cases',
    'CpProofs.C07.C07_digest_full_false',
    'CpProofs.C07.C07_digest_partial',
    'CpProofs.C07.C07_digest_partial_lt',
    'CpProofs.C07.respEncode_agrees_table',
    'CpProofs.C07.respEncodeTable_covers',
    'CpProofs.C07.C07_respEncode_total',
    'CpProofs.C07.C07_respEncode_no_ctl',
    'CpProofs.C07.C07_dispatch_full_false',
    'CpProofs.C07.C07_dispatch_partial',
    'CpProofs.C07.C07_dispatch_full_fixed',
    'CpProofs.C07.C07_dispatch_live',
    'CpProofs.C07.C07_dispatch_partial_status',
    'CpProofs.C07.C07_basic',
    'CpProofs.C07.sizedRead_ok_or_413',
    'CpProofs.C07.sizedRead_413_iff',
    'CpProofs.C07.C07_sizedRead',
    'CpProofs.C07.C07_hostRule',
    'CpProofs.C07.trailerFinish_fixed_ok_or_400',
    'CpProofs.C07.trailerFinish_raises',
    'CpProofs.C07.C07_trailers_full_false',
    'CpProofs.C07.C07_trailers_fixed',
    'CpProofs.C07.C07_trailers_live',
]
LEVEL = 'proof'
TECHNIQUE = ('Lean 4 catch-map proof: CherryPy parsers (ranges, query string, url-encoded / multipart bodies, filename*, '
             'q-values, header tokenising, Digest header checks, handler-call argument matching, response header encoding) as '
             'total functions to Except (exception class | HTTP status), the try/except structure around every parse site '
             'transcribed and proved equal (decide) to a table re-measured from the live code by fault injection on every run; '
             'stdlib parsers as measured contracts; grammar-based request fuzzing incl. multi-step handshakes with a '
             'status-class oracle')
LEVEL_TEXT = ('Proved for all inputs of the modelled parsers (Range, query string, url-encoded body, multipart framing, '
              'filename*, q-values, max-age, body framing 411, header-value tokenising parse_header / header_elements, the '
              'checks of the Digest Authorization header and the decision sequence of digest_auth, the argument matching of '
              'the page handler call, the encoding of response header values for HTTP/1.0 and 1.1): the status produced by the '
              'parser outcome through the catch map is < 500; proved for the whole catch map (20 sites x 23 classes): every '
              '(site, exception class in the site\'s contract) ends < 500 or is one of the listed known-uncaught pairs, and the '
              'transcribed handlers equal the table measured from the live code for every class of the universe, also when the '
              'probes are sent as HTTP/1.0 or HEAD. Partial: stdlib parsers (RFC 2047, cookies, JSON, base64, urllib, the '
              'Digest tokenizer) are contracts measured by fuzzing, not proved; sessions, static If-*, caching and the tools '
              'outside the listed sites are covered by the request fuzz only (multi-step cases with genuine nonces, session '
              'ids, validators and cached entries; reflecting resources x protocol x method x text beyond U+00FF); seven known '
              '5xx classes are proved present (negation theorems with witnesses) rather than absent.')
LEVEL_NOTE = ('Trusted: Lean kernel; hand models of the parsers as validated by the unit/site differential streams on every '
              'run; the fault-injection table generator; stdlib contracts as measured on this run; domain of the text models = '
              'code points <= U+00FF in request line and headers (what HTTP/1.x can carry; RFC 2047-decoded text beyond that is '
              'driven through the oracle only), ASCII algorithm names in the digest model, lines < 64 KiB and exact or short '
              'Content-Length in the multipart model, page handlers without keyword-only parameters in the call model.')
TRUSTED_BASE = [
    'stdlib parsers (email.header.decode_header, http.cookies, json, base64, urllib.parse, urllib.request.parse_keqv_list, '
    'codecs) enter as contracts = sets of exception classes, re-measured by fuzzing on every run, not proved',
    'fault injection replaces module globals naming the callee / registers a private codec; the code under test is unmodified',
    'the digest flow comparison feeds the model with an independent RFC 2617 re-computation (harness/c07_tok.py) of whether '
    'nonce, user, digest and age are right',
    'CpModel.HeaderEnc (C12) and its generated tables for the bytes HeaderMap.encode_header_item emits',
]
ASSUMPTIONS = [
    'page handlers and enabled tools are total (the harness handlers are)',
    'the environ is what a conforming HTTP/1.x server derives: method token, path/query/header values of code points '
    '<= U+00FF without CR/LF, arbitrary body bytes, SERVER_PROTOCOL HTTP/1.0 or HTTP/1.1',
]
RULE = ('requests = target resource (33 kinds, each also with every tool\'s debug switch on) x per-element grammars (query, 30+ '
        'header grammars, url-encoded / multipart / JSON bodies, framing) with 0-2 systematic mutations each (truncate, '
        'duplicate, wrong/dropped separator, bad number, quotes, oversize, unknown charset, control bytes, RFC 2047 words, one '
        'token through 27 byte classes) x HTTP/1.0|1.1 x method; systematic cross streams: second step of the digest handshake '
        '(genuine nonce, known user) with every parameter x byte class x quoting style, presented session ids, cached entries, '
        'conditional headers against genuine validators, reflecting resources x protocol x method x 16 sources of text beyond '
        'U+00FF, RFC 2047 words in each of 29 consumed headers, fixed-signature handlers x path atoms x parameter sets; '
        'non-trivial = the request carries at least one mutated or non-default element or an earlier step (everything except '
        'bare GETs); distinct = distinct (target, method, path, query, protocol, headers, body, earlier steps, digest spec) '
        'tuple; unit streams for the modelled parsers / tokenizers / call matching are counted the same way')

# ----------------------------------------------------------------------------------------------
# universe of exception classes and parse sites (names = Lean constructors in CpModel/ParseTypes.lean)
# ----------------------------------------------------------------------------------------------


try:
    from cheroot.errors import MaxSizeExceeded as _MaxSizeExceeded
except ImportError:           # the class CherryPy recognises by name
    class _MaxSizeExceeded(Exception):
        pass
    _MaxSizeExceeded.__name__ = 'MaxSizeExceeded'


def _mk(cls):
    if cls is _MaxSizeExceeded:
        return _MaxSizeExceeded('injected', 100)
    if cls is UnicodeDecodeError:
        return UnicodeDecodeError('utf-8', b'\xff', 0, 1, 'injected')
    if cls is UnicodeEncodeError:
        return UnicodeEncodeError('ascii', '\xff', 0, 1, 'injected')
    if cls is json.JSONDecodeError:
        return json.JSONDecodeError('injected', 'x', 0)
    return cls('injected')


UNIVERSE = [
    ('ValueError', ValueError), ('UnicodeError', UnicodeError), ('UnicodeDecodeError', UnicodeDecodeError),
    ('UnicodeEncodeError', UnicodeEncodeError), ('LookupError', LookupError), ('KeyError', KeyError),
    ('IndexError', IndexError), ('EOFError', EOFError), ('TypeError', TypeError), ('AttributeError', AttributeError),
    ('NameError', NameError), ('UnboundLocalError', UnboundLocalError), ('RuntimeError', RuntimeError),
    ('RecursionError', RecursionError), ('BinasciiError', binascii.Error), ('MessageError', email.errors.MessageError),
    ('HeaderParseError', email.errors.HeaderParseError), ('CookieError', http.cookies.CookieError),
    ('OverflowError', OverflowError), ('JSONDecodeError', json.JSONDecodeError), ('OSError', OSError),
    ('AssertionError', AssertionError), ('MaxSizeExceeded', _MaxSizeExceeded),
]
NAME_OF = {c: n for n, c in UNIVERSE}
HTTP400 = 'HTTP400'     # pseudo class: the callee raises cherrypy.HTTPError(400) itself

_inject = {'exc': None}


def _raise_injected(*a, **k):
    e = _inject['exc']
    if e == HTTP400:
        import cherrypy
        raise cherrypy.HTTPError(400, 'injected')
    raise _mk(dict(UNIVERSE)[e])


def _rfile_hook():
    """read()/readline() of the injecting wsgi.input: nothing arrives, or the injected class is raised."""
    if _inject['exc'] is None:
        return b''
    _raise_injected()


def _codec_search(name):
    if name != 'c07raise':
        return None

    def dec(data, errors='strict'):
        if _inject['exc'] is None:
            return codecs.latin_1_decode(bytes(data), errors)
        _raise_injected()

    def enc(data, errors='strict'):
        if _inject['exc'] is None:
            return codecs.latin_1_encode(data, errors)
        _raise_injected()
    return codecs.CodecInfo(enc, dec, name='c07raise')


_codec_registered = []


def _ensure_codec():
    if not _codec_registered:
        codecs.register(_codec_search)
        _codec_registered.append(1)


class _Patch(object):
    def __init__(self, obj, attr, value):
        self.obj, self.attr, self.value = obj, attr, value

    def __enter__(self):
        self.had = self.attr in vars(self.obj)
        self.old = vars(self.obj).get(self.attr)
        setattr(self.obj, self.attr, self.value)

    def __exit__(self, *a):
        if self.had:
            setattr(self.obj, self.attr, self.old)
        else:
            delattr(self.obj, self.attr)


class _NoPatch(object):
    def __enter__(self):
        pass

    def __exit__(self, *a):
        pass


def _selective(builtin, marker):
    def f(x=0, *a):
        if isinstance(x, str) and x.strip() == marker:
            _raise_injected()
        return builtin(x, *a)
    return f


MP_BODY = ('--B\r\nContent-Disposition: form-data; name="a"\r\n%s\r\nvalue\r\n--B--\r\n')


def _req(method, path, headers=(), body='', qs='', proto='HTTP/1.1'):
    hs = [['Host', 'localhost:8080']] + [list(h) for h in headers]
    if body or method == 'POST':
        hs.append(['Content-Length', str(len(body))])
    return {'target': 'site', 'method': method, 'path': path, 'qs': qs, 'proto': proto, 'headers': hs, 'body': body}


def _proto_of(desc):
    """The protocol dimension of a unit case: a deterministic function of the case (replayable), half of each."""
    import zlib
    return 'HTTP/1.0' if zlib.crc32(json.dumps(list(desc), sort_keys=True).encode()) & 1 else 'HTTP/1.1'


def sites():
    """site name -> (patch factory, request).  Built lazily: importing cherrypy modules."""
    import cherrypy
    from cherrypy import _cprequest, _cpreqbody
    from cherrypy.lib import httputil, auth_basic, auth_digest
    import builtins

    class _Cookie(http.cookies.SimpleCookie):
        def load(self, rawdata):
            _raise_injected()

    class _B64(object):
        b64decode = staticmethod(_raise_injected)

    def urllib_shim(fn):
        """A stand-in for the `urllib` global of a module: urllib.parse with `fn` replaced by the injecting stub."""
        import types
        import urllib.parse as real
        parse = types.SimpleNamespace(**{k: getattr(real, k) for k in dir(real) if not k.startswith('__')})
        setattr(parse, fn, _raise_injected)
        return types.SimpleNamespace(parse=parse)
    from cherrypy import _cperror
    from cherrypy.lib import cptools

    form = 'application/x-www-form-urlencoded'
    return {
        'rfileRead': (_NoPatch, dict(_req('POST', '/form', [['Content-Type', form]], 'a=1'), rfile='inject', _hook=_rfile_hook)),
        'encodeCharset': (_NoPatch, _req('GET', '/enc', [['Accept-Charset', 'c07raise']])),
        'proxyNetloc': (lambda: _Patch(cptools, 'urllib', urllib_shim('urlparse')), _req('GET', '/proxy')),
        'redirectNetloc': (lambda: _Patch(_cperror, 'urllib', urllib_shim('urljoin')), _req('GET', '/sub')),
        'decodeHeader': (lambda: _Patch(httputil, 'decode_header', _raise_injected),
                         _req('GET', '/plain', [['X-A', '=?utf-8?q?a?=']])),
        'decodeTextCharset': (_NoPatch, _req('GET', '/plain', [['X-A', '=?c07raise?q?a?=']])),
        'cookieLoad': (lambda: _Patch(_cprequest, 'SimpleCookie', _Cookie), _req('GET', '/plain', [['Cookie', 'a=b']])),
        'qsUnquote': (lambda: _Patch(httputil, 'unquote_plus', _raise_injected), _req('GET', '/plain', qs='a=b')),
        'imageMapInt': (lambda: _Patch(httputil, 'int', _selective(builtins.int, '777')), _req('GET', '/plain', qs='777,5')),
        'getRanges': (lambda: _Patch(httputil, '_get_ranges', _raise_injected),
                      _req('GET', '/file', [['Range', 'bytes=0-1']])),
        'qvalueAccept': (lambda: _Patch(httputil, 'float', _raise_injected),
                         _req('GET', '/acc', [['Accept', 'text/html;q=0.5']])),
        'qvalueGzip': (lambda: _Patch(httputil, 'float', _raise_injected),
                       _req('GET', '/gz', [['Accept-Encoding', 'gzip;q=0.5']])),
        'contentLengthInt': (lambda: _Patch(_cpreqbody, 'int', _selective(builtins.int, '3')),
                             _req('POST', '/form', [['Content-Type', form]], 'a=1')),
        'urlencDecode': (_NoPatch, _req('POST', '/form', [['Content-Type', form + '; charset=c07raise']], 'a=1')),
        'partDecode': (_NoPatch, _req('POST', '/upload', [['Content-Type', 'multipart/form-data; boundary=B']],
                                      MP_BODY % 'Content-Type: text/plain; charset=c07raise\r\n')),
        'partHeaders': (lambda: _Patch(_cpreqbody.Part, 'read_headers', classmethod(_raise_injected)),
                        _req('POST', '/upload', [['Content-Type', 'multipart/form-data; boundary=B']], MP_BODY % '')),
        'partBody': (lambda: _Patch(_cpreqbody.Part, 'read_lines_to_boundary', _raise_injected),
                     _req('POST', '/upload', [['Content-Type', 'multipart/form-data; boundary=B']], MP_BODY % '')),
        'filenameStar': (lambda: _Patch(_cpreqbody, 'unquote', _raise_injected),
                         _req('GET', '/plain', [['Content-Disposition', "form-data; filename*=utf-8''a"]])),
        'jsonDecode': (lambda: _Patch(cherrypy._json, 'decode', _raise_injected),
                       _req('POST', '/json', [['Content-Type', 'application/json']], '{}')),
        'basicB64': (lambda: _Patch(auth_basic, 'base64', _B64),
                     _req('GET', '/basic', [['Authorization', 'Basic dXNlcjpwdw==']])),
        'digestKeqv': (lambda: _Patch(auth_digest, 'parse_keqv_list', _raise_injected),
                       _req('GET', '/digest', [['Authorization', 'Digest username="user", realm="realm", nonce="1:x", '
                                                                 'uri="/digest", response="x"']])),
    }


SITE_ORDER = ['decodeHeader', 'decodeTextCharset', 'cookieLoad', 'qsUnquote', 'imageMapInt', 'getRanges', 'qvalueAccept',
              'qvalueGzip', 'contentLengthInt', 'urlencDecode', 'partDecode', 'partHeaders', 'partBody', 'filenameStar',
              'jsonDecode', 'basicB64', 'digestKeqv', 'encodeCharset', 'proxyNetloc', 'redirectNetloc', 'rfileRead']

# stdlib contracts: which classes the callee at the site can raise on client data (hand-stated in
# CpModel/ParseSites.lean `contract`; this copy is checked against the driver and re-measured by fuzzing)
CONTRACT = {
    'decodeHeader': ['HeaderParseError'],
    'decodeTextCharset': ['LookupError', 'UnicodeDecodeError', 'UnicodeError', 'ValueError'],
    'cookieLoad': ['CookieError'],
    'qsUnquote': ['UnicodeDecodeError'],
    'imageMapInt': [],
    'getRanges': ['ValueError'],
    'qvalueAccept': ['ValueError'],
    'qvalueGzip': ['ValueError'],
    'contentLengthInt': ['ValueError'],
    'urlencDecode': ['LookupError', 'UnicodeDecodeError', 'UnicodeError', 'ValueError'],
    'partDecode': ['LookupError', 'UnicodeDecodeError', 'UnicodeError', 'ValueError'],
    'partHeaders': ['ValueError', 'EOFError'],
    'partBody': ['EOFError'],
    'filenameStar': ['LookupError', 'UnicodeDecodeError', 'UnicodeError', 'ValueError'],
    'jsonDecode': ['JSONDecodeError', 'UnicodeDecodeError', 'ValueError', 'RecursionError'],
    'basicB64': ['BinasciiError', 'UnicodeEncodeError', 'ValueError'],
    'digestKeqv': ['IndexError', 'ValueError'],
    'encodeCharset': ['LookupError', 'UnicodeEncodeError', 'UnicodeError', 'ValueError'],
    'proxyNetloc': ['ValueError'],
    'redirectNetloc': ['ValueError'],
    'rfileRead': ['ValueError', 'OSError', 'OverflowError', 'MaxSizeExceeded'],
}


BASE_STATUS = {}     # site -> status of the un-injected probe of the last measurement


def measure_catch_table(proto='HTTP/1.1', head=False):
    """(site, class) -> status, by fault injection on the live code.  `proto` / `head`: the same probes sent as
    HTTP/1.0 and - where the probe is a GET - as HEAD (the catch structure must not depend on either)."""
    app.setup()
    _ensure_codec()
    table = {}
    ss = sites()
    BASE_STATUS.clear()
    for s in SITE_ORDER:
        mk_patch, req = ss[s]
        req = dict(req, proto=proto)
        if head and req['method'] == 'GET':
            req['method'] = 'HEAD'
        base = app.call(req)
        BASE_STATUS[s] = base['status']
        if base['status'] not in (200, 206) and not (s == 'digestKeqv' and base['status'] == 401) \
                and not (s == 'redirectNetloc' and base['status'] == 301):
            # the un-injected probe is not answered normally on this tree: record what it does (the table then
            # differs from the transcription and the request stream decides whether the property is broken)
            for name, _cls in UNIVERSE + [(HTTP400, None)]:
                table[(s, name)] = 500 if base['status'] >= 500 else base['status']
            continue
        for name, _cls in UNIVERSE + [(HTTP400, None)]:
            _inject['exc'] = name
            try:
                with mk_patch():
                    obs = app.call(req)
            finally:
                _inject['exc'] = None
            st = obs['status']
            table[(s, name)] = 500 if st >= 500 else st
        if proto == 'HTTP/1.1' and not head and set(v for k, v in table.items() if k[0] == s) == {base['status']}:
            # Nothing that was injected had any effect - not even the HTTPError(400) the stub raises itself: the module
            # global that named the callee is no longer what the code calls (renamed helper, `from x import y`
            # instead of `import x`).  The site cannot be measured on this tree; the rows last measured on /repo
            # stand in, so that the theorems keep talking about the other sites (the request streams still judge this one).
            UNMEASURABLE.add(s)
            old_rows = committed_rows()
            for name, _cls in UNIVERSE + [(HTTP400, None)]:
                if (s, name) in old_rows:
                    table[(s, name)] = old_rows[(s, name)]
    return table


UNMEASURABLE = set()


def committed_rows():
    """(site, class) -> status as in the generated table on disk (written by the last run)."""
    import re
    out = {}
    try:
        src = open(os.path.join(common.VERIF, 'lean', 'CpModel', 'Gen', 'C07Tables.lean')).read()
    except OSError:
        return out
    for m in re.finditer(r'\(\.(\w+), \.(\w+), (\d+)\)', src):
        out[(m.group(1), m.group(2))] = int(m.group(3))
    return out


def live_hierarchy():
    """class name -> proper ancestors inside the universe (live __mro__)."""
    out = {}
    for n, c in UNIVERSE:
        out[n] = [NAME_OF[b] for b in c.__mro__[1:] if b in NAME_OF]
    return out


RESP_CLASSES = ['empty', 'ascii', 'latin1', 'wide', 'astral', 'control', 'mixed']
RESP_SAMPLES = {'empty': [''], 'ascii': ['abc', 'a b;c="d"'], 'latin1': ['h\xe9', '\xff\xa0'], 'wide': ['\u20ac', '\u043a\u043b'],
                'astral': ['\U0001f600', 'a\U0001f600\u20ac'], 'control': ['a\r\nb', '\x00', '\x7f\u20ac'],
                'mixed': ['a\xe9\u20ac', '\u20ac.example']}


def resp_encode_real(p11, value):
    """`HeaderMap.output()` for one value, on a map prepared the way Request.run prepares response.headers.
    Returns ('ok', bytes) | ('err', class name)."""
    return app.guarded(lambda: _resp_encode_real(p11, value), ('err', 'Hang'))


def _resp_encode_real(p11, value):
    from cherrypy.lib import httputil
    try:
        h = httputil.HeaderMap()
        h.protocol = (1, 1) if p11 else (1, 0)
        h['X-V'] = value
        out = h.output()
        v = dict(out).get(b'X-V')
        if not isinstance(v, bytes):
            return ('err', 'not-bytes')
        return ('ok', v)
    except Exception as e:
        return ('err', _cls_name(e))


def measure_resp_encode():
    out = {}
    for p11 in (True, False):
        for cls in RESP_CLASSES:
            out[(p11, cls)] = all(resp_encode_real(p11, v)[0] == 'ok' for v in RESP_SAMPLES[cls])
    return out


def measure_repair_flags():
    """Which of the proposed repairs the code under test contains (the models follow the code either way)."""
    import types
    import cherrypy
    flags = {'boundArgClassified': False, 'trailerErrorsAre400': False}
    from . import c07_tok
    try:
        flags['trailerErrorsAre400'] = c07_tok.real_trailers([b'nocolon\r\n']) == 'http:400'
    except Exception:           # noqa
        pass
    saved = cherrypy.serving.request
    try:
        from cherrypy import _cpdispatch
        cherrypy.serving.request = types.SimpleNamespace(body=types.SimpleNamespace(params={}), show_mismatched_params=False)

        class _H(object):
            def h(self, **kw):
                return b''
        try:
            _cpdispatch.test_callable_spec(_H().h, [], {'self': '1'})
        except cherrypy.HTTPError as e:
            flags['boundArgClassified'] = e.status in (400, 404)
        except Exception:       # noqa: anything else is not the repair
            pass
    except Exception:           # noqa
        pass
    finally:
        cherrypy.serving.request = saved
    return flags


def _lean_text(s):
    if all(32 <= ord(c) < 127 and c not in '"\\' for c in s):
        return '"%s".toList' % s
    return '[%s]' % ', '.join('Char.ofNat %d' % ord(c) for c in s)


def tables(ctx):
    tab = measure_catch_table()
    hier = live_hierarchy()
    L = ['/- GENERATED by harness/c07.py from the live code under test: do not edit.',
         '   catchTable : status of one request through each parse site when the callee raises the given class',
         '   (fault injection; 500 stands for any 5xx), baseTable : live exception hierarchy. -/',
         'import CpModel.ParseTypes', 'namespace CpModel.Gen.C07', 'open CpModel.Parse', '',
         'def catchTable : List (Site × Exc × Nat) := [']
    rows = []
    for s in SITE_ORDER:
        for name, _ in UNIVERSE + [(HTTP400, None)]:
            rows.append('  (.%s, .%s, %d)' % (s, name, tab[(s, name)]))
    L.append(',\n'.join(rows))
    L.append(']')
    L.append('')
    L.append('def baseTable : List (Exc × List Exc) := [')
    L.append(',\n'.join('  (.%s, [%s])' % (n, ', '.join('.' + b for b in hier[n])) for n, _ in UNIVERSE))
    L.append(']')
    L.append('')
    try:
        from cherrypy.lib import auth_digest
        algs = [str(a).upper() for a in auth_digest.valid_algorithms]
        qops = [str(q) for q in auth_digest.valid_qops]
    except Exception as e:      # noqa: the tables then differ from what the theorems were proved over
        algs, qops = [], []
        ctx.extra['digest_tables_unavailable'] = repr(e)
    L.append('/-- `[alg.upper() for alg in auth_digest.valid_algorithms]` -/')
    L.append('def digestAlgsUpper : List (List Char) := [%s]' % ', '.join(_lean_text(a) for a in algs))
    L.append('')
    L.append('/-- `auth_digest.valid_qops` -/')
    L.append('def digestQops : List (List Char) := [%s]' % ', '.join(_lean_text(q) for q in qops))
    L.append('')
    L.append('/-- does `HeaderMap.output()` succeed for one `str` value of the class, on a header map whose `protocol`')
    L.append('    attribute was set the way `Request.run` sets it for an HTTP/1.1 (`true`) or HTTP/1.0 (`false`) request -/')
    L.append('def respEncodeTable : List (Bool × RespCls × Bool) := [')
    enc = measure_resp_encode()
    L.append(',\n'.join('  (%s, .%s, %s)' % ('true' if p11 else 'false', cls, 'true' if ok else 'false')
                        for (p11, cls), ok in sorted(enc.items(), key=lambda kv: (not kv[0][0], RESP_CLASSES.index(kv[0][1])))))
    L.append(']')
    L.append('')
    flags = measure_repair_flags()
    L.append('/-- does `test_callable_spec` classify a request parameter named like the bound first parameter of the page')
    L.append('    handler (404 / 400)?  (`false`: the call\'s TypeError is re-raised, finding K6) -/')
    L.append('def boundArgClassified : Bool := %s' % ('true' if flags['boundArgClassified'] else 'false'))
    L.append('')
    L.append('/-- does `SizedReader.finish` answer 400 to a malformed trailer line?  (`false`: ValueError / UnboundLocalError')
    L.append('    escape, findings K10 / K11) -/')
    L.append('def trailerErrorsAre400 : Bool := %s' % ('true' if flags['trailerErrorsAre400'] else 'false'))
    L.append('')
    L.append('end CpModel.Gen.C07')
    ctx.extra['repair_flags'] = flags
    ctx.extra['resp_encode_table'] = {'%s:%s' % ('1.1' if k[0] else '1.0', k[1]): v for k, v in enc.items()}
    ctx.extra['catch_table_rows'] = len(rows)
    if UNMEASURABLE:
        ctx.extra['catch_sites_not_measurable'] = sorted(UNMEASURABLE)
    ctx.extra['catch_table_5xx'] = sorted('%s:%s' % k for k, v in tab.items() if v >= 500 and k[1] in CONTRACT[k[0]] + [HTTP400])
    return {'CpModel/Gen/C07Tables.lean': '\n'.join(L) + '\n'}


# ----------------------------------------------------------------------------------------------
# stdlib contracts, re-measured by fuzzing each callee alone
# ----------------------------------------------------------------------------------------------
def _cls_name(e):
    for c in type(e).__mro__:
        if c in NAME_OF:
            return NAME_OF[c]
    return type(e).__name__


def _drain(fp):
    """Read a server reader object to its end the way SizedReader does (it only ever calls read() and
    read_trailer_lines(); cheroot 11's ChunkedRFile.readline() does not terminate once its buffer holds a LF)."""
    n = 0
    while fp.read(8192):
        n += 1
        if n > 100000:
            raise common.HarnessError('reader object never reaches its end')
    if hasattr(fp, 'read_trailer_lines'):
        list(fp.read_trailer_lines())


def fuzz_contracts(ctx, n):
    import base64
    from email.header import decode_header
    from urllib.parse import unquote_plus, unquote
    from urllib.request import parse_http_list, parse_keqv_list
    rng = ctx.rng
    seen = {s: set() for s in CONTRACT}

    def attempt(site, f):
        try:
            f()
        except RecursionError as e:
            seen[site].add(_cls_name(e))
        except Exception as e:
            seen[site].add(_cls_name(e))
    for i in range(n):
        w = gen.sanitize(gen.mutated(rng, gen.gen_encoded_word(rng), 0.5))
        attempt('decodeHeader', lambda: decode_header(w))
        cs = gen.pick(rng, gen.CHARSETS_OK + gen.CHARSETS_BAD + gen.CHARSET_VALUES)
        raw = gen.pick(rng, gen.CONTENTS + [b'\xff', b'+AGE-', b'\\x', b'a..b', b'xn--'])[:200]
        attempt('decodeTextCharset', lambda: raw.decode(cs))
        attempt('urlencDecode', lambda: raw.decode(cs))
        attempt('partDecode', lambda: raw.decode(cs))
        ck = gen.sanitize(gen.mutated(rng, gen.gen_cookie(rng), 0.7))
        attempt('cookieLoad', lambda: http.cookies.SimpleCookie().load(ck))
        q = gen.sanitize(gen.mutated(rng, gen.gen_qs(rng), 0.7))
        attempt('qsUnquote', lambda: unquote_plus(q, 'utf-8', errors='strict'))
        num = gen.sanitize(gen.mutated(rng, gen.pick(rng, ['1', '0.5', '12', ' 7'] + gen.NUMBERS_BAD), 0.5))
        attempt('qvalueAccept', lambda: float(num))
        attempt('qvalueGzip', lambda: float(num))
        attempt('contentLengthInt', lambda: int(num))
        fn = gen.sanitize(gen.mutated(rng, gen.pick(rng, ['a%41', '%e2%82%ac', 'plain', '%ff', '%']), 0.5))
        attempt('filenameStar', lambda: unquote(fn, cs))
        js = gen.gen_json(rng).encode('latin-1')
        attempt('jsonDecode', lambda: json.loads(js.decode('utf-8')))
        b = gen.sanitize(gen.mutated(rng, gen.gen_basic(rng), 0.6)).partition(' ')[2]
        attempt('basicB64', lambda: base64.b64decode(b.encode('ascii')))
        d = gen.sanitize(gen.mutated(rng, gen.gen_digest(rng, 'GET', '/digest', 'realm', 'k', 1700000000), 0.6))
        attempt('digestKeqv', lambda: parse_keqv_list(parse_http_list(d.partition(' ')[2])))
        if i % 4 == 0:
            cc = gen.chunked_cases(rng, 1)[0]
            if cc.get('rfile') == 'chunked':
                attempt('rfileRead', lambda: _drain(app.make_input(cc, cc['body'].encode('latin-1'), cc['headers'])))
    for site, got in seen.items():
        ctx.count('contract:%s:%s' % (site, '+'.join(sorted(got)) or 'none'))
        extra = got - set(CONTRACT[site])
        if extra:
            ctx.disagree({'contract': site, 'classes': sorted(extra)}, sorted(got), CONTRACT[site],
                         'stdlib callee at site %s raised a class outside its stated contract' % site)
    ctx.extra['contracts_measured'] = {s: sorted(v) for s, v in seen.items()}


# ----------------------------------------------------------------------------------------------
# request stream: oracle
# ----------------------------------------------------------------------------------------------
def case_key(c):
    return json.dumps([c['target'], c['method'], c['path'], c['qs'], c['proto'], c['headers'], c['body'],
                       c.get('pre'), c.get('digest'), c.get('clock')])


def nontrivial(c):
    return not (c['method'] == 'GET' and not c['qs'] and not c['body'] and len(c['headers']) <= 1
                and not c.get('pre') and not c.get('digest'))


def digest_auth_int_case():
    """F21's witness needs a fresh nonce: a well-formed qop=auth-int header for a known user (wrong password is fine)."""
    from cherrypy.lib import auth_digest
    nonce = auth_digest.synthesize_nonce(app.REALM, app.DIGEST_KEY, app.FIXED_NOW)
    hdr = ('Digest username="user", realm="%s", nonce="%s", uri="/digest", response="0", qop=auth-int, '
           'nc=00000001, cnonce="x"' % (app.REALM, nonce))
    return {'target': 'digest', 'method': 'GET', 'path': '/digest', 'qs': '', 'proto': 'HTTP/1.1',
            'headers': [['Host', 'localhost:8080'], ['Authorization', hdr]], 'body': ''}


def run_request(c):
    """Run one request case on the real code (with the earlier requests of the same client, if the case has any);
    caching targets are primed with a plain GET first.  The observation carries the request as actually sent."""
    if c.get('dynamic') == 'digest_auth_int':
        c = digest_auth_int_case()
    if (c.get('target') == 'cache' or c.get('prime')) and not c.get('pre'):
        c = dict(c, pre=[{'method': 'GET', 'path': c['path'], 'qs': c['qs'], 'proto': 'HTTP/1.1',
                          'headers': [['Host', 'localhost:8080']], 'body': ''}])
    obs, pre_obs, sent = app.run_steps(c)
    obs['sent'] = sent
    obs['pre_status'] = [o['status'] for o in pre_obs]
    return obs


def describe_sent(c, obs):
    """The concrete failing input for the report: the request as it went over the wire."""
    sent = obs.get('sent') or c
    parts = ['%s %s%s %s' % (sent['method'], sent['path'], ('?' + sent['qs']) if sent.get('qs') else '', sent.get('proto'))]
    if c.get('pre'):
        parts.insert(0, 'after %s:' % ', '.join('%s %s -> %s' % (p['method'], p['path'], st)
                                               for p, st in zip(c['pre'], obs.get('pre_status') or [])))
    interesting = [h for h in sent.get('headers', []) if h[0] not in ('Host', 'Content-Length') or h[1] != 'localhost:8080']
    if interesting:
        parts.append('headers %s' % json.dumps(interesting)[:700])
    return ' '.join(parts)


class StopStreams(Exception):
    """Enough requests hung: stop generating (not an error of the harness)."""


DIGEST_FLOW = tok.DigestFlow()
BASIC_FLOW = tok.BasicFlow()


SIG_ALIAS = {}      # signature a known witness produces on THIS tree -> the recorded signature of that finding


def learn_alias(entry, obs):
    """A known finding is identified by `module:function:Class[:marker]` of the innermost cherrypy frame.  A refactor
    that preserves behaviour (helper extracted / renamed / moved) changes module or function for the witness and for
    every other input that runs into the same defect alike: whatever the witness produces now - still a 5xx, same
    exception class, same marker - stands for the recorded signature during this run."""
    want = (entry.get('signature') or '').split(':')
    if obs['status'] < 500 or len(want) < 3:
        return
    got = app.signature(obs).split(':')
    if len(got) >= 3 and got[2:] == want[2:] and got != want:
        SIG_ALIAS[':'.join(got)] = ':'.join(want)


def sig_of(obs):
    sig = app.signature(obs)
    return SIG_ALIAS.get(sig, sig)


def check_request(ctx, c, obs=None):
    obs = obs or run_request(c)
    if obs.get('skipped'):
        ctx.count('not-run-after-hangs')
        return obs
    ctx.case(c, nontrivial=nontrivial(c), key=case_key(c))
    if c.get('digest') is not None or c['target'] == 'digest':
        DIGEST_FLOW.observe(c, obs)
    elif c['target'].startswith('basic'):
        BASIC_FLOW.observe(c, obs)
    ctx.count('target:' + c['target'].split(':')[0])
    ctx.count('status:%s' % obs['status'])
    ctx.count('proto:%s:%s' % (c.get('proto'), c['method'] if c['method'] in ('GET', 'HEAD', 'POST') else 'other'))
    if obs['status'] >= 500:
        sig = sig_of(obs)
        ctx.count('5xx:' + sig)
        ctx.oracle_fail(c, '%s -> status %s (%s)' % (describe_sent(c, obs), obs['status'], sig), sig)
        if app.HANG['n'] >= 6 and len(ctx.oracle_failures) >= 1:
            raise StopStreams()      # the code under test hangs: the verdict has its failing input, stop generating
    elif obs.get('malformed'):
        sig = 'malformed-response:' + obs['malformed'].split(' ')[0]
        ctx.count('malformed:' + sig)
        ctx.oracle_fail(c, '%s -> status %s but the response is not well-formed: %s'
                        % (describe_sent(c, obs), obs['status'], obs['malformed']), sig)
    return obs


def _worker(args):
    seed, n, digest_now = args
    import random
    rng = random.Random(seed)
    app.setup()
    out = []
    dctx = {'realm': app.REALM, 'key': app.DIGEST_KEY, 'now': app.FIXED_NOW}
    try:
        for _ in range(n):
            c = gen.gen_case(rng, digest_ctx=dctx)
            obs = run_request(c)
            out.append((c, {'status': obs['status'], 'exc': obs['exc'], 'escaped': obs['escaped'],
                            'malformed': obs.get('malformed'), 'sent': obs.get('sent') if obs['status'] >= 500 else None,
                            'pre_status': obs.get('pre_status')}))
    finally:
        app.teardown()
    return out, _worker_hits()


def _worker_hits():
    cov = covmod.current()
    return cov.hits() if cov is not None else []


def _merge_hits(hits):
    cov = covmod.current()
    if cov is not None:
        cov.add_hits(hits)


def request_stream(ctx, n):
    dctx = {'realm': app.REALM, 'key': app.DIGEST_KEY, 'now': app.FIXED_NOW}
    if ctx.quick() or n <= 10000:
        for _ in range(n):
            c = gen.gen_case(ctx.rng, digest_ctx=dctx)
            check_request(ctx, c)
        return
    chunks = 64
    per = n // chunks
    seeds = [ctx.rng.randrange(1 << 62) for _ in range(chunks)]
    for res, hits in common.parallel_map(_worker, [(s, per, None) for s in seeds]):
        _merge_hits(hits)
        for c, obs in res:
            # keep only a digest of the big stream in memory: failures + counters
            check_request(ctx, c, obs)


def cross_cases(rng, quick):
    """The systematic cross streams (c07_gen, round 2): second steps of stateful protocols, reflecting resources x
    protocol x method x text beyond U+00FF, RFC 2047 words in every consumed header."""
    cs = []
    for _ in range(1 if quick else 6):
        cs += gen.digest_cases(rng, extra=120 if quick else 600)
    cs += gen.basic_cases(rng)
    for _ in range(1 if quick else 4):
        cs += gen.session_cases(rng)
        cs += gen.conditional_cases(rng)
        cs += gen.encword_cases(rng)
    cs += gen.cache_cases(rng, 400 if quick else 4000)
    cs += gen.reflect_cases(rng, 3 if quick else 36)
    cs += gen.dispatch_cases(rng, 400 if quick else 6000)
    cs += gen.chunked_cases(rng, 700 if quick else 8000)
    return gen.debug_twins(rng, cs)


def _cross_worker(cases):
    app.setup()
    out = []
    try:
        for c in cases:
            obs = run_request(c)
            out.append({'status': obs['status'], 'exc': obs['exc'], 'escaped': obs['escaped'],
                        'malformed': obs.get('malformed'),
                        'sent': obs.get('sent') if (obs['status'] >= 500 or c.get('digest') is not None
                                                    or c['target'].startswith('basic')) else None,
                        'pre_status': obs.get('pre_status')})
    finally:
        app.teardown()
    return out, _worker_hits()


def cross_stream(ctx):
    cases = cross_cases(ctx.rng, ctx.quick())
    ctx.extra['cross_stream_cases'] = len(cases)
    if ctx.quick():
        for c in cases:
            check_request(ctx, c)
        return
    chunks = [cases[i::48] for i in range(48)]
    for chunk, (res, hits) in zip(chunks, common.parallel_map(_cross_worker, chunks)):
        _merge_hits(hits)
        for c, obs in zip(chunk, res):
            check_request(ctx, c, obs)


# ----------------------------------------------------------------------------------------------
# model comparison: CherryPy's own parsers, unit level and site level
# ----------------------------------------------------------------------------------------------
def T(s):
    """text -> driver token (decimal code points joined by '.')"""
    return '.'.join(str(ord(ch)) for ch in s) or '-'


def H(b):
    return b.hex() or '-'


def _real_class(f):
    return app.guarded(lambda: _real_class_unguarded(f))


def _real_class_unguarded(f):
    try:
        f()
        return 'ok'
    except Exception as e:
        import cherrypy
        if isinstance(e, cherrypy.HTTPError):
            return 'http:%d' % e.status
        return 'err:' + _cls_name(e)


CODEC_KINDS = {'utf-8': 'utf8', 'utf8': 'utf8', 'iso-8859-1': 'latin1', 'latin-1': 'latin1', 'us-ascii': 'ascii',
               'ascii': 'ascii', 'nosuch': 'unknown', 'utf-9': 'unknown', 'hex': 'unknown', 'rot13': 'unknown',
               'undefined': 'undefined'}


def unit_cases(ctx, n):
    """Yield (driver line, thunk computing the real-side answer, case description)."""
    from cherrypy.lib import httputil
    rng = ctx.rng
    cases = []
    for i in range(n):
        k = i % 7
        if k == 0:
            hv = gen.sanitize(gen.mutated(rng, gen.gen_range(rng), 0.7))
            ln = rng.choice([0, 1, 14, 111, 1000])
            if hv and '=?' not in hv:      # (an RFC 2047 word is decoded / rejected before any header parser runs)
                cases.append(('ranges %s %d' % (T(hv), ln), ('ranges', hv, ln)))
        elif k == 1:
            qs = gen.sanitize(gen.mutated(rng, gen.gen_qs(rng), 0.6))
            cases.append(('qs %s' % T(qs), ('qs', qs)))
        elif k == 2:
            body = gen.gen_urlencoded(rng)
            if rng.random() < 0.4:
                body = gen.sanitize(gen.mutate(rng, body))
            names = [gen.pick(rng, list(CODEC_KINDS))] if rng.random() < 0.7 else []
            cases.append(('urlenc %s %s' % (H(body.encode('latin-1')), ','.join(CODEC_KINDS[x] for x in names) or '-'),
                          ('urlenc', body, names)))
        elif k == 3:
            cases.append(gen_mp_unit(rng))
        elif k == 4:
            v = gen.pick(rng, ["utf-8''%e2%82%ac.txt", "nosuch''%41.txt", "nosuch''abc.txt", "utf-8'%41", "a'b'c'd", '', "''",
                               "utf-8'en'x", "iso-8859-1''%e9", "'''", "x"])
            v = gen.sanitize(gen.mutated(rng, v, 0.5)).strip()
            # (the value follows `filename*=`: a leading `?` would make `=?`, an RFC 2047 word the framework decodes first)
            if any(ch in v for ch in ';",\\') or '=?' in ('=' + v) or any(ord(ch) < 33 or 126 < ord(ch) < 161 for ch in v):
                continue
            enc = v.split("'")[0] if v.count("'") == 2 else 'utf-8'
            # the model knows two kinds of charset names: plain text codecs that honour errors='replace', and unknown ones
            if enc.lower() in ('utf-8', 'iso-8859-1', 'us-ascii', 'latin-1', 'ascii', 'cp1252'):
                kind = 'known'
            elif enc in ('nosuch', 'utf-9', 'x', 'nosuc', 'nosuchh'):
                kind = 'unknown'
            else:
                continue
            cases.append(('fstar %s %s' % (T(v), kind), ('fstar', v, kind)))
        elif k == 5:
            v = gen.sanitize(gen.mutated(rng, gen.pick(rng, ['0', '1', '0.5', '0.001', '1.0', '.5', '0.', '1e0', 'nan', 'inf', '-1', '2',
                                                            'x', '', '0,5', '\xb2', '1_0', ' 1', '0x1', '1e400', 'Infinity', '+.5e-3',
                                                            '1__0', '_1', '1_', '1e', 'e5', '.', '-', '+inf', 'in', 'nano', '1.e5',
                                                            '1_0.0_1e1_0', '1._5', '1e_5', '\t1\n', '\x1f1', '\xa01', '\x851']), 0.4))
            cases.append(('qvalue %s' % T(v), ('qvalue', v)))
        else:
            v = gen.pick(rng, ['max-age=%d' % rng.randrange(100), 'max-age=0', 'no-cache', 'max-age', 'max-age=', 'max-age=x',
                               'max-age=-1', 'max-age=1.5', 'max-age=\xb2', 'max-age=' + '9' * 19, 'max-age=' + '9' * 18,
                               'MAX-AGE=5', 'max-age =5', 'private', 'max-age=1_0', 'max-age= 5', 'max-age==', 'max-age=+5',
                               'max-age=5=', 'x=max-age', 'max-age=05'])
            v = gen.sanitize(gen.mutated(rng, v, 0.3)).strip()
            if any(ch in v for ch in ';",\\') or not v or '=?' in v or any(ord(ch) < 32 or 126 < ord(ch) < 161 for ch in v):
                continue
            cases.append(('maxage %s' % T(v), ('maxage', v)))
    return cases


def gen_mp_unit(rng):
    """Multipart framing inside the model's scope: simple part headers, arbitrary line structure."""
    ib = gen.pick(rng, ['B', 'B', 'B', 'XyZ', 'a b', '', ' ', 'B ', 'b' * 201, 'b' * 202, 'B\xe9', '\t', 'B\x7f', '-', '--'])
    b = ib.encode('latin-1')
    lines = []
    pool = [b'--' + b + b'\r\n', b'--' + b + b'\r\n', b'--' + b + b'--\r\n', b'--' + b + b'--\r\n', b'\r\n', b'\r\n',
            b'Content-Disposition: form-data; name="a"\r\n', b'Content-Disposition: form-data; name="a"\r\n',
            b'value\r\n', b'caf\xc3\xa9\r\n', b'caf\xe9\r\n', b'X-Y: z\r\n', b'nocolon\r\n', b' continued\r\n', b'\tc\r\n',
            b'X-Y: z\n', b'\n', b'--' + b + b'\n', b'--' + b + b'  \r\n', b'--' + b + b'--', b'value', b'--\r\n',
            b'--' + b + b'-\r\n', b'  --' + b + b'\r\n', b':\r\n', b'a:b:c\r\n', b'\r', b'--' + b + b'--  \t\r\n']
    if rng.random() < 0.6:
        # mostly valid skeleton, then damage
        lines.append(b'--' + b + b'\r\n')
        for _ in range(rng.choice([1, 1, 2, 3])):
            lines.append(b'Content-Disposition: form-data; name="a"\r\n')
            lines.append(b'\r\n')
            lines.append(gen.pick(rng, [b'value\r\n', b'caf\xc3\xa9\r\n', b'caf\xe9\r\n', b'\r\n', b'a\r\nb\r\n']))
            lines.append(b'--' + b + b'\r\n')
        lines[-1] = b'--' + b + b'--\r\n'
        for _ in range(rng.choice([0, 0, 1, 1, 2])):
            r = rng.random()
            if r < 0.4 and lines:
                del lines[rng.randrange(len(lines))]
            elif r < 0.8:
                lines.insert(rng.randrange(len(lines) + 1), gen.pick(rng, pool))
            elif lines:
                j = rng.randrange(len(lines))
                lines[j] = lines[j][:rng.randrange(len(lines[j]) + 1)]
    else:
        lines = [gen.pick(rng, pool) for _ in range(rng.choice([0, 1, 2, 3, 5, 8]))]
    body = b''.join(lines)
    if rng.random() < 0.15 and body:
        body = body[:rng.randrange(len(body))]
    short = rng.random() < 0.15     # declared length larger than what arrives
    return ('multipart %s %s %d' % (T(ib), H(body), 1 if short else 0), ('multipart', ib, body.decode('latin-1'), short))


def real_unit(desc):
    """The real side of one unit case: outcome class of the parser, and the status at its site."""
    from cherrypy.lib import httputil
    kind = desc[0]
    proto = _proto_of(desc)
    if kind == 'ranges':
        _, hv, ln = desc
        # what is compared: the public `get_ranges` result and the status at the site (how the private helper
        # `_get_ranges` signals an invalid spec - None or ValueError - is not observable and may be refactored)
        def pub():
            try:
                r = httputil.get_ranges(hv, ln)
            except Exception as e:      # noqa: the class is the observation
                return 'err:' + _cls_name(e)
            if r is None:
                return 'N'
            return ','.join('%d:%d' % (a, b) for a, b in r) or '-'
        obs = app.call(_req('GET', '/file', [['Range', hv]], proto=proto))
        return '? %s %s' % (_cls_status(obs['status']), app.guarded(pub)), obs
    if kind == 'qs':
        raw = _real_class(lambda: httputil.parse_query_string(desc[1]))
        obs = app.call(_req('GET', '/plain', qs=desc[1], proto=proto))
        return '%s %s' % (raw, _cls_status(obs['status'])), obs
    if kind == 'urlenc':
        _, body, names = desc
        ct = 'application/x-www-form-urlencoded' + (''.join('; charset=' + x for x in names))
        obs = app.call(_req('POST', '/form', [['Content-Type', ct]], body, proto=proto))
        return _cls_status(obs['status']), obs
    if kind == 'multipart':
        _, ib, body, short = desc
        req = _req('POST', '/upload', [['Content-Type', 'multipart/mixed; boundary="%s"' % ib]], body, proto=proto)
        if short:
            req['headers'][-1][1] = str(len(body) + 7)
        obs = app.call(req)
        return _cls_status(obs['status']), obs
    if kind == 'fstar':
        obs = app.call(_req('GET', '/plain', [['Content-Disposition', 'form-data; filename*=' + desc[1]]], proto=proto))
        return _cls_status(obs['status']), obs
    if kind == 'qvalue':
        raw = _real_class(lambda: httputil.AcceptElement('x', {'q': desc[1]}).qvalue)
        return raw, None
    if kind == 'maxage':
        obs = run_request(dict(_req('GET', '/cache/u', [['Cache-Control', desc[1]]], proto=proto), prime=True))
        return _cls_status(obs['status']), obs
    raise common.HarnessError('unknown unit kind %r' % (kind,))


def _cls_status(st):
    return 'st:%d' % (500 if st >= 500 else st)


def canon_model_unit(kind, line):
    """Model answer -> the same shape as real_unit's."""
    return line


def unit_stream(ctx, n):
    cases = unit_cases(ctx, n)
    lines = ctx.model([c[0] for c in cases])
    for i, (line, desc) in enumerate(cases):
        real, obs = real_unit(desc)
        if (obs is not None and obs.get('skipped')) or app.SKIPPED in real:
            ctx.count('not-run-after-hangs')
            continue
        ctx.case({'unit': list(desc)}, nontrivial=True, key=line)
        ctx.count('unit:%s:%s' % (desc[0], real))
        if obs is not None and obs['status'] >= 500:
            sig = sig_of(obs)
            ctx.oracle_fail({'unit': list(desc)}, 'unit %s %r -> status %s (%s)' % (desc[0], desc[1:], obs['status'], sig), sig)
            continue
        if lines is not None:
            ctx.compared()
            model = lines[i]
            if not unit_agree(desc[0], real, model):
                ctx.disagree({'unit': list(desc), 'line': line}, real, model, 'parser %s: outcome differs' % desc[0])


def unit_agree(kind, real, model):
    # ranges at the /file site: any tolerated outcome is 200/206/416 (which of them is C16's business)
    if kind == 'ranges':
        r = real.split(' ')
        m = model.split(' ')
        return (r[1] in ('st:200', 'st:206', 'st:416')) == (m[1] == 'st:200') and r[2:] == m[2:]
    return real == model


def check_contract_copy(ctx):
    lines = ctx.model(['contract %s' % s for s in SITE_ORDER])
    if lines is None:
        return
    for s, l in zip(SITE_ORDER, lines):
        got = sorted(x for x in l.split(',') if x and x != '-')
        if got != sorted(CONTRACT[s]):
            raise common.HarnessError('contract of site %s differs between harness (%s) and Lean (%s)'
                                      % (s, sorted(CONTRACT[s]), got))
    # the model's catch map against fresh measurements (same data as the generated table, compared through the
    # driver), for HTTP/1.1 GET/POST probes, the same probes as HTTP/1.0, and as HEAD over HTTP/1.0
    for proto, head in (('HTTP/1.1', False), ('HTTP/1.0', False), ('HTTP/1.0', True), ('HTTP/1.1', True)):
        if app.HANG['n'] >= 6:
            break
        tab = measure_catch_table(proto, head)
        for site in sorted(UNMEASURABLE):
            ctx.count('catch:injection-ineffective:%s' % site)
            tab = {k: v for k, v in tab.items() if k[0] != site}
        if (proto, head) != ('HTTP/1.1', False):
            # a probe that does not reach its site under this protocol / method (Range is not looked at for
            # HTTP/1.0) answers the same whatever is injected: nothing to compare there
            for site in SITE_ORDER:
                if set(v for k, v in tab.items() if k[0] == site) == {BASE_STATUS.get(site)}:
                    ctx.count('catch:%s:site-not-reached:%s' % (proto + ('+HEAD' if head else ''), site))
                    tab = {k: v for k, v in tab.items() if k[0] != site}
        keys = sorted(tab)
        out = ctx.model(['catch %s %s' % k for k in keys])
        for k, l in zip(keys, out):
            ctx.compared()
            ctx.count('catch:%s:%s' % (proto + ('+HEAD' if head else ''), '5xx' if tab[k] >= 500 else '%dxx' % (tab[k] // 100)))
            if l != str(tab[k]):
                ctx.disagree({'site': k[0], 'exc': k[1], 'proto': proto, 'head': head}, tab[k], l,
                             'catch map: status of (%s, %s) differs' % k)


# ----------------------------------------------------------------------------------------------
def corpus_cases():
    d = os.path.join(common.CORPUS, PROPERTY)
    out = []
    if os.path.isdir(d):
        for f in sorted(os.listdir(d)):
            if f.endswith('.json'):
                out.append(json.load(open(os.path.join(d, f))))
    return out


def run_case(ctx, case):
    if 'tok' in case or 'dinit' in case or 'respenc' in case or 'trailers' in case or 'bind' in case or 'unq' in case:
        return tok.replay_case(ctx, case)
    if 'unit' in case:
        desc = tuple(case['unit'])
        cases = [(case.get('line') or unit_line(desc), desc)]
        lines = ctx.model([cases[0][0]])
        real, obs = real_unit(desc)
        ctx.case(case, key=cases[0][0])
        if obs is not None and obs['status'] >= 500:
            sig = sig_of(obs)
            ctx.oracle_fail(case, 'unit %s -> status %s (%s)' % (desc[0], obs['status'], sig), sig)
        elif lines is not None:
            ctx.compared()
            if not unit_agree(desc[0], real, lines[0]):
                ctx.disagree(case, real, lines[0], 'parser %s: outcome differs' % desc[0])
        return real, (lines[0] if lines else None)
    obs = check_request(ctx, case)
    model = None
    for flow in (DIGEST_FLOW, BASIC_FLOW):
        if flow.items:
            out = ctx.model([flow.items[-1][2]])
            model = 'status %s' % out[0] if out else None
            flow.flush(ctx)
        BASIC_FLOW.flush(ctx)
    return obs, model


def unit_line(desc):
    k = desc[0]
    if k == 'ranges':
        return 'ranges %s %d' % (T(desc[1]), desc[2])
    if k == 'qs':
        return 'qs %s' % T(desc[1])
    if k == 'urlenc':
        return 'urlenc %s %s' % (H(desc[1].encode('latin-1')), ','.join(CODEC_KINDS[x] for x in desc[2]) or '-')
    if k == 'multipart':
        return 'multipart %s %s %d' % (T(desc[1]), H(desc[2].encode('latin-1')), 1 if desc[3] else 0)
    if k == 'fstar':
        return 'fstar %s %s' % (T(desc[1]), desc[2])
    if k == 'qvalue':
        return 'qvalue %s' % T(desc[1])
    if k == 'maxage':
        return 'maxage %s' % T(desc[1])
    raise common.HarnessError('no line for %r' % (desc,))


def run(ctx):
    app.setup()
    _ensure_codec()
    cov = covmod.start()
    try:
        # known findings first: each witness must still reproduce with exactly its signature
        for e in ctx.known:
            if e.get('status') == 'known':
                learn_alias(e, run_request(e['witness']))
        for e in ctx.known:
            if e.get('status') == 'known':
                check_request(ctx, e['witness'])
            elif e.get('status') == 'fixed' and e.get('witness'):
                for w in (e['witness'] if isinstance(e['witness'], list) else [e['witness']]):
                    check_request(ctx, w)
        for c in corpus_cases():
            run_case(ctx, c)
        check_contract_copy(ctx)
        fuzz_contracts(ctx, ctx.budget(1500, 40000))
        unit_stream(ctx, ctx.budget(3500, 120000))
        tok.tok_stream(ctx, ctx.budget(4500, 90000))
        tok.dinit_stream(ctx, ctx.budget(400, 8000))
        tok.respenc_stream(ctx, ctx.budget(400, 8000))
        tok.bind_stream(ctx, ctx.budget(1500, 40000))
        tok.trailer_stream(ctx, ctx.budget(400, 10000))
        tok.unq_stream(ctx, ctx.budget(600, 20000))
        tok.limit_stream(ctx, ctx.budget(300, 6000))
        tok.host_stream(ctx, ctx.budget(150, 3000))
        tok.dispatch_e2e(ctx, ctx.budget(500, 10000))
        cross_stream(ctx)
        request_stream(ctx, ctx.budget(10000, 400000))
        DIGEST_FLOW.flush(ctx)
        BASIC_FLOW.flush(ctx)
    except StopStreams:
        ctx.note('the code under test hung on %d requests: streams stopped early' % app.HANG['n'])
    finally:
        covmod.stop()
        app.teardown()
    cov.report(ctx)


def search(ctx, around=None):
    """Oracle-only hunt (no model): a bigger request stream, concentrated on the disagreeing element."""
    app.setup()
    _ensure_codec()
    try:
        dctx = {'realm': app.REALM, 'key': app.DIGEST_KEY, 'now': app.FIXED_NOW}
        target = None
        if isinstance(around, dict) and around.get('unit'):
            target = {'ranges': 'file', 'qs': 'plain', 'urlenc': 'form', 'multipart': 'upload', 'fstar': 'plain',
                      'qvalue': 'neg', 'maxage': 'cache'}.get(around['unit'][0])
        # the systematic cross streams first (other random choices than in run()), then the random stream
        for c in cross_cases(ctx.rng, True):
            check_request(ctx, c)
            if len(ctx.oracle_failures) >= 3:
                break
        for i in range(ctx.budget(14000, 150000)):
            if len(ctx.oracle_failures) >= 3:
                break
            c = gen.gen_case(ctx.rng, target=target if (target and i % 2) else None, digest_ctx=dctx)
            check_request(ctx, c)
        if not ctx.oracle_failures:
            for line, desc in unit_cases(ctx, ctx.budget(10000, 100000)):
                _real, obs = real_unit(desc)
                if obs is not None and obs['status'] >= 500:
                    sig = sig_of(obs)
                    ctx.oracle_fail({'unit': list(desc)}, 'unit %s -> status %s (%s)' % (desc[0], obs['status'], sig), sig)
                    break
    except StopStreams:
        pass
    finally:
        app.teardown()


def replay(ctx, case):
    app.setup()
    _ensure_codec()
    try:
        real, model = run_case(ctx, case)
        print('case  :', json.dumps(case)[:2000])
        print('impl  :', real if isinstance(real, str) else {k: real[k] for k in ('status', 'exc')})
        if not isinstance(real, str) and real.get('sent') and (case.get('pre') or case.get('digest')):
            print('sent  :', describe_sent(case, real)[:3000])
        if model is not None:
            print('model :', model)
    finally:
        app.teardown()
