"""C09 - hooks run in priority order, fail-safe hooks always run, end hooks run exactly once.

Model: lean/CpModel/{Hooks,Pipeline,Wsgi}.lean, theorems: lean/CpProofs/C09.lean, driver: lean/Drv/C09.lean.
Real code: a fresh `cherrypy.Application` per fault plan, called in-process as a WSGI callable
(harness/pipeline_common.py); the observable is the ordered journal of `hooks.run(point)` visits and
hook calls per Request object, plus handler / start_response / close() markers.
"""
import itertools
import json
import os
import re

from . import common
from . import pipeline_common as pc
from . import c09_attach as ca
from . import c09_tables

PROPERTY = 'C09'
LEAN_TARGETS = ['CpProofs.C09', 'CpProofs.C09Attach', 'CpProofs.C09Sorted', 'CpProofs.C09Heap', 'drv_c09']
DRIVER = 'drv_c09'
THEOREMS = [
    'CpProofs.C09.sortByPrio_perm',
    'CpProofs.C09.sortByPrio_sorted',
    'CpProofs.C09.sortByPrio_stable',
    'CpProofs.C09.C09_order',
    'CpProofs.C09.C09_failsafe',
    'CpProofs.C09.C09_failsafe_exactly_once',
    'CpProofs.C09.C09_ordinary_after_failure_skipped',
    'CpProofs.C09.C09_last_exception_propagates',
    'CpProofs.C09.C09_no_failure_all_run',
    'CpProofs.C09.C09_point_visit_shape',
    'CpProofs.C09.C09_end_resource_once',
    'CpProofs.C09.C09_end_request_once',
    'CpProofs.C09.C09_end_request_at_first_close',
    'CpProofs.C09.C09_end_request_not_without_close',
    'CpProofs.C09.C09_documented_order',
    'CpProofs.C09.C09_at_most_once',
    'CpProofs.C09.request_zero_present',
    'CpProofs.C09.run_fails_iff',
    # where hook point / priority / fail-safe flag come from (lean/CpModel/HookAttach.lean)
    'CpProofs.C09.mkHook_precedence',
    'CpProofs.C09.mkHook_explicit',
    'CpProofs.C09.toolPriority_precedence',
    'CpProofs.C09.toolPriority_config_wins',
    'CpProofs.C09.setupTool_plain',
    'CpProofs.C09.setupTool_handler',
    'CpProofs.C09.setupTool_caching',
    'CpProofs.C09.setupTool_error',
    'CpProofs.C09.setupTool_session',
    'CpProofs.C09.exitToolbox_hooks',
    'CpProofs.C09.contribution_disabled',
    'CpProofs.C09.contribution_one',
    'CpProofs.C09.toolmapOf_nodup',
    'CpProofs.C09.attachAll_hooks',
    'CpProofs.C09.requestNamespaces_hooks_first',
    'CpProofs.C09.attachAll_hooks_then_tools',
    'CpProofs.C09.defaultTools_ok',
    'CpProofs.C09.default_plain_tool',
    'CpProofs.C09.default_priorities_numeric',
    'CpProofs.C09.default_tool_hook_count',
    'CpProofs.C09.exitToolbox_errorResponse',
    # what sorted() on Hook.__lt__ gives; link to the natural-number priorities of the pipeline model
    'CpProofs.C09.sortedHooks_numeric',
    'CpProofs.C09.sortedHooks_typeError_iff',
    'CpProofs.C09.sortedHooks_perm',
    'CpProofs.C09.sortBy_map',
    'CpProofs.C09.run_numeric',
    # per-request copies of the class-level HookMap
    'CpProofs.C09.serveAll_no_alias',
    'CpProofs.C09.class_level_unchanged',
]
TRUSTED_BASE = [
    'Python semantics transcribed by hand: shared-iterator `filter`, exception replacement inside `except`/`finally` '
    'blocks, stability of `sorted` and that it uses `<` only, `getattr` with a default, keyword binding of '
    '`attach(point, cb, priority=p, **conf)`',
    'the visit markers come from a HookMap subclass installed through Application.request_class (its `run` journals and '
    'then calls the real `run`)',
    'the effective configuration of a request is read off the real request (`request.config` as the dispatcher merged '
    'it): merging config levels is not part of this property',
]
ASSUMPTIONS = [
    'hooks have a fixed outcome (return / raise HTTPError / HTTPRedirect / InternalRedirect / Exception) and do not '
    'mutate the hook list they are in; KeyboardInterrupt/SystemExit excluded (as in the statement)',
    'cherrypy.log and cherrypy.log.access do not raise; engine listeners other than the generated failing '
    '`after_request` listener do not raise',
    'the WSGI server calls close() (the model also covers 0 and repeated calls)',
    'priorities are None, bool, int, float (no NaN / infinity) or str; where the documentation gives a value no '
    'meaning as a priority (bool, str, an attribute that is None) or as a fail-safe flag (\'\', \'False\', ...) the '
    'oracle makes no demand (the model still pins what the code does with it)',
]
LEVEL = 'proof'
TECHNIQUE = ('Lean 4 proof by induction over arbitrary hook lists / fault plans / configurations on a transcription of '
             'HookMap.run_hooks, Request.run/respond/handle_error/close, the WSGI layer and of Hook.__init__ / HookMap.attach / '
             'Toolbox / Tool._setup and its overrides / the namespace order; models tied to the code by differential '
             'comparison (journal, request.hooks, toolmaps, sorted order) on generated fault plans and declarations')
LEVEL_TEXT = ('Proved in Lean for every hook list (any length, priorities, fail-safe bits, outcomes incl. second failures '
              'inside the fail-safe continuation): the hooks called at a point are exactly sorted[:k+1] + failsafe(sorted[k+1:]) '
              'for k the first failure, each once, in stable priority order, and the last raised exception propagates; '
              'sorted() on Hook.__lt__ for numeric priorities of any sign / size / kind (bool, int, float) is the stable '
              'ascending sort and commutes with the natural-number coding the pipeline model uses, and raises TypeError '
              'exactly for >= 2 hooks of mixed kinds. '
              'Proved for every fault plan (any pages, redirect chains, handler outcomes, stream consumed / abandoned, any '
              'number of close() calls): each Request object visits on_end_resource exactly once and on_end_request exactly '
              'once (at the first close(), never later; never when the server does not close), and its visit sequence is '
              'accepted by the documented-order automaton. '
              'Proved for every configuration / toolbox / set of callable attributes: a hook gets the declared priority and '
              'fail-safe flag (explicit argument or config entry, also a falsy one like 0, > attribute of the callable > '
              'Tool(priority=) > Hook default), every enabled Tool / HandlerTool / CachingTool contributes exactly one hook '
              'at its point, ErrorTool none, a tool that is off none, hooks.* entries come after the class-level hooks and '
              'before every tool hook, a request\'s HookMap shares no list with the class-level one; instantiated for '
              'the default toolbox table regenerated from cherrypy.tools. '
              'Correspondence with the real code is checked on generated and exhaustively enumerated small fault plans '
              'and on declarations through every channel x boundary values each run. '
              'Oracle only (real runs, no model): request.throw_errors, request.throws naming the probe exception, '
              'request.error_response = None, a failing after_request listener, a HandlerTool that handles the request, '
              'a malformed toolbox entry.')
LEVEL_NOTE = ('Trusted: Lean kernel (axioms propext, Classical.choice, Quot.sound only); the hand models '
              'lean/CpModel/{Hooks,Pipeline,Wsgi,HookAttach}.lean as validated by the differential runs; the harness. Hooks '
              'with side effects on the hook list are out of scope.')
RULE = ('fault plans: 1-3 pages, 0-5 hooks per point (priorities {10,50,50,90}, fail-safe bit, outcome ok/Exception/'
        'HTTPError/HTTPRedirect/InternalRedirect), handler outcome x return shape x status, dispatcher / namespace / body / '
        'error_response / error_page sites, stream bit, GET/HEAD/POST, partial reads, 0-3 close() calls; half the plans '
        'concentrate 3-5 hooks on one point; plus an exhaustive enumeration of all hook lists of <=2 (quick) / <=3 '
        '(thorough) hooks at one point x 8 points x handler outcomes. Declaration plans: 2-7 hooks per page declared '
        'through Hook objects / bare callables / dotted names in hooks.*, Tool, HandlerTool, ErrorTool, CachingTool- and '
        'SessionTool-subclasses in three toolboxes, class-level hooks; priority / fail-safe written to every slot (Hook '
        'argument, callable attribute, Tool(priority=), <box>.<tool>.priority|failsafe at global / root / app / handler / '
        'path level, decorator) with values from {0, 0.0, -0.0, -1, -50, 1, 0.25, 49..51 in quarter steps, 99..101, 1e9, '
        '+-2^70, 2.0^60, True, False, None, \'10\', \'5\', \'\'} / {True, False, 1, 0, None, \'\', \'False\'}; a targeted '
        'enumeration of channel x slot x value among neighbouring reference hooks attached before and after. '
        'Non-trivial = at least one hook was called; distinct = distinct plan')

SEQ_RE = re.compile(r'^0?1?2?3{0,2}4(67?)?5?$')


def tables(ctx):
    """Finite tables of the anchored code, regenerated by executing it (lean/CpModel/Gen/PipelineTables.lean)."""
    t = dict(pc.tables(ctx))
    t.update(c09_tables.tables())
    return t


# ----------------------------------------------------------------------------------------------
# oracle: the statement evaluated on the journal of the real run
# ----------------------------------------------------------------------------------------------
def _expected(plan, obs):
    """Per Request object: what the application declared.  Returns (exp, att, complete):
    exp[r] = {id: {'point', 'prio', 'fs', 'out', 'enabled'}} (None: membership unknown, old-format plans),
    att[r][p] = [(id | None, actual priority, actual failsafe)] probe hooks in attachment order."""
    nreq = len(obs['reqs'])
    exp, att = [], []
    snaps = obs.get('snaps')
    planned = {hk[1]: {'point': hk[0], 'prio': hk[2], 'fs': bool(hk[3]), 'out': hk[4], 'enabled': True}
               for pg in plan['pages'] for hk in pg.get('hooks', [])}
    for r in range(nreq):
        if snaps is None or r >= len(snaps):
            a = {p: [(h[0] if h[0] >= 0 else None, h[1], h[2]) for h in obs['reqs'][r]['hooks'][p]] for p in range(8)}
            att.append(a)
            exp.append(None if snaps is None else {})
            continue
        sn = snaps[r]
        a = {p: [] for p in range(8)}
        for p, ref, pr, fs, kw in sn['hooks']:
            if ref[:1] == 'u':
                a[p].append((int(ref[1:]), pr, fs))
            elif ref == '?':
                a[p].append((None, pr, fs))
        att.append(a)
        e = {hk[1]: planned[hk[1]] for i, pg in enumerate(plan['pages']) if i == sn['page']
             for hk in pg.get('hooks', [])}
        cfg = sn['config']
        for d in plan.get('cls', []):
            dd = ca.declared(d, cfg)
            dd['out'] = d['out']
            e[d['id']] = dd
        # a malformed entry `<box>.<tool>` (no argument name) makes `populate` raise half way through that
        # toolbox's entries; its tools are then set up from what had been read so far and the request fails: the
        # application's own configuration error — no demand on how those tools' hooks are declared
        broken = {d['box'] for pg in plan['pages'] for d in pg.get('decls', [])
                  if any(not k for _, k, _ in d.get('conf', []))}
        for i, pg in enumerate(plan['pages']):
            for d in pg.get('decls', []):
                if d['ch'] in ('hobj', 'hbare', 'hstr') and i != sn['page']:
                    continue
                dd = ca.declared(d, cfg)
                if not dd['hook']:
                    continue
                if d.get('box') in broken:
                    dd.update({'prio': ca.AMBIG, 'fs': None, 'enabled': None})
                dd['out'] = d['out']
                e[d['id']] = dd
        exp.append(e)
    return exp, att, planned


def _truthy(v):
    try:
        return bool(v)
    except Exception:     # noqa: BLE001
        return None


def _same_number(actual, want):
    try:
        return isinstance(actual, (int, float)) and actual == want
    except Exception:     # noqa: BLE001
        return False


def oracle(plan, obs):
    """List of (what, signature) failures of C09 on this observation."""
    bad = []
    if obs.get('rejected'):
        # Hook(...) / Tool(...) / the decorator / the application config raised for a declaration the documentation
        # allows: the hooks cannot run as declared
        return [('declaring the hooks failed: %s' % obs['rejected'], 'declaration_rejected')]
    # the decorator form `@tool(priority=..., failsafe=..., arg=...)`: Tool.__call__ must leave `on` = True and every
    # keyword argument, with its value, in the handler's _cp_config
    for pg in plan['pages']:
        for d in pg.get('decls', []):
            if 'deco' in d and 'decorated' in obs:
                got = obs['decorated'].get(d['id'])
                want = dict(d['deco'])
                want['on'] = True
                same = isinstance(got, dict) and set(got) == set(want) and all(
                    type(got[k]) is type(want[k]) and got[k] == want[k] for k in want)
                if not same:
                    bad.append(('the decorator %s.d%d(**%r) left %r in the handler\'s _cp_config'
                                % (d['box'], d['id'], d['deco'], got), 'decorator_declaration_lost'))
    j = obs['j']
    groups = []        # (req, point, [ids], position)
    cur = None
    for pos, t in enumerate(j):
        if t[0] == 'v':
            r, p = t[1:].split('.')
            cur = (r, int(p), [], pos)
            groups.append(cur)
        elif t[0] == 'h':
            r, p, hid = t[1:].split('.')
            if cur is None or cur[0] != r or cur[1] != int(p):
                bad.append(('hook call %s outside a run of its hook point' % t, 'hook_outside_point'))
            else:
                cur[2].append(int(hid))
        else:
            cur = None
    nreq = len(obs['reqs'])
    exp, att, planned = _expected(plan, obs)
    flagged = set()
    # --- what is attached is what was declared (priority / fail-safe flag / hook point / once) -----------------
    for r in range(nreq):
        e = exp[r]
        started = any(rr == str(r) and p == 0 for rr, p, _, _ in groups)
        seen = {}
        for p in range(8):
            for hid, pr, fs in att[r][p]:
                if hid is None:
                    continue
                seen[hid] = seen.get(hid, 0) + 1
                d = (e if e is not None else planned).get(hid)
                if d is None:
                    if e is not None and hid not in flagged:
                        flagged.add(hid)
                        bad.append(('request %d (page %s) has hook %d attached at %s, which its configuration does not '
                                    'declare' % (r, obs['snaps'][r]['page'], hid, pc.POINT_NAMES[p]),
                                    'hook_attached_undeclared'))
                    continue
                if hid in flagged:
                    continue
                if d['enabled'] is False:
                    flagged.add(hid)
                    bad.append(('hook %d of a tool that is switched off is attached to request %d' % (hid, r),
                                'hook_attached_undeclared'))
                elif d['point'] != p:
                    flagged.add(hid)
                    bad.append(('hook %d declared for %s is attached at %s' % (hid, pc.POINT_NAMES[d['point']],
                                                                             pc.POINT_NAMES[p]),
                                'hook_declaration_not_honoured'))
                elif ((d['prio'] not in (ca.AMBIG, ca.NONNUM) and not _same_number(pr, d['prio']))
                      or (d['fs'] is not None and _truthy(fs) != d['fs'])):
                    flagged.add(hid)
                    bad.append(('hook %d declared with priority %r, failsafe %r is attached with priority %r, failsafe %r'
                                % (hid, d['prio'], d['fs'], pr, fs), 'hook_declaration_not_honoured'))
                elif seen[hid] > 1:
                    flagged.add(hid)
                    bad.append(('hook %d is attached %d times to request %d' % (hid, seen[hid], r),
                                'hook_attached_undeclared'))
        if e is not None and started:
            for hid, d in e.items():
                if d['enabled'] is True and hid not in seen and hid not in flagged:
                    flagged.add(hid)
                    bad.append(('hook %d (declared for %s, switched on) is not attached to request %d'
                                % (hid, pc.POINT_NAMES[d['point']], r), 'hook_not_attached'))
    # --- every run of a hook point --------------------------------------------------------------------------
    for r, p, called, pos in groups:
        if not r.isdigit() or int(r) >= nreq:
            bad.append(('hook point %s run on an unknown request object (%s)' % (pc.POINT_NAMES[p], r),
                        'visit_on_unknown_request'))
            continue
        e = exp[int(r)]
        table = e if e is not None else planned
        # priority / fail-safe as the application declared them (config Hook objects, Tool priority, config
        # entries, callable attributes), not as the request happens to have recorded them; attachment order as
        # the request has it
        attached, skip = [], None
        for hid, pr, fs in att[int(r)][p]:
            d = table.get(hid) if hid is not None else None
            if d is None:
                if hid is None or e is not None:
                    skip = 'a hook that cannot be identified / is not declared'
                    break
                attached.append((hid, pr, _truthy(fs), 'ok'))     # old-format plan: as the request recorded it
                continue
            if d['prio'] in (ca.AMBIG, ca.NONNUM):
                skip = 'a priority the documentation gives no meaning to'
                break
            attached.append((hid, d['prio'], d['fs'], d['out']))
        if skip is not None:
            # no order is defined here; still: nothing runs twice, nothing that is not attached runs
            ids = [h[0] for h in att[int(r)][p]]
            if None not in ids:
                for c in sorted(set(called)):
                    if called.count(c) > ids.count(c):
                        bad.append(('hook %d called %d times at %s of request %s (attached %d times)'
                                    % (c, called.count(c), pc.POINT_NAMES[p], r, ids.count(c)),
                                    'hook_extra:%s' % pc.POINT_NAMES[p]))
            continue
        order = sorted(attached, key=lambda h: h[1])        # ascending priority, ties in attachment order
        k = next((i for i, h in enumerate(order) if raises(h[3])), None)
        if k is None:
            want = [h[0] for h in order]
        else:
            # fail-safe flag None: the documentation does not decide — either is accepted
            want = [h[0] for h in order[:k + 1]] + [h[0] for h in order[k + 1:]
                                                   if h[2] is True or (h[2] is None and h[0] in called)]
        if called != want:
            if sorted(called) == sorted(want):
                what, sig = 'order', 'hook_order:%s' % pc.POINT_NAMES[p]
            elif set(want) - set(called):
                what, sig = 'hooks not run', 'hook_missing:%s' % pc.POINT_NAMES[p]
            else:
                what, sig = 'hooks run that must not / more than once', 'hook_extra:%s' % pc.POINT_NAMES[p]
            bad.append(('%s at %s of request %s: called %s, statement demands %s (attached, in order: %s)'
                        % (what, pc.POINT_NAMES[p], r, called, want, attached), sig))
    first_close = j.index('C') if 'C' in j else None
    starts = [t for t in j if t[0] == 'S']
    served = bool(starts) and starts[0].endswith('.0')
    for r in range(nreq):
        seq = ''.join(str(p) for rr, p, _, _ in groups if rr == str(r))
        n_res = seq.count('4')
        n_req = seq.count('5')
        last = r == nreq - 1
        if n_res != 1:
            bad.append(('on_end_resource ran %d times on request %d' % (n_res, r), 'end_resource_count_%d' % min(n_res, 2)))
        must_close = (not last) or (not served) or plan['closes'] >= 1
        if n_req > 1 or (must_close and n_req != 1):
            bad.append(('on_end_request ran %d times on request %d (close() calls: %d)' % (n_req, r, plan['closes']),
                        'end_request_count_%d' % min(n_req, 2)))
        if not SEQ_RE.match(seq) and n_res == 1 and n_req <= 1:
            bad.append(('hook points of request %d visited in the order %s' % (r, [pc.POINT_NAMES[int(c)] for c in seq]),
                        'visit_order'))
        if last and served and n_req >= 1:
            pos5 = next(pos for rr, p, _, pos in groups if rr == str(r) and p == 5)
            if first_close is None or pos5 < first_close:
                bad.append(('on_end_request of the served request ran before the server closed the iterable',
                            'end_request_before_close'))
    return bad


def raises(out):
    """Does a callback with this planned outcome raise?  (every non-ok outcome raises something)"""
    return out != 'ok'


# ----------------------------------------------------------------------------------------------
# generators
# ----------------------------------------------------------------------------------------------
def enum_small(max_hooks, outs, handlers, prios=(10, 50)):
    """All hook lists of <= max_hooks hooks at one point x 8 points x handler outcomes."""
    per_hook = [(pr, fs, o) for pr in prios for fs in (0, 1) for o in outs]
    for n in range(max_hooks + 1):
        for combo in itertools.product(per_hook, repeat=n):
            for p in range(8):
                for h in handlers:
                    hooks = [[p, i + 1, pr, fs, o] for i, (pr, fs, o) in enumerate(combo)]
                    # a fail-safe probe on each end point makes the end hooks observable as hook calls too
                    extra = [[4, 90, 50, 1, 'ok']] if p != 4 else []
                    extra += [[5, 91, 50, 1, 'ok']] if p != 5 else []
                    yield pc.base_plan([pc.base_page(hooks=hooks + extra, handler=list(h), stream=1 if h[1].startswith('gen') else 0)])


QUICK_HANDLERS = [('ok', 'bytes', None), ('ex', 'bytes', None)]
THOROUGH_HANDLERS = [('ok', 'bytes', None), ('he404', 'bytes', None), ('hr303', 'bytes', None), ('ex', 'bytes', None),
                     ('ok', 'gen', None), ('ok', 'gen1', None), ('ir0', 'bytes', None)]


def targeted_plans():
    """Hand-picked shapes the statement names explicitly."""
    P, B = pc.base_plan, pc.base_page
    end = [[4, 90, 50, 1, 'ok'], [5, 91, 50, 1, 'ok'], [4, 92, 50, 0, 'ok'], [5, 93, 50, 0, 'ok']]
    out = []
    for h in [('ok', 'bytes', None), ('he404', 'bytes', None), ('hr303', 'bytes', None), ('ex', 'bytes', None),
              ('ok', 'str', None), ('ok', 'nonit', None), ('ok', 'bytes', 99)]:
        for stream in (0, 1):
            for meth in ('get', 'head'):
                out.append(P([B(hooks=end, handler=list(h), stream=stream)], meth=meth))
    # streamed body: run to the end, raising, abandoned; repeated close()
    for sh in ('gen', 'gen0', 'gen1', 'gen2', 'file', 'list', 'nonit'):
        for reads in (None, 0, 1, 2, 3):
            for closes in (1, 2, 3):
                out.append(P([B(hooks=end, handler=['ok', sh, None], stream=1)], reads=reads, closes=closes))
    # failure inside error handling
    for er in (None, 'ok', 'ex', 'hr303', 'ir0'):
        for ep in ('absent', 'cbOk', 'cbFail', 'tmplFail'):
            for o6 in ('ok', 'ex', 'hr303'):
                out.append(P([B(hooks=end + [[6, 1, 50, 0, o6], [7, 2, 50, 1, 'ok']], handler=['ex', 'bytes', None],
                                errResp=er, errPage=ep)]))
    # internal redirects: chain, loop, from an end hook, with streaming on
    out.append(P([B(hooks=end, handler=['ir1', 'bytes', None]), B(hooks=[[4, 94, 50, 1, 'ok'], [5, 95, 50, 1, 'ok']])]))
    out.append(P([B(hooks=end, handler=['ir0', 'bytes', None])]))
    out.append(P([B(hooks=end, handler=['ir1', 'bytes', None]), B(hooks=[[4, 94, 50, 1, 'ok'], [5, 95, 50, 1, 'ok']],
                                                                    handler=['ir0', 'bytes', None])]))
    out.append(P([B(hooks=end + [[4, 1, 10, 0, 'ir1']]), B()]))
    out.append(P([B(hooks=end + [[5, 1, 10, 0, 'ir1']]), B()]))
    out.append(P([B(hooks=end, handler=['ir1', 'bytes', None], stream=1), B()]))
    # hooks attached through Tools (priority from Tool(), from config, from the callable; fail-safe attribute)
    for pt in (0, 2, 4, 5):
        out.append(P([B(hooks=end + [[pt, 1, 50, 0, 'ex', 't2'], [pt, 2, 10, 1, 'ok', 't1'], [pt, 3, 50, 1, 'ok', 't3'],
                                     [pt, 4, 50, 0, 'ok', 'c'], [pt, 5, 90, 1, 'he404', 't2'], [pt, 6, 90, 1, 'ok', 't3'],
                                     [pt, 7, 50, 0, 'ok', 'cd'], [pt, 8, 60, 0, 'ok', 'c'], [pt, 9, 40, 1, 'ok', 'c']])]))
    # failures before the hooks are attached
    out.append(P([B(hooks=end)], noHost=1))
    out.append(P([B(hooks=end, dispatch='ex')]))
    out.append(P([B(hooks=end, ns='ex')]))
    out.append(P([B(hooks=end)], badQuery=1))
    out.append(P([B(hooks=end, body='ex')], meth='post'))
    return out


# ----------------------------------------------------------------------------------------------
def observe(plan):
    """Run one plan on the real code; returns what the parent needs (picklable)."""
    decl = ca.is_decl_plan(plan)
    obs = ca.run_real(plan) if decl else pc.run_real(plan)
    fails = oracle(plan, obs)
    nhooks = sum(1 for t in obs['j'] if t[0] == 'h')
    res = {'j': obs['j'], 'fails': fails, 'nhooks': nhooks, 'escaped': obs['escaped']}
    if decl:
        res['snaps'] = [{'page': sn['page'], 'lean': sn['lean'], 'unmodelled': sn['unmodelled'], 'er': sn['er'],
                         'toolmaps': sn['toolmaps'], 'sorted': sn['sorted'], 'att': ca.real_attached(sn)}
                        for sn in obs['snaps']]
        res['cls_after'] = [(p, ref) for p, ref, pr, fs, kw in obs['cls_after']]
    return res


def _observe_chunk(plans):
    return [observe(p) for p in plans]


def _still_fails(sig):
    return lambda c: any(s == sig for _, s in observe(c)['fails'])


def plan_key(plan):
    if ca.is_decl_plan(plan):
        return json.dumps(plan, sort_keys=True)
    return pc.plan_line(plan)


def _heap_ref(ref):
    if ref[:1] in 'uw' and ref[1:].isdigit():
        return int(ref[1:])
    if ref[:1] == 'l' and ref[1:].isdigit():
        return 1000000 + int(ref[1:])
    return {'ss': 2000001, 'sc': 2000002}.get(ref, 2999999)


def _compare_attach(ctx, plan, res, outs, index):
    """Model of the attachment (lean/CpModel/HookAttach.lean) against what the Request objects hold.
    Returns the parsed model results per Request object (None where there is nothing to compare)."""
    models = []
    for sn in res['snaps']:
        m = None
        if sn['lean'] is not None and not sn['unmodelled'] and outs is not None:
            m = ca.parse_attach(outs[index[sn['lean']]])
            ctx.count('attach_compared')
            if m is None:
                ctx.disagree({'plan': plan}, 'hooks attached: %s' % (sn['att'],), 'AttributeError (tool missing)',
                             'attachment model')
            else:
                real = {'hooks': sn['att'], 'er': sn['er'], 'toolmaps': sn['toolmaps'], 'sorted': sn['sorted']}
                mod = {'hooks': ca.model_attached(m), 'er': m['er'], 'toolmaps': m['toolmaps'], 'sorted': m['sorted']}
                for k in ('hooks', 'er', 'toolmaps', 'sorted'):
                    if real[k] != mod[k]:
                        ctx.disagree({'plan': plan}, '%s=%s' % (k, real[k]), '%s=%s' % (k, mod[k]),
                                     'request.%s after self.namespaces(self.config) differs from the attachment model'
                                     % {'hooks': 'hooks', 'er': 'error_response', 'toolmaps': 'toolmaps',
                                        'sorted': 'hooks sorted per point'}[k])
                        break
        elif sn['unmodelled']:
            ctx.count('attach_unmodelled')
        models.append(m)
    return models


def _heap_line(plan, res, models):
    """`heap` case: the class-level map and what every Request object attached to its copy."""
    def enc(p, n):
        return '%d:%d:N:N:-' % (p, n)
    cls = [enc(d['pt'], d['id']) for d in plan.get('cls', [])]
    ncls = {}
    for d in plan.get('cls', []):
        ncls[d['pt']] = ncls.get(d['pt'], 0) + 1
    reqs, want = [], []
    for sn, m in zip(res['snaps'], models):
        if m is None:
            return None, None
        seen, att = {}, []
        for p, cb, pr, fs, kw in m['hooks']:
            seen[p] = seen.get(p, 0) + 1
            if seen[p] > ncls.get(p, 0):
                att.append(enc(p, _heap_ref(cb)))
        reqs.append(';'.join(att) or '-')
        want.append(','.join('.'.join('u%d' % _heap_ref(ref) for q, ref, pr, fs, kw in sn['att'] if q == p)
                             for p in range(8)))
    if not reqs:
        return None, None
    real_cls = ','.join('.'.join('u%d' % _heap_ref(ref) for q, ref in res['cls_after'] if q == p) for p in range(8))
    return 'heap %s %s' % (';'.join(cls) or '-', '|'.join(reqs)), 'C=%s %s' % (real_cls, ' '.join('Q=' + w for w in want))


def check_decl_plans(ctx, plans, compare=True, label='decl'):
    results = _run_all(plans)
    outs, index = None, {}
    if compare:
        lines = []
        for res in results:
            for sn in res['snaps']:
                if sn['lean'] is not None and not sn['unmodelled'] and sn['lean'] not in index:
                    index[sn['lean']] = len(lines)
                    lines.append(sn['lean'])
        outs = ctx.model(lines)
    second, owners = [], []
    shrunk = 0
    for plan, res in zip(plans, results):
        key = plan_key(plan)
        ctx.case({'plan': plan}, nontrivial=res['nhooks'] > 0, key=key)
        ctx.count('stream:' + label)
        ctx.count('hooks_called:%s' % (res['nhooks'] if res['nhooks'] < 6 else '6+'))
        for pg in plan['pages']:
            for d in pg.get('decls', []):
                ctx.count('channel:' + d['ch'])
        for what, sig in res['fails']:
            case = {'plan': plan}
            if shrunk < 3:
                shrunk += 1
                small = ca.shrink(plan, _still_fails(sig))
                fs = [w for w, s2 in observe(small)['fails'] if s2 == sig]
                if fs:
                    case, what = {'plan': small, 'shrunk_from': key[:2000]}, fs[0]
            ctx.oracle_fail(case, what, sig)
        if outs is None or res['fails']:
            continue
        ctx.compared()
        models = _compare_attach(ctx, plan, res, outs, index)
        pp = ca.pipeline_plan(plan, res, models)
        if pp is None:
            ctx.count('pipeline_not_expressible')
        else:
            second.append(pc.plan_line(pp))
            owners.append(('journal', plan, res['j']))
        hl, want = _heap_line(plan, res, models)
        if hl is not None:
            second.append(hl)
            owners.append(('heap', plan, want))
    if second:
        mo = ctx.model(second)
        for line, (kind, plan, real) in zip(mo, owners):
            if kind == 'journal':
                m = pc.parse_model(line)
                if m['fuel']:
                    raise common.HarnessError('model ran out of fuel on a declaration plan')
                if m['j'] != real:
                    ctx.disagree({'plan': plan}, ','.join(real), ','.join(m['j']),
                                 'journal differs (hooks as the attachment model computed them)')
            elif line != real:
                ctx.disagree({'plan': plan}, real, line, 'class-level / per-request hook lists differ from the heap model')


def _run_all(plans):
    if len(plans) < 4000:
        return _observe_chunk(plans)
    n = 64
    chunks = [plans[i::n] for i in range(n)]
    parts = common.parallel_map(_observe_chunk, chunks)
    results = [None] * len(plans)
    for ci, part in enumerate(parts):
        for k, r in enumerate(part):
            results[ci + k * n] = r
    return results


def check_plans(ctx, plans, compare=True, label='gen'):
    plans = list(plans)
    if not plans:
        return
    CHUNK = 400 if (ctx.quick() and not ctx.searching) else 48000
    if len(plans) > CHUNK:
        # bounded pieces: a broken tree fails fast instead of grinding through the whole budget
        for i in range(0, len(plans), CHUNK):
            if len(ctx.oracle_failures) >= 20 or (len(ctx.disagreements) >= 20 and not ctx.searching):
                ctx.note('stopped early after %d failures' % (len(ctx.oracle_failures) + len(ctx.disagreements)))
                return
            check_plans(ctx, plans[i:i + CHUNK], compare=compare, label=label)
        return
    dplans = [p for p in plans if ca.is_decl_plan(p)]
    if dplans:
        check_decl_plans(ctx, dplans, compare=compare, label=label)
        plans = [p for p in plans if not ca.is_decl_plan(p)]
        if not plans:
            return
    lines = [pc.plan_line(p) for p in plans]
    model = ctx.model(lines) if compare else None
    results = _run_all(plans)
    shrunk = 0
    for idx, (plan, res) in enumerate(zip(plans, results)):
        ctx.case({'plan': lines[idx]}, nontrivial=res['nhooks'] > 0, key=lines[idx])
        ctx.count('stream:' + label)
        ctx.count('hooks_called:%s' % (res['nhooks'] if res['nhooks'] < 6 else '6+'))
        ctx.count('requests:%d' % (1 + sum(1 for t in res['j'] if t[0] == 'v' and t[1] != '0' and t.endswith('.0'))))
        hd = plan['pages'][plan['start']]['handler'] if plan['start'] < len(plan['pages']) else ['notfound', '-']
        ctx.count('handler:%s/%s' % (re.sub(r'\d+', '', hd[0]), re.sub(r'\d+', '', hd[1])))
        if any(t == 'S500.1' for t in res['j']):
            ctx.count('trapper_500')
        for what, sig in res['fails']:
            case = {'plan': plan}
            if shrunk < 3:
                shrunk += 1
                small = pc.shrink_plan(plan, lambda c: any(s == sig for _, s in oracle(c, pc.run_real(c))))
                fs = [w for w, s in oracle(small, pc.run_real(small)) if s == sig]
                if fs:
                    case, what = {'plan': small, 'shrunk_from': lines[idx]}, fs[0]
            ctx.oracle_fail(case, what, sig)
        if model is not None:
            ctx.compared()
            m = pc.parse_model(model[idx])
            if m['fuel']:
                raise common.HarnessError('model ran out of fuel on %s' % lines[idx])
            if m['j'] != res['j'] and not res['fails']:
                ctx.disagree({'plan': plan}, ','.join(res['j']), ','.join(m['j']), 'journal differs')


def corpus_plans():
    d = os.path.join(common.CORPUS, PROPERTY)
    out = []
    if os.path.isdir(d):
        for f in sorted(os.listdir(d)):
            if f.endswith('.json'):
                out.append(json.load(open(os.path.join(d, f)))['plan'])
    return out


def run(ctx):
    from . import c09_cov
    cov = c09_cov.Coverage()
    measuring = cov.start()
    try:
        _run(ctx)
    finally:
        cov.stop()
    if measuring:
        missing = cov.missing()
        ctx.extra['anchored_functions_measured'] = len(cov.codes)
        ctx.extra['anchored_lines_not_executed'] = missing
    else:
        ctx.extra['anchored_lines_not_executed'] = ['(not measured: sys.monitoring unavailable)']


def _run(ctx):
    for e in ctx.known:
        if e.get('status') == 'known':
            check_plans(ctx, [e['witness']['plan']], label='known')
    check_plans(ctx, corpus_plans(), label='corpus')
    check_plans(ctx, targeted_plans(), label='targeted')
    if ctx.quick():
        small = list(enum_small(2, ['ok', 'ex', 'he404'], QUICK_HANDLERS))
    else:
        small = list(enum_small(3, ['ok', 'ex', 'he404', 'ir0'], THOROUGH_HANDLERS))
    check_plans(ctx, small, label='exhaustive')
    ctx.extra['exhaustive_small_scope'] = len(small)
    # every channel a hook's point / priority / fail-safe flag can come from x boundary values
    check_plans(ctx, ca.targeted_plans(), label='decl-targeted')
    check_plans(ctx, [ca.gen_plan(ctx.rng) for _ in range(ctx.budget(1300, 40000))], label='decl-random')
    n = ctx.budget(2200, 100000)
    plans = [pc.gen_plan(ctx.rng, focus=(ctx.rng.randrange(8) if i % 2 else None)) for i in range(n)]
    check_plans(ctx, plans, label='random')


def search(ctx, around=None):
    """Deeper oracle-only hunt (called when the proof or the correspondence broke)."""
    rng = ctx.rng
    if around is not None and 'plan' in around and ca.is_decl_plan(around['plan']):
        check_plans(ctx, [ca.mutate(around['plan'], rng) for _ in range(3000)], compare=False, label='search-near')
        if ctx.oracle_failures:
            return
    elif around is not None and 'plan' in around:
        import copy
        base = around['plan']
        near = []
        for _ in range(4000):
            c = copy.deepcopy(base)
            pg = rng.choice(c['pages'])
            k = rng.random()
            if k < 0.4 and pg['hooks']:
                h = rng.choice(pg['hooks'])
                which = rng.choice(['prio', 'fs', 'out'])
                if which == 'prio':
                    h[2] = rng.choice(pc.PRIOS)
                elif which == 'fs':
                    h[3] = 1 - h[3]
                else:
                    h[4] = pc.gen_out(rng, len(c['pages']))
                if len(h) > 5 and h[5] == 'cd' and (h[2] != 50 or h[3]):
                    h[5] = 'c'          # a bare callable carries the defaults only
            elif k < 0.6:
                pg['handler'] = pc.gen_handler(rng, len(c['pages']))
            elif k < 0.7:
                c['closes'] = rng.choice([0, 1, 2, 3])
            elif k < 0.8:
                c['reads'] = rng.choice([None, 0, 1, 2])
            else:
                pg['hooks'].append([rng.randrange(8), 1000 + len(pg['hooks']), rng.choice(pc.PRIOS), rng.choice([0, 1]),
                                    pc.gen_out(rng, len(c['pages']))])
            near.append(c)
        check_plans(ctx, near, compare=False, label='search-near')
        if ctx.oracle_failures:
            return
    check_plans(ctx, targeted_plans(), compare=False, label='search')
    check_plans(ctx, ca.targeted_plans(), compare=False, label='search')
    if not ctx.oracle_failures:
        check_plans(ctx, [ca.gen_plan(rng) for _ in range(ctx.budget(6000, 30000))], compare=False, label='search')
    check_plans(ctx, enum_small(2, ['ok', 'ex', 'he404', 'ir0'], THOROUGH_HANDLERS), compare=False, label='search')
    if not ctx.oracle_failures:
        plans = [pc.gen_plan(rng, focus=(rng.randrange(8) if i % 2 else None)) for i in range(ctx.budget(12000, 60000))]
        check_plans(ctx, plans, compare=False, label='search')


def replay(ctx, case):
    plan = case['plan']
    if isinstance(plan, str):
        raise common.HarnessError('replay needs the plan as a dict')
    if ca.is_decl_plan(plan):
        obs = ca.run_real(plan)
        print('plan   :', json.dumps(plan, sort_keys=True))
        print('impl   :', ','.join(obs['j']))
        for r, sn in enumerate(obs['snaps']):
            print('request %d (page %s) hooks:' % (r, sn['page']), ca.real_attached(sn))
            if sn['lean']:
                print('  model input :', sn['lean'])
                m = ctx.model([sn['lean']])
                if m:
                    print('  model output:', m[0])
    else:
        obs = pc.run_real(plan)
        line = pc.plan_line(plan)
        print('plan   :', line)
        print('impl   :', ','.join(obs['j']))
        m = ctx.model([line])
        if m:
            print('model  :', ','.join(pc.parse_model(m[0])['j']))
    for what, sig in oracle(plan, obs):
        print('oracle :', sig, '-', what)
    check_plans(ctx, [plan], label='replay')
