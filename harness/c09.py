"""C09 - hooks run in priority order, fail-safe hooks always run, end hooks run exactly once.

Model: lean/CpModel/{Hooks,Pipeline,Wsgi}.lean, theorems: lean/CpProofs/C09.lean, driver: lean/Drv/C09.lean.
Real code: a fresh `cherrypy.Application` per fault plan, called in-process as a WSGI callable
(harness/pipeline_common.py); the observable is the ordered journal of `hooks.run(point)` visits and
hook calls per Request object, plus handler / start_response / close() markers.
"""
import itertools
import json
import os
import re

from . import common
from . import pipeline_common as pc

PROPERTY = 'C09'
LEAN_TARGETS = ['CpProofs.C09', 'drv_c09']
DRIVER = 'drv_c09'
THEOREMS = [
    'CpProofs.C09.sortByPrio_perm',
    'CpProofs.C09.sortByPrio_sorted',
    'CpProofs.C09.sortByPrio_stable',
    'CpProofs.C09.C09_order',
    'CpProofs.C09.C09_failsafe',
    'CpProofs.C09.C09_failsafe_exactly_once',
    'CpProofs.C09.C09_ordinary_after_failure_skipped',
    'CpProofs.C09.C09_last_exception_propagates',
    'CpProofs.C09.C09_no_failure_all_run',
    'CpProofs.C09.C09_point_visit_shape',
    'CpProofs.C09.C09_end_resource_once',
    'CpProofs.C09.C09_end_request_once',
    'CpProofs.C09.C09_end_request_at_first_close',
    'CpProofs.C09.C09_end_request_not_without_close',
    'CpProofs.C09.C09_documented_order',
    'CpProofs.C09.C09_at_most_once',
    'CpProofs.C09.request_zero_present',
    'CpProofs.C09.run_fails_iff',
]
TRUSTED_BASE = [
    'Python semantics transcribed by hand: shared-iterator `filter`, exception replacement inside `except`/`finally` '
    'blocks, stability of `sorted`',
    'the visit markers come from a HookMap subclass installed through Application.request_class (its `run` journals and '
    'then calls the real `run`)',
]
ASSUMPTIONS = [
    'hooks have a fixed outcome (return / raise HTTPError / HTTPRedirect / InternalRedirect / Exception) and do not '
    'mutate the hook list they are in; KeyboardInterrupt/SystemExit excluded (as in the statement)',
    'cherrypy.log and engine.publish listeners do not raise',
    'the WSGI server calls close() (the model also covers 0 and repeated calls)',
]
LEVEL = 'proof'
TECHNIQUE = ('Lean 4 proof by induction over arbitrary hook lists / fault plans on a transcription of HookMap.run_hooks, '
             'Request.run/respond/handle_error/close and the WSGI layer; model tied to the code by a differential '
             'journal comparison on generated fault plans')
LEVEL_TEXT = ('Proved in Lean for every hook list (any length, priorities, fail-safe bits, outcomes incl. second failures '
              'inside the fail-safe continuation): the hooks called at a point are exactly sorted[:k+1] + failsafe(sorted[k+1:]) '
              'for k the first failure, each once, in stable priority order, and the last raised exception propagates. '
              'Proved for every fault plan (any pages, redirect chains, handler outcomes, stream consumed / abandoned, any '
              'number of close() calls): each Request object visits on_end_resource exactly once and on_end_request exactly '
              'once (at the first close(), never later; never when the server does not close), and its visit sequence is '
              'accepted by the documented-order automaton. Correspondence with the real pipeline is checked on generated '
              'and exhaustively enumerated small fault plans each run.')
LEVEL_NOTE = ('Trusted: Lean kernel (axioms propext, Classical.choice, Quot.sound only); the hand model '
              'lean/CpModel/{Hooks,Pipeline,Wsgi}.lean as validated by the differential run; the harness. Hooks with side '
              'effects on the hook list are out of scope.')
RULE = ('fault plans: 1-3 pages, 0-5 hooks per point (priorities {10,50,50,90}, fail-safe bit, outcome ok/Exception/'
        'HTTPError/HTTPRedirect/InternalRedirect), handler outcome x return shape x status, dispatcher / namespace / body / '
        'error_response / error_page sites, stream bit, GET/HEAD/POST, partial reads, 0-3 close() calls; half the plans '
        'concentrate 3-5 hooks on one point; plus an exhaustive enumeration of all hook lists of <=2 (quick) / <=3 '
        '(thorough) hooks at one point x 8 points x handler outcomes. Non-trivial = at least one hook was called; '
        'distinct = distinct plan line')

SEQ_RE = re.compile(r'^0?1?2?3{0,2}4(67?)?5?$')


# ----------------------------------------------------------------------------------------------
# oracle: the statement evaluated on the journal of the real run
# ----------------------------------------------------------------------------------------------
def oracle(plan, obs):
    """List of (what, signature) failures of C09 on this observation."""
    bad = []
    j = obs['j']
    groups = []        # (req, point, [ids], position)
    cur = None
    for pos, t in enumerate(j):
        if t[0] == 'v':
            r, p = t[1:].split('.')
            cur = (r, int(p), [], pos)
            groups.append(cur)
        elif t[0] == 'h':
            r, p, hid = t[1:].split('.')
            if cur is None or cur[0] != r or cur[1] != int(p):
                bad.append(('hook call %s outside a run of its hook point' % t, 'hook_outside_point'))
            else:
                cur[2].append(int(hid))
        else:
            cur = None
    nreq = len(obs['reqs'])
    for r, p, called, pos in groups:
        if not r.isdigit() or int(r) >= nreq:
            bad.append(('hook point %s run on an unknown request object (%s)' % (pc.POINT_NAMES[p], r),
                        'visit_on_unknown_request'))
            continue
        attached = obs['reqs'][int(r)]['hooks'][p]          # (id, prio, failsafe, out) in attachment order
        order = sorted(attached, key=lambda h: h[1])        # ascending priority, ties in attachment order
        k = next((i for i, h in enumerate(order) if raises(h[3])), None)
        if k is None:
            want = [h[0] for h in order]
        else:
            want = [h[0] for h in order[:k + 1]] + [h[0] for h in order[k + 1:] if h[2]]
        if called != want:
            if sorted(called) == sorted(want):
                what, sig = 'order', 'hook_order:%s' % pc.POINT_NAMES[p]
            elif set(want) - set(called):
                what, sig = 'hooks not run', 'hook_missing:%s' % pc.POINT_NAMES[p]
            else:
                what, sig = 'hooks run that must not / more than once', 'hook_extra:%s' % pc.POINT_NAMES[p]
            bad.append(('%s at %s of request %s: called %s, statement demands %s (attached, in order: %s)'
                        % (what, pc.POINT_NAMES[p], r, called, want, attached), sig))
    first_close = j.index('C') if 'C' in j else None
    starts = [t for t in j if t[0] == 'S']
    served = bool(starts) and starts[0].endswith('.0')
    for r in range(nreq):
        seq = ''.join(str(p) for rr, p, _, _ in groups if rr == str(r))
        n_res = seq.count('4')
        n_req = seq.count('5')
        last = r == nreq - 1
        if n_res != 1:
            bad.append(('on_end_resource ran %d times on request %d' % (n_res, r), 'end_resource_count_%d' % min(n_res, 2)))
        must_close = (not last) or (not served) or plan['closes'] >= 1
        if n_req > 1 or (must_close and n_req != 1):
            bad.append(('on_end_request ran %d times on request %d (close() calls: %d)' % (n_req, r, plan['closes']),
                        'end_request_count_%d' % min(n_req, 2)))
        if not SEQ_RE.match(seq) and n_res == 1 and n_req <= 1:
            bad.append(('hook points of request %d visited in the order %s' % (r, [pc.POINT_NAMES[int(c)] for c in seq]),
                        'visit_order'))
        if last and served and n_req >= 1:
            pos5 = next(pos for rr, p, _, pos in groups if rr == str(r) and p == 5)
            if first_close is None or pos5 < first_close:
                bad.append(('on_end_request of the served request ran before the server closed the iterable',
                            'end_request_before_close'))
    return bad


def raises(out):
    """Does a callback with this planned outcome raise?  (every non-ok outcome raises something)"""
    return out != 'ok'


# ----------------------------------------------------------------------------------------------
# generators
# ----------------------------------------------------------------------------------------------
def enum_small(max_hooks, outs, handlers, prios=(10, 50)):
    """All hook lists of <= max_hooks hooks at one point x 8 points x handler outcomes."""
    per_hook = [(pr, fs, o) for pr in prios for fs in (0, 1) for o in outs]
    for n in range(max_hooks + 1):
        for combo in itertools.product(per_hook, repeat=n):
            for p in range(8):
                for h in handlers:
                    hooks = [[p, i + 1, pr, fs, o] for i, (pr, fs, o) in enumerate(combo)]
                    # a fail-safe probe on each end point makes the end hooks observable as hook calls too
                    extra = [[4, 90, 50, 1, 'ok']] if p != 4 else []
                    extra += [[5, 91, 50, 1, 'ok']] if p != 5 else []
                    yield pc.base_plan([pc.base_page(hooks=hooks + extra, handler=list(h), stream=1 if h[1].startswith('gen') else 0)])


QUICK_HANDLERS = [('ok', 'bytes', None), ('ex', 'bytes', None)]
THOROUGH_HANDLERS = [('ok', 'bytes', None), ('he404', 'bytes', None), ('hr303', 'bytes', None), ('ex', 'bytes', None),
                     ('ok', 'gen', None), ('ok', 'gen1', None), ('ir0', 'bytes', None)]


def targeted_plans():
    """Hand-picked shapes the statement names explicitly."""
    P, B = pc.base_plan, pc.base_page
    end = [[4, 90, 50, 1, 'ok'], [5, 91, 50, 1, 'ok'], [4, 92, 50, 0, 'ok'], [5, 93, 50, 0, 'ok']]
    out = []
    for h in [('ok', 'bytes', None), ('he404', 'bytes', None), ('hr303', 'bytes', None), ('ex', 'bytes', None),
              ('ok', 'str', None), ('ok', 'nonit', None), ('ok', 'bytes', 99)]:
        for stream in (0, 1):
            for meth in ('get', 'head'):
                out.append(P([B(hooks=end, handler=list(h), stream=stream)], meth=meth))
    # streamed body: run to the end, raising, abandoned; repeated close()
    for sh in ('gen', 'gen0', 'gen1', 'gen2', 'file', 'list', 'nonit'):
        for reads in (None, 0, 1, 2, 3):
            for closes in (1, 2, 3):
                out.append(P([B(hooks=end, handler=['ok', sh, None], stream=1)], reads=reads, closes=closes))
    # failure inside error handling
    for er in (None, 'ok', 'ex', 'hr303', 'ir0'):
        for ep in ('absent', 'cbOk', 'cbFail', 'tmplFail'):
            for o6 in ('ok', 'ex', 'hr303'):
                out.append(P([B(hooks=end + [[6, 1, 50, 0, o6], [7, 2, 50, 1, 'ok']], handler=['ex', 'bytes', None],
                                errResp=er, errPage=ep)]))
    # internal redirects: chain, loop, from an end hook, with streaming on
    out.append(P([B(hooks=end, handler=['ir1', 'bytes', None]), B(hooks=[[4, 94, 50, 1, 'ok'], [5, 95, 50, 1, 'ok']])]))
    out.append(P([B(hooks=end, handler=['ir0', 'bytes', None])]))
    out.append(P([B(hooks=end, handler=['ir1', 'bytes', None]), B(hooks=[[4, 94, 50, 1, 'ok'], [5, 95, 50, 1, 'ok']],
                                                                    handler=['ir0', 'bytes', None])]))
    out.append(P([B(hooks=end + [[4, 1, 10, 0, 'ir1']]), B()]))
    out.append(P([B(hooks=end + [[5, 1, 10, 0, 'ir1']]), B()]))
    out.append(P([B(hooks=end, handler=['ir1', 'bytes', None], stream=1), B()]))
    # failures before the hooks are attached
    out.append(P([B(hooks=end)], noHost=1))
    out.append(P([B(hooks=end, dispatch='ex')]))
    out.append(P([B(hooks=end, ns='ex')]))
    out.append(P([B(hooks=end)], badQuery=1))
    out.append(P([B(hooks=end, body='ex')], meth='post'))
    return out


# ----------------------------------------------------------------------------------------------
def observe(plan):
    """Run one plan on the real code; returns what the parent needs (picklable)."""
    obs = pc.run_real(plan)
    fails = oracle(plan, obs)
    nhooks = sum(1 for t in obs['j'] if t[0] == 'h')
    return {'j': obs['j'], 'fails': fails, 'nhooks': nhooks, 'escaped': obs['escaped']}


def _observe_chunk(plans):
    return [observe(p) for p in plans]


def check_plans(ctx, plans, compare=True, label='gen'):
    plans = list(plans)
    if not plans:
        return
    CHUNK = 400 if (ctx.quick() and not ctx.searching) else 48000
    if len(plans) > CHUNK:
        # bounded pieces: a broken tree fails fast instead of grinding through the whole budget
        for i in range(0, len(plans), CHUNK):
            if len(ctx.oracle_failures) >= 20 or (len(ctx.disagreements) >= 20 and not ctx.searching):
                ctx.note('stopped early after %d failures' % (len(ctx.oracle_failures) + len(ctx.disagreements)))
                return
            check_plans(ctx, plans[i:i + CHUNK], compare=compare, label=label)
        return
    lines = [pc.plan_line(p) for p in plans]
    model = ctx.model(lines) if compare else None
    if len(plans) < 4000:
        results = _observe_chunk(plans)
    else:
        n = 64
        chunks = [plans[i::n] for i in range(n)]
        parts = common.parallel_map(_observe_chunk, chunks)
        results = [None] * len(plans)
        for ci, part in enumerate(parts):
            for k, r in enumerate(part):
                results[ci + k * n] = r
    shrunk = 0
    for idx, (plan, res) in enumerate(zip(plans, results)):
        ctx.case({'plan': lines[idx]}, nontrivial=res['nhooks'] > 0, key=lines[idx])
        ctx.count('stream:' + label)
        ctx.count('hooks_called:%s' % (res['nhooks'] if res['nhooks'] < 6 else '6+'))
        ctx.count('requests:%d' % (1 + sum(1 for t in res['j'] if t[0] == 'v' and t[1] != '0' and t.endswith('.0'))))
        hd = plan['pages'][plan['start']]['handler'] if plan['start'] < len(plan['pages']) else ['notfound', '-']
        ctx.count('handler:%s/%s' % (re.sub(r'\d+', '', hd[0]), re.sub(r'\d+', '', hd[1])))
        if any(t == 'S500.1' for t in res['j']):
            ctx.count('trapper_500')
        for what, sig in res['fails']:
            case = {'plan': plan}
            if shrunk < 3:
                shrunk += 1
                small = pc.shrink_plan(plan, lambda c: any(s == sig for _, s in oracle(c, pc.run_real(c))))
                fs = [w for w, s in oracle(small, pc.run_real(small)) if s == sig]
                if fs:
                    case, what = {'plan': small, 'shrunk_from': lines[idx]}, fs[0]
            ctx.oracle_fail(case, what, sig)
        if model is not None:
            ctx.compared()
            m = pc.parse_model(model[idx])
            if m['fuel']:
                raise common.HarnessError('model ran out of fuel on %s' % lines[idx])
            if m['j'] != res['j'] and not res['fails']:
                ctx.disagree({'plan': plan}, ','.join(res['j']), ','.join(m['j']), 'journal differs')


def corpus_plans():
    d = os.path.join(common.CORPUS, PROPERTY)
    out = []
    if os.path.isdir(d):
        for f in sorted(os.listdir(d)):
            if f.endswith('.json'):
                out.append(json.load(open(os.path.join(d, f)))['plan'])
    return out


def run(ctx):
    for e in ctx.known:
        if e.get('status') == 'known':
            check_plans(ctx, [e['witness']['plan']], label='known')
    check_plans(ctx, corpus_plans(), label='corpus')
    check_plans(ctx, targeted_plans(), label='targeted')
    if ctx.quick():
        small = list(enum_small(2, ['ok', 'ex', 'he404'], QUICK_HANDLERS))
    else:
        small = list(enum_small(3, ['ok', 'ex', 'he404', 'hr303', 'ir0'], THOROUGH_HANDLERS))
    check_plans(ctx, small, label='exhaustive')
    ctx.extra['exhaustive_small_scope'] = len(small)
    n = ctx.budget(3000, 150000)
    plans = [pc.gen_plan(ctx.rng, focus=(ctx.rng.randrange(8) if i % 2 else None)) for i in range(n)]
    check_plans(ctx, plans, label='random')


def search(ctx, around=None):
    """Deeper oracle-only hunt (called when the proof or the correspondence broke)."""
    rng = ctx.rng
    if around is not None and 'plan' in around:
        import copy
        base = around['plan']
        near = []
        for _ in range(4000):
            c = copy.deepcopy(base)
            pg = rng.choice(c['pages'])
            k = rng.random()
            if k < 0.4 and pg['hooks']:
                h = rng.choice(pg['hooks'])
                which = rng.choice(['prio', 'fs', 'out'])
                if which == 'prio':
                    h[2] = rng.choice(pc.PRIOS)
                elif which == 'fs':
                    h[3] = 1 - h[3]
                else:
                    h[4] = pc.gen_out(rng, len(c['pages']))
            elif k < 0.6:
                pg['handler'] = pc.gen_handler(rng, len(c['pages']))
            elif k < 0.7:
                c['closes'] = rng.choice([0, 1, 2, 3])
            elif k < 0.8:
                c['reads'] = rng.choice([None, 0, 1, 2])
            else:
                pg['hooks'].append([rng.randrange(8), 1000 + len(pg['hooks']), rng.choice(pc.PRIOS), rng.choice([0, 1]),
                                    pc.gen_out(rng, len(c['pages']))])
            near.append(c)
        check_plans(ctx, near, compare=False, label='search-near')
        if ctx.oracle_failures:
            return
    check_plans(ctx, targeted_plans(), compare=False, label='search')
    check_plans(ctx, enum_small(2, ['ok', 'ex', 'he404', 'ir0'], THOROUGH_HANDLERS), compare=False, label='search')
    if not ctx.oracle_failures:
        plans = [pc.gen_plan(rng, focus=(rng.randrange(8) if i % 2 else None)) for i in range(ctx.budget(12000, 60000))]
        check_plans(ctx, plans, compare=False, label='search')


def replay(ctx, case):
    plan = case['plan']
    if isinstance(plan, str):
        raise common.HarnessError('replay needs the plan as a dict')
    obs = pc.run_real(plan)
    line = pc.plan_line(plan)
    print('plan   :', line)
    print('impl   :', ','.join(obs['j']))
    m = ctx.model([line])
    if m:
        print('model  :', ','.join(pc.parse_model(m[0])['j']))
    for what, sig in oracle(plan, obs):
        print('oracle :', sig, '-', what)
    check_plans(ctx, [plan], label='replay')
