"""C07 - which lines of the anchored functions the run executes.

`sys.monitoring` LINE events restricted to the code objects of the functions the property is anchored in (the
parsers and the tools that consume client data); every location reports once and is then disabled, so the cost
is negligible.  The lines that never ran end up in ctx.extra['anchored_lines_not_executed'].
"""
import linecache
import os
import sys
import types

# (module, [qualified names]); a class name stands for all its functions
ANCHORED = [
    ('cherrypy._cprequest', ['Request.process_headers', 'Request.process_query_string']),
    ('cherrypy._cpreqbody', ['process_urlencoded', 'process_multipart', 'process_multipart_form_data',
                             '_old_process_multipart', 'Entity.__init__', 'Entity.process', 'Entity.decode_entity',
                             'Entity.default_proc', 'Entity.read_into_file', 'Entity.make_file', 'Entity.fullvalue',
                             'Part.__init__', 'Part.from_fp', 'Part.read_headers', 'Part.read_lines_to_boundary',
                             'Part.default_proc', 'Part.read_into_file', 'RequestBody.__init__', 'RequestBody.process',
                             'SizedReader.read', 'SizedReader.readline', 'SizedReader.readlines', 'SizedReader.finish']),
    ('cherrypy.lib.httputil', ['get_ranges', '_get_ranges', '_range_pos', 'HeaderElement.parse', 'HeaderElement.from_str',
                               'AcceptElement.from_str', 'AcceptElement.qvalue', 'AcceptElement.__lt__', 'header_elements',
                               'decode_TEXT', 'decode_TEXT_maybe', 'parse_query_string', '_parse_qs', 'HeaderMap.encode',
                               'HeaderMap.encode_header_item', 'HeaderMap.encode_header_items', 'valid_status']),
    ('cherrypy._private_api.compat.headers', ['parse_header', '_parse_param']),
    ('cherrypy.lib.static', ['_serve_fileobj', 'serve_file', 'staticdir', 'staticfile', '_attempt']),
    ('cherrypy.lib.cptools', ['validate_etags', 'validate_since', 'proxy', 'referer', 'trailing_slash', 'accept', 'allow']),
    ('cherrypy.lib.caching', ['get']),
    ('cherrypy.lib.auth_basic', ['basic_auth']),
    ('cherrypy.lib.auth_digest', ['HttpDigestAuthorization', 'digest_auth', '_try_decode_header', '_respond_401',
                                  'www_authenticate', 'synthesize_nonce']),
    ('cherrypy.lib.jsontools', ['json_processor', 'json_in']),
    ('cherrypy.lib.sessions', ['init', 'Session.__init__', 'Session._regenerate', 'FileSession._get_file_path',
                               'set_response_cookie']),
    ('cherrypy.lib.encoding', ['ResponseEncoder.find_acceptable_charset', 'ResponseEncoder.encode_string',
                               'ResponseEncoder.encode_stream', 'decode', 'gzip']),
    ('cherrypy._cpdispatch', ['test_callable_spec']),
    ('cherrypy._cperror', ['HTTPError.handle', 'HTTPError.__init__', 'HTTPRedirect.__init__', 'HTTPRedirect.set_response']),
    ('cherrypy._cpwsgi', ['AppResponse.recode_path_qs', 'AppResponse.translate_headers']),
]


def _funcs(obj):
    if isinstance(obj, (classmethod, staticmethod)):
        obj = obj.__func__
    if isinstance(obj, property):
        return [f for f in (obj.fget, obj.fset, obj.fdel) if f is not None]
    if isinstance(obj, types.FunctionType):
        return [obj]
    if isinstance(obj, type):
        out = []
        for v in vars(obj).values():
            out += _funcs(v)
        return out
    w = getattr(obj, '__wrapped__', None)
    if isinstance(w, types.FunctionType):
        return [w]
    return []


class Coverage(object):
    def __init__(self):
        import importlib
        self.codes = {}
        self.hit = set()
        self.tid = None
        self.missing_anchors = []
        for modname, names in ANCHORED:
            try:
                mod = importlib.import_module(modname)
            except Exception:
                self.missing_anchors.append(modname)
                continue
            for qn in names:
                obj = mod
                try:
                    for part in qn.split('.'):
                        obj = vars(obj)[part] if isinstance(obj, type) else getattr(obj, part)
                except (AttributeError, KeyError):
                    self.missing_anchors.append('%s.%s' % (modname, qn))
                    continue
                fs = _funcs(obj)
                if not fs:
                    self.missing_anchors.append('%s.%s' % (modname, qn))
                for f in fs:
                    self._code(f.__code__)

    def _code(self, code):
        if code in self.codes:
            return
        self.codes[code] = True
        for c in code.co_consts:
            if isinstance(c, types.CodeType):
                self._code(c)

    def executable(self):
        out = set()
        for code in self.codes:
            for _, _, line in code.co_lines():
                if line is not None and line != code.co_firstlineno:
                    out.add((code.co_filename, line, code.co_qualname))
        return out

    def _line(self, code, line):
        self.hit.add((code.co_filename, line))
        return sys.monitoring.DISABLE

    def start(self):
        mon = getattr(sys, 'monitoring', None)
        if mon is None:
            return False
        for tid in (4, 3, 5, 2):
            try:
                mon.use_tool_id(tid, 'c07-cov')
            except ValueError:
                continue
            self.tid = tid
            break
        if self.tid is None:
            return False
        mon.register_callback(self.tid, mon.events.LINE, self._line)
        for code in self.codes:
            mon.set_local_events(self.tid, code, mon.events.LINE)
        return True

    def stop(self):
        if self.tid is None:
            return
        mon = sys.monitoring
        try:
            for code in self.codes:
                mon.set_local_events(self.tid, code, 0)
            mon.register_callback(self.tid, mon.events.LINE, None)
            mon.free_tool_id(self.tid)
        except ValueError:
            pass
        self.tid = None

    def hits(self):
        return sorted(self.hit)

    def add_hits(self, hits):
        for f, l in hits:
            self.hit.add((f, l))

    def report(self, ctx):
        ex = self.executable()
        missed = sorted((f, l, q) for f, l, q in ex if (f, l) not in self.hit)
        lines = []
        for f, l, q in missed:
            src = linecache.getline(f, l).strip()
            rel = f.split(os.sep + 'cherrypy' + os.sep, 1)[-1]
            lines.append('%s:%d %s: %s' % (rel, l, q, src[:100]))
        ctx.extra['anchored_lines_executable'] = len(ex)
        ctx.extra['anchored_lines_executed'] = len(ex) - len(missed)
        ctx.extra['anchored_lines_not_executed'] = lines
        if self.missing_anchors:
            ctx.extra['anchored_functions_not_found'] = self.missing_anchors
        ctx.count('anchored_lines_not_executed', len(lines))
        ctx.count('anchored_lines_executable', len(ex))


_current = {'cov': None}


def start():
    cov = Coverage()
    if cov.start():
        _current['cov'] = cov
    return cov


def current():
    return _current['cov']


def stop():
    cov = _current['cov']
    if cov is not None:
        cov.stop()
    _current['cov'] = None
    return cov
