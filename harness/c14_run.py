"""C14 - running one history on the real `cherrypy.lib.sessions` (runner side of the check).

Only *module globals naming primitives* are replaced for the duration of a history: `sessions.datetime`
(logical clock, one tick = one minute), `sessions.time` (cookie dates), `sessions.os` (`urandom`
deterministic; `listdir` sorted), `cherrypy.process.plugins.Monitor` (a recording stand-in: the sweep
op calls the callback the real code registered), `sys.modules['memcache']` (an in-memory client with
memcached's expiry rule, so that MemcachedSession can be imported and driven), and `Session.generate_id`
is wrapped (the documented override point of the id source) so that every draw is numbered and
collisions with live ids can be injected.
"""
import copy
import datetime as _datetime
import io
import os as _os
import pickle
import re
import shutil
import sys
import tempfile
import threading
import time as _time
import types

from . import common

BASE = _datetime.datetime(2020, 1, 1, 0, 0, 0)
EPOCH = 1577836800.0
HEX40 = re.compile(r'^[0-9a-f]{40}$')
UNKNOWN_BASE = 1000000

# picklable values a handler stores; index = the model's `Val`
VALS = [0, 1, 'x', 'héllo' * 3, [1, [2, 3]], {'n': None, 't': (1, 2.5)}, b'\x00\xff\x80', -2 ** 70]

ESCAPING = ['/../../x', 'a/../../../b', '/../..', '/../../etc/passwd', '../x', '/etc/passwd', '..']
GARBAGE_CONTRACT = [b'garbage', b'\x00', b'.', b'0', b'\x80\x05h\x00.', b'\x80\x05(K\x01d.', b'\xff' * 9]
GARBAGE_OTHER = [b'\x80\xff.', b'Ix\n.', b'cnosuchmod\nx\n.', b'\x80\x05\x8c\x02\xff\xfe.', b'\x80\x05K\x01.',
                 b'\x80\x05}K\x01\x86.']

# cookie configuration tables (indices are what the model sees)
NAMES = ['session_id', 'sid', 'SESSION_ID', 'app-sess.1']
DECOYS = {10: 'other', 11: 'session_id_', 12: 'xsession_id', 13: 'Session_Id', 14: 'sid2'}
PATHS = ['/', '/app', '/hdr/p', '/deep/er']
DOMAINS = ['example.com', '.example.org']
PATH_HEADER = 'X-Sess-Path'
DEFAULT_CC = {'name': 0, 'path': None, 'ph': None, 'phc': False, 'domain': None, 'secure': 0, 'httponly': 0,
              'persistent': 1}
CLASS_IDX = {'RamSession': 0, 'FileSession': 1, 'MemcachedSession': 2}
HIST_TIMEOUT = 40          # seconds; a history takes milliseconds


class Diverged(Exception):
    """Raised by the id-source wrapper when one request keeps drawing ids (the loop does not end)."""


class Hang(Exception):
    """The code under test did not come back (overlapping requests)."""


def cc_of(case):
    cc = dict(DEFAULT_CC)
    cc.update(case.get('cc') or {})
    return cc


def model_timeout(case):
    return int(case['timeout']) if case.get('tconf', True) else 60


class _World:
    """Per-history environment shared by the shims, the probe handler and the runner."""

    def __init__(self, case):
        import random
        self.clock = 0
        self.draws = []                 # model id of every generate_id draw, in order
        self.id_of = {}                 # real id string -> model number
        self.unknown = {}               # unknown cookie string -> model number
        self.rnd = random.Random(case.get('idseed', 0))
        self.dups = {int(k): int(v) for k, v in case.get('dups', [])}
        self.live = lambda: []          # set by the runner: currently stored real ids, sorted
        self.last_dup = False
        self.recs = {}                  # request number -> record filled by the probe handler
        self.monitors = []              # recording Monitors, in creation order
        self.loads = []                 # (class index, clean_freq) of every load() seen by the probe
        self.req_draws = 0
        self.diverged = False
        self.gate_reached = threading.Event()
        self.gate_resume = threading.Event()
        self.gate_timed_out = False
        self.mc = None                  # the fake memcache client, once created
        self.sweep_thread = None
        self.sweep_waiting = threading.Event()

    def urandom(self, n):
        k = len(self.draws)
        return (k + 1).to_bytes(4, 'big') + b'\xab' + bytes(self.rnd.randrange(256) for _ in range(max(0, n - 5)))

    def generate_id(self, inst, real):
        """Stands in for `Session.generate_id`: numbers every draw, normally returns what the real method
        returns, and on planned draws returns a *live* id instead (never twice in a row)."""
        self.req_draws += 1
        if self.req_draws > 64:
            self.diverged = True
            raise Diverged('more than 64 ids drawn inside one request')
        k = len(self.draws)
        live = self.live()
        if k in self.dups and live and not self.last_dup:
            sid = live[self.dups[k] % len(live)]
            self.draws.append(self.id_of[sid])
            self.last_dup = True
            return sid
        self.last_dup = False
        sid = real(inst)
        if not isinstance(sid, str):
            sid = str(sid)
        if sid not in self.id_of:
            self.id_of[sid] = k + 1
        self.draws.append(self.id_of[sid])
        return sid

    def number(self, s):
        if s in self.id_of:
            return self.id_of[s]
        if s not in self.unknown:
            self.unknown[s] = UNKNOWN_BASE + len(self.unknown)
        return self.unknown[s]


W = [None]     # the current _World


class _DTMeta(type(_datetime.datetime)):
    def __instancecheck__(cls, obj):       # plain datetime objects are what `now()` hands out
        return isinstance(obj, _datetime.datetime)


class _FakeDateTime(_datetime.datetime, metaclass=_DTMeta):
    @classmethod
    def now(cls, tz=None):
        t = BASE + _datetime.timedelta(minutes=W[0].clock)
        return t if tz is None else t.replace(tzinfo=_datetime.timezone.utc).astimezone(tz)

    @classmethod
    def utcnow(cls):
        return BASE + _datetime.timedelta(minutes=W[0].clock)

    @classmethod
    def today(cls):
        return BASE + _datetime.timedelta(minutes=W[0].clock)


class _DatetimeShim:
    datetime = _FakeDateTime

    def __getattr__(self, name):
        return getattr(_datetime, name)


class _TimeShim:
    @staticmethod
    def time():
        return EPOCH + 60.0 * W[0].clock

    @staticmethod
    def sleep(s):
        w = W[0]
        if w is not None and w.sweep_thread is threading.current_thread():
            # the sweep waits for a session lock held by the request parked in its handler
            w.sweep_waiting.set()
            _time.sleep(0.005)
            return
        raise common.HarnessError('session lock contention inside a history')

    def __getattr__(self, name):
        return getattr(_time, name)


class _OsShim:
    path = _os.path

    def __getattr__(self, name):
        return getattr(_os, name)

    @staticmethod
    def urandom(n):
        return W[0].urandom(n)

    @staticmethod
    def listdir(p):
        return sorted(_os.listdir(p))


class _FakeMonitor:
    """Stands for cherrypy.process.plugins.Monitor: records what the code registers, never runs a thread."""

    def __init__(self, bus, callback, frequency=60, name=None):
        self.bus, self.callback, self.frequency, self.name = bus, callback, frequency, name
        self.started = 0
        self.subscribed = 0
        if W[0] is not None:
            W[0].monitors.append(self)

    def subscribe(self):
        self.subscribed += 1

    def unsubscribe(self):
        pass

    def start(self):
        self.started += 1

    def stop(self):
        pass

    graceful = stop


def _unix_now():
    return int(_time.mktime((BASE + _datetime.timedelta(minutes=W[0].clock)).timetuple()))


class _FakeMemcacheClient:
    """python-memcached's Client as far as MemcachedSession uses it; values are pickled (no aliasing), an
    entry stops being returned once its absolute expiry time is reached (memcached's rule)."""

    def __init__(self, servers, *a, **k):
        self.servers = servers
        self.d = {}
        if W[0] is not None:
            W[0].mc = self

    def get(self, key):
        e = self.d.get(key)
        if e is None:
            return None
        blob, t = e
        if t and t <= _unix_now():
            return None
        return pickle.loads(blob)

    def set(self, key, val, time=0, *a, **k):
        self.d[key] = (pickle.dumps(val), int(time))
        return True

    def delete(self, key, *a, **k):
        self.d.pop(key, None)
        return 1

    def visible(self):
        now = _unix_now()
        return {k: pickle.loads(b) for k, (b, t) in self.d.items() if not (t and t <= now)}


_fake_memcache = types.ModuleType('memcache')
_fake_memcache.Client = _FakeMemcacheClient


def make_val(i):
    return copy.deepcopy(VALS[i % len(VALS)])


def val_index(v):
    for i, w in enumerate(VALS):
        if type(v) is type(w) and v == w:
            return i
    return 'X'


def canon_dict(d):
    """{real key: python value} -> {int key: value index}, or a marker for an alien shape."""
    out = {}
    try:
        for k, v in d.items():
            if isinstance(k, str) and re.match(r'^k\d+$', k):
                out[int(k[1:])] = val_index(v)
            else:
                out[repr(k)] = 'X'
    except Exception:
        return {'?': 'X'}
    return out


HOP_RE = re.compile(r'^(r|r1|r2|c|g|G|d|x|L|E|H|S|P|I|w\.\d+\.\d+|k\.\d+|A\.(get|gi|in|pop|del)\.\d+|A\.sd\.\d+\.\d+|'
                    r'A\.up(\.\d+\.\d+)+)$')


def check_hops(hops):
    for h in hops:
        if not HOP_RE.match(h):
            raise common.HarnessError('bad hop %r' % (h,))


def model_hops(hops, backend):
    """The handler statements as the model knows them."""
    out = []
    for h in hops:
        if h in ('S', 'H', 'P', 'I'):
            continue
        if h in ('r1', 'r2'):
            h = 'r'
        elif h == 'G':
            h = 'g'
        elif h.startswith('A.gi.'):
            h = 'A.get.' + h[5:]
        elif h == 'L' and backend == 'mem':
            continue               # MemcachedSession.__len__ raises NotImplementedError: no observation
        out.append(h)
    return out


def _make_app(case, path):
    import cherrypy
    from cherrypy.lib import sessions
    backend = case['backend']
    cc = cc_of(case)
    explicit_locking = case.get('locking') == 'explicit'

    class Root:
        @cherrypy.expose
        def index(self, ops=''):
            w = W[0]
            rec = w.recs[int(cherrypy.request.headers['X-Probe'])]
            s = cherrypy.session
            inst = cherrypy.serving.session
            rec['orig'] = inst.originalid
            rec['missing'] = inst.missing
            rec['have'] = True
            if explicit_locking:
                inst.acquire_lock()         # tools.sessions.locking = 'explicit': the application locks
            was_loaded = inst.loaded
            redirect = False
            as_iterator = False
            for tok in (ops.split(',') if ops else []):
                f = tok.split('.')
                t = f[0]
                if t == 'r':
                    rec['reads'].append(canon_dict(dict(s.items())))
                elif t == 'r1':
                    rec['reads'].append(canon_dict({k: s[k] for k in list(s.keys())}))
                elif t == 'r2':
                    vals = list(s.values())         # values() first: it has to load the session itself
                    rec['reads'].append(canon_dict(dict(zip(list(s.keys()), vals))))
                elif t == 'w':
                    s['k' + f[1]] = make_val(int(f[2]))
                elif t == 'k':
                    s.pop('k' + f[1], None)
                elif t == 'c':
                    s.clear()
                elif t == 'g':
                    cherrypy.tools.sessions.regenerate()
                elif t == 'G':
                    s.regenerate()
                elif t == 'd':
                    s.delete()
                elif t == 'x':
                    sessions.expire()
                elif t == 'S':
                    cherrypy.response.stream = True
                elif t == 'L':
                    try:
                        rec['lens'].append(len(s))
                    except NotImplementedError:
                        rec['lens'].append('NI')
                elif t == 'E':
                    rec['raised'] = True
                    raise ValueError('probe handler raises')
                elif t == 'H':
                    redirect = True
                elif t == 'I':
                    as_iterator = True
                elif t == 'P':
                    w.gate_reached.set()
                    if not w.gate_resume.wait(30):
                        w.gate_timed_out = True
                elif t == 'A':
                    m, key = f[1], 'k' + f[2]
                    k = int(f[2])
                    if m == 'get':
                        v = s.get(key)
                        rec['reads'].append({} if v is None else {k: val_index(v)})
                    elif m == 'gi':
                        try:
                            rec['reads'].append({k: val_index(s[key])})
                        except KeyError:
                            rec['reads'].append({})
                    elif m == 'in':
                        r = key in s
                        rec['reads'].append({k: 1} if r is True else ({} if r is False else {'?': 'X'}))
                    elif m == 'sd':
                        rec['reads'].append({k: val_index(s.setdefault(key, make_val(int(f[3]))))})
                    elif m == 'up':
                        r = s.update({'k' + f[i]: make_val(int(f[i + 1])) for i in range(2, len(f), 2)})
                        rec['reads'].append({} if r is None else {'?': 'X'})
                    elif m == 'pop':
                        try:
                            rec['reads'].append({k: val_index(s.pop(key))})
                        except KeyError:
                            rec['reads'].append({})
                    elif m == 'del':
                        try:
                            del s[key]
                            rec['reads'].append({k: 1})
                        except KeyError:
                            rec['reads'].append({})
                inst = cherrypy.serving.session
                if inst.loaded and not was_loaded:
                    w.loads.append((CLASS_IDX.get(type(inst).__name__, 9), getattr(inst, 'clean_freq', None)))
                was_loaded = inst.loaded
                rec['regenerated'] = bool(getattr(inst, 'regenerated', False))
            if redirect:
                raise cherrypy.HTTPRedirect('/elsewhere')
            if as_iterator:
                return (x for x in [b'o', b'k'])     # an iterator body that is not streamed: save() collapses it
            return b'ok'

    conf = {'tools.sessions.on': True, 'tools.sessions.clean_freq': int(case.get('clean_freq', 5))}
    if case.get('tconf', True):
        conf['tools.sessions.timeout'] = int(case['timeout'])
    spell = case.get('spell', 'class')
    if backend == 'file':
        if spell == 'type':
            conf['tools.sessions.storage_type'] = 'file'
        else:
            conf['tools.sessions.storage_class'] = sessions.FileSession
        conf['tools.sessions.storage_path'] = path
    elif backend == 'mem':
        if spell == 'type':
            conf['tools.sessions.storage_type'] = 'memcached'
        else:
            conf['tools.sessions.storage_class'] = sessions.MemcachedSession
    elif spell == 'type':
        conf['tools.sessions.storage_type'] = 'ram'
    elif spell == 'explicit':
        conf['tools.sessions.storage_class'] = sessions.RamSession
    if cc['name'] != 0:
        conf['tools.sessions.name'] = NAMES[cc['name']]
    if cc['path'] is not None:
        conf['tools.sessions.path'] = PATHS[cc['path']]
    if cc['ph'] is not None or cc.get('phc'):
        conf['tools.sessions.path_header'] = PATH_HEADER
    if cc['domain'] is not None:
        conf['tools.sessions.domain'] = DOMAINS[cc['domain']]
    if cc['secure']:
        conf['tools.sessions.secure'] = True
    if cc['httponly']:
        conf['tools.sessions.httponly'] = True
    if not cc['persistent']:
        conf['tools.sessions.persistent'] = False
    if case.get('debug'):
        conf['tools.sessions.debug'] = True
    if case.get('locking'):
        conf['tools.sessions.locking'] = case['locking']
    if case.get('noencode'):
        conf['tools.encode.on'] = False     # otherwise tools.encode has made a list of every body
    if case.get('lock_timeout') is not None and backend == 'file':
        conf['tools.sessions.lock_timeout'] = case['lock_timeout']
    return cherrypy.Application(Root(), '', {'/': conf})


def _wsgi(app, query, cookie_header, probe, extra_env=None):
    env = {'REQUEST_METHOD': 'GET', 'PATH_INFO': '/', 'QUERY_STRING': query, 'SERVER_NAME': 'x',
           'SERVER_PORT': '80', 'SERVER_PROTOCOL': 'HTTP/1.1', 'HTTP_HOST': 'x', 'wsgi.version': (1, 0),
           'wsgi.url_scheme': 'http', 'wsgi.input': io.BytesIO(b''), 'wsgi.errors': io.StringIO(),
           'wsgi.multithread': False, 'wsgi.multiprocess': False, 'wsgi.run_once': False,
           'REMOTE_ADDR': '127.0.0.1', 'HTTP_X_PROBE': str(probe)}
    if extra_env:
        env.update(extra_env)
    if cookie_header is not None:
        env['HTTP_COOKIE'] = cookie_header
    res = {}

    def sr(status, headers, exc=None):
        res['status'] = status
        res['headers'] = headers
    it = app(env, sr)
    try:
        body = b''.join(it)
    finally:
        if hasattr(it, 'close'):
            it.close()
    return res['status'], res['headers'], body


def _parse_set_cookie(headers, name, now_epoch):
    """-> (id or None, expired flag, attribute string as the driver prints it)."""
    lines = [v for k, v in headers if k.lower() == 'set-cookie' and v.startswith(name + '=')]
    if not lines:
        return None, False, '-'
    parts = lines[-1].split(';')
    sid = parts[0].split('=', 1)[1]
    if len(sid) >= 2 and sid[0] == '"' and sid[-1] == '"':
        sid = sid[1:-1]
    attrs = {}
    for p in parts[1:]:
        k, _, v = p.strip().partition('=')
        attrs[k.lower()] = v
    expired = False
    exp_s = '-'
    if 'expires' in attrs:
        try:
            import email.utils
            t = email.utils.parsedate_to_datetime(attrs['expires']).timestamp()
            if 'max-age' not in attrs:
                expired = t < now_epoch
            exp_s = str(int(round(t - EPOCH)))
        except Exception:
            exp_s = 'X'
    path = attrs.get('path')
    path_s = str(PATHS.index(path)) if path in PATHS else ('-' if path is None else 'X')
    dom = attrs.get('domain')
    dom_s = '-' if dom is None else (str(DOMAINS.index(dom)) if dom in DOMAINS else 'X')
    name_s = str(NAMES.index(name)) if name in NAMES else 'X'
    a = '%s.%s.%s.%s.%s.%d.%d' % (name_s, path_s, attrs.get('max-age', '-'), exp_s, dom_s,
                                  1 if 'secure' in attrs else 0, 1 if 'httponly' in attrs else 0)
    return sid, expired, a


def _classify_blob(blob):
    try:
        obj = pickle.loads(blob)
    except EOFError:
        return ('b', 'eof')
    except pickle.UnpicklingError:
        return ('b', 'unp')
    except Exception:
        return ('b', 'oth')
    if (isinstance(obj, tuple) and len(obj) == 2 and isinstance(obj[0], dict)
            and isinstance(obj[1], _datetime.datetime)):
        return ('g', obj[0], _ticks(obj[1]))
    return ('b', 'oth')


def _ticks(dt):
    try:
        sec = (dt - BASE).total_seconds()
    except Exception:
        return 'BADEXP(%r)' % (dt,)
    if sec != int(sec) or int(sec) % 60:
        return 'BADEXP(%r)' % sec
    return int(sec) // 60


def show_dict(d):
    if not d:
        return '~'
    return ','.join('%s=%s' % (k, d[k]) for k in sorted(d, key=lambda x: (isinstance(x, str), x)))


# ----------------------------------------------------------------------------------------------
# the Cookie header of a request
# ----------------------------------------------------------------------------------------------
def _base_value(spec, jars, w):
    """value text named by a simple cookie spec, or None (no cookie)."""
    f = spec.split(':')
    k = f[0]

    def cur(j):
        ids = jars.get(int(j), [])
        return ids[-1] if ids else None

    def anyid(j):
        ids = [x for x in jars.get(int(j), []) if x is not None]
        return ids[-1] if ids else None
    if k == 'none':
        return None
    if k == 'jar':
        return cur(f[1])
    if k == 'old':
        ids = [x for x in jars.get(int(f[1]), []) if x is not None]
        return ids[int(f[2]) % len(ids)] if ids else None
    if k == 'unk':
        return '%s%032x' % (w.unk_prefix, int(f[1]) + 1)
    if k == 'esc':
        return ESCAPING[int(f[1]) % len(ESCAPING)]
    if k == 'empty':
        return ''
    base = anyid(f[1])
    if base is None:
        return None
    if k == 'lock':
        return base + '.lock'
    if k == 'upper':
        return base.upper()
    if k == 'sub':
        return 'x/../session-' + base
    if k == 'trail':
        return base + '/'
    if k == 'dot':
        return base + '/.'
    if k == 'prefix':
        return base[:20]
    raise common.HarnessError('bad cookie spec %r' % spec)


SEPS = ['; ', ';', ' ;  ', ';\t']


def resolve_header(spec, jars, w, cc):
    """-> (header text or None, [(name index, value text as http.cookies reads it)]).

    spec: a simple spec (one pair under the configured name), `q~<spec>` (the value in double quotes), or
    `multi:<sep>:<item>|<item>|…` with item = `<c|d<decoy index>>~[q~]<simple spec>` (c = configured name).
    What a value text means once quoted is taken from http.cookies itself, pair by pair."""
    from http.cookies import SimpleCookie
    items = []
    sep = SEPS[0]
    if spec.startswith('multi:'):
        _, sepi, rest = spec.split(':', 2)
        sep = SEPS[int(sepi) % len(SEPS)]
        for it in rest.split('|'):
            who, _, sub = it.partition('~')
            items.append((cc['name'] if who == 'c' else int(who[1:]), sub))
    else:
        items.append((cc['name'], spec))
    texts, pairs = [], []
    for ni, sub in items:
        quoted = sub.startswith('q~')
        if quoted:
            sub = sub[2:]
        v = _base_value(sub, jars, w)
        if v is None:
            continue
        name = NAMES[ni] if ni < 10 else DECOYS[ni]
        text = '%s="%s"' % (name, v) if quoted else '%s=%s' % (name, v)
        try:
            sc = SimpleCookie()
            sc.load(text)
            seen = sc[name].value if name in sc else None
        except Exception:
            seen = None
        if seen is None:
            continue                    # http.cookies does not accept this pair alone: leave it out
        texts.append(text)
        pairs.append((ni, seen))
    if not texts:
        return None, []
    return sep.join(texts), pairs


# ----------------------------------------------------------------------------------------------
# running one history on the real code
# ----------------------------------------------------------------------------------------------
def run_history(case):
    try:
        return common._with_alarm(HIST_TIMEOUT, lambda: _run_history(case))
    except common._Alarm:
        return {'items': ['HANG'], 'model_line': None, 'mon_line': None, 'mon_real': None,
                'events': [{'op': 'hang', 'now': 0, 'what': 'the history did not finish in %d s' % HIST_TIMEOUT}],
                'draws': [], 'ids': {}}
    except Hang as e:
        return {'items': ['HANG'], 'model_line': None, 'mon_line': None, 'mon_real': None,
                'events': [{'op': 'hang', 'now': 0, 'what': str(e)}], 'draws': [], 'ids': {}}


def _run_history(case):
    """Execute a history on the real sessions code.

    Returns {'items': [canonical per-op observation], 'model_line': str, 'events': [...]} where
    `events` is the raw observation list consumed by the oracle."""
    import cherrypy
    from cherrypy.lib import sessions
    cherrypy.config.update({'environment': 'test_suite', 'log.screen': False})
    backend = case['backend']
    T = model_timeout(case)
    cc = cc_of(case)
    cname = NAMES[cc['name']]
    w = _World(case)
    w.unk_prefix = case.get('unkp', 'ffffffff')
    W[0] = w
    for ops in case['ops']:
        if ops[0] == 'req':
            check_hops(ops[3])
        elif ops[0] == 'par':
            check_hops(ops[3] + ops[4] + ops[7])
        elif ops[0] == 'swpar':
            check_hops(ops[3] + ops[4])
    saved = (sessions.datetime, sessions.time, sessions.os)
    sessions.datetime, sessions.time, sessions.os = _DatetimeShim(), _TimeShim(), _OsShim()
    real_generate_id = sessions.Session.generate_id
    sessions.Session.generate_id = lambda self: w.generate_id(self, real_generate_id)
    plugins = cherrypy.process.plugins
    saved_monitor = plugins.Monitor
    plugins.Monitor = _FakeMonitor
    saved_memcache = sys.modules.get('memcache')
    sys.modules['memcache'] = _fake_memcache
    classes = [sessions.Session, sessions.RamSession, sessions.FileSession, sessions.MemcachedSession]

    def reset_classes():
        for c in classes:
            if 'clean_thread' in vars(c) and c is not sessions.Session:
                try:
                    delattr(c, 'clean_thread')
                except AttributeError:
                    pass
        sessions.Session.clean_thread = None
        sessions.RamSession.cache.clear()
        sessions.RamSession.locks.clear()
        sessions.MemcachedSession.locks.clear()
        if hasattr(cherrypy, 'session'):
            del cherrypy.session
    reset_classes()
    tmp = tempfile.mkdtemp(prefix='c14-') if backend == 'file' else None
    try:
        app = _make_app(case, tmp)

        def spath(sid):
            return _os.path.join(tmp, 'session-' + sid)

        def listing():
            """{real id: ('g', canon dict, exp) | ('b', cls)} of the durable store."""
            out = {}
            if backend == 'ram':
                for sid, ent in list(sessions.RamSession.cache.items()):
                    try:
                        data, exp = ent
                        out[sid] = ('g', canon_dict(data), _ticks(exp))
                    except Exception:
                        out[sid] = ('b', 'shape')
            elif backend == 'mem':
                if w.mc is not None:
                    for sid, ent in w.mc.visible().items():
                        try:
                            data, exp = ent
                            out[sid] = ('g', canon_dict(data), _ticks(exp))
                        except Exception:
                            out[sid] = ('b', 'shape')
            else:
                for name in _os.listdir(tmp):
                    if name.startswith('session-') and not name.endswith('.lock'):
                        if not _os.path.isfile(_os.path.join(tmp, name)):
                            out[name[8:]] = ('b', 'notafile')
                            continue
                        with open(_os.path.join(tmp, name), 'rb') as f:
                            c = _classify_blob(f.read())
                        out[name[8:]] = ('g', canon_dict(c[1]), c[2]) if c[0] == 'g' else c
            return out

        w.live = lambda: sorted(s for s in listing() if s in w.id_of)

        def show_listing(ls):
            if not ls:
                return '~'
            ents = []
            for sid in sorted(ls, key=w.number):
                e = ls[sid]
                if e[0] == 'g':
                    ents.append('%d:g:%s:%s' % (w.number(sid), e[2], show_dict(e[1])))
                else:
                    ents.append('%d:b:%s' % (w.number(sid), e[1]))
            return '!'.join(ents)

        def escapes(v):
            return bool(backend == 'file' and v is not None and '\x00' not in v and not
                        _os.path.abspath(_os.path.join(tmp, 'session-' + v)).startswith(_os.path.join(tmp, '')))

        def mcookie(pairs):
            """the cookie field of the model line"""
            def one(v):
                return ('e%d' if escapes(v) else 'i%d') % w.number(v)
            if not pairs:
                return 'n'
            if len(pairs) == 1 and pairs[0][0] == cc['name']:
                return one(pairs[0][1])
            return 'p' + ','.join('%d:%s' % (ni, one(v)) for ni, v in pairs)

        jars = {}          # client -> list of ids received (last = current, None = dropped)
        probe = [0]

        def prepare(client, spec, hops):
            header, pairs = resolve_header(spec, jars, w, cc)
            for ni, v in pairs:
                if v not in w.id_of:
                    w.number(v)
            probe[0] += 1
            n = probe[0]
            w.recs[n] = {'reads': [], 'lens': [], 'have': False, 'raised': False, 'orig': None, 'missing': None,
                         'regenerated': False}
            env = {}
            if cc['ph'] is not None:
                env['HTTP_X_SESS_PATH'] = PATHS[cc['ph']]
            return {'client': client, 'spec': spec, 'hops': list(hops), 'header': header, 'pairs': pairs,
                    'probe': n, 'env': env}

        def fire(rq):
            w.req_draws = 0
            try:
                return _wsgi(app, 'ops=' + ','.join(rq['hops']), rq['header'], rq['probe'], rq['env'])
            except common.HarnessError:
                raise
            except Exception as e:              # nothing may escape a WSGI application
                return ('EXC ' + type(e).__name__, [], repr(e).encode('utf-8', 'replace'))

        def observe(rq, result, before, after):
            status, headers, body = result
            code = status.split()[0]
            rec = w.recs[rq['probe']]
            hops = rq['hops']
            sid, expired, attrs = _parse_set_cookie(headers, cname, EPOCH + 60.0 * w.clock)
            if code == '200':
                st = 'ok'
            elif code == '303' and 'H' in hops:
                st = 'ok'
            elif code == 'EXC':
                st = 'EXC-' + status.split()[1]
            else:
                st = code
            reads = list(rec['reads'])
            lens = [x for x in rec['lens'] if x != 'NI']
            if rec['have']:
                o = rec['orig']
                p = 'n' if o is None else (('e%d' if escapes(o) else 'i%d') % w.number(o) if isinstance(o, str)
                                           else 'X')
                if rec['missing'] is True:
                    p += '!'
                elif rec['missing'] is not False:
                    p += '?'
                if rec['regenerated']:
                    p += 'r'
            else:
                p = '-'
            if 'G' in hops:
                attrs = 'skip'
            item = '%s:%s:%s:%s:L%s:C%s:P%s' % (
                st, '-' if sid is None else w.number(sid), 'x' if 'G' in hops else (1 if expired else 0),
                '/'.join(show_dict(r) for r in reads) if reads else '-',
                ','.join(str(x) for x in lens) if lens else '-', attrs, p)
            presented = [v for ni, v in rq['pairs'] if ni == cc['name']]
            ev = {'op': 'req', 'client': rq['client'], 'spec': rq['spec'], 'hops': hops,
                  'presented': presented, 'cookie': presented[-1] if presented else None,
                  'status': st, 'sid': sid, 'expired': expired, 'reads': reads,
                  'before': before, 'after': after, 'now': w.clock,
                  'escapes': [v for v in presented if escapes(v)],
                  'raised': bool(rec['raised']), 'diverged': w.diverged,
                  'flags': {'missing': rec['missing'], 'regenerated': rec['regenerated'], 'have': rec['have']},
                  'err': body[-600:].decode('utf-8', 'replace') if st not in ('ok', '400') else ''}
            w.diverged = False
            if sid is not None:
                j = jars.setdefault(rq['client'], [])
                if not j or j[-1] != sid:
                    j.append(sid)
                if expired:
                    j.append(None)
            return item, ev

        items, mops, events = [], [], []
        for op in case['ops']:
            kind = op[0]
            before = listing()
            if kind == 'req':
                _, client, spec, hops = op
                rq = prepare(client, spec, hops)
                result = fire(rq)
                after = listing()
                item, ev = observe(rq, result, before, after)
                items.append('R:' + item + '@' + show_listing(after))
                mh = model_hops(hops, backend)
                mops.append('q/%s/%s' % (mcookie(rq['pairs']), '+'.join(mh) if mh else '-'))
                events.append(ev)
            elif kind == 'par':
                _, ca, speca, prea, posta, cb, specb, hopsb = op
                rqa = prepare(ca, speca, list(prea) + ['P'] + list(posta))
                rqb = prepare(cb, specb, hopsb)
                pa = [v for ni, v in rqa['pairs'] if ni == cc['name']]
                pb = [v for ni, v in rqb['pairs'] if ni == cc['name']]
                if set(pa) & set(pb) & set(before):
                    # both would work on the same live session: the second waits for the first (C13); run
                    # them one after the other
                    rqa['hops'] = list(prea) + list(posta)
                    ra = fire(rqa)
                    mid = listing()
                    ia, eva = observe(rqa, ra, before, mid)
                    rb = fire(rqb)
                    after = listing()
                    ib, evb = observe(rqb, rb, mid, after)
                    items.append('R:' + ia + '@' + show_listing(mid))
                    items.append('R:' + ib + '@' + show_listing(after))
                    mha, mhb = model_hops(rqa['hops'], backend), model_hops(hopsb, backend)
                    mops.append('q/%s/%s' % (mcookie(rqa['pairs']), '+'.join(mha) if mha else '-'))
                    mops.append('q/%s/%s' % (mcookie(rqb['pairs']), '+'.join(mhb) if mhb else '-'))
                    events.append(eva)
                    events.append(evb)
                    continue
                w.gate_reached.clear()
                w.gate_resume.clear()
                box = {}

                def ta():
                    try:
                        box['a'] = fire(rqa)
                    except BaseException as e:      # noqa: B902 - reported by the main thread
                        box['aexc'] = e
                    finally:
                        w.gate_reached.set()

                def tb():
                    try:
                        box['b'] = fire(rqb)
                    except BaseException as e:      # noqa: B902
                        box['bexc'] = e
                tha = threading.Thread(target=ta, daemon=True)
                tha.start()
                if not w.gate_reached.wait(20):
                    w.gate_resume.set()
                    raise Hang('request A of an overlap did not reach its handler')
                mid = listing()
                thb = threading.Thread(target=tb, daemon=True)
                thb.start()
                thb.join(3)
                blocked = thb.is_alive()
                after_b = listing()
                w.gate_resume.set()
                tha.join(20)
                thb.join(20)
                if tha.is_alive() or thb.is_alive():
                    raise Hang('overlapping requests did not finish')
                for k in ('aexc', 'bexc'):
                    if k in box:
                        raise box[k]
                if w.gate_timed_out:
                    raise common.HarnessError('gate timed out')
                after = listing()
                ia, eva = observe(rqa, box['a'], before, after)
                ib, evb = observe(rqb, box['b'], mid, after_b if not blocked else after)
                eva['hops'] = [h for h in eva['hops'] if h != 'P']
                items.append('O:' + ia + '|' + ib + '@' + show_listing(after))
                mpre, mpost, mhb = (model_hops(x, backend) for x in (prea, posta, hopsb))
                mops.append('o/%s/%s/%s/%s/%s' % (mcookie(rqa['pairs']), '+'.join(mpre) or '-', '+'.join(mpost) or '-',
                                                  mcookie(rqb['pairs']), '+'.join(mhb) or '-'))
                events.append({'op': 'par', 'A': eva, 'B': evb, 'blocked': blocked, 'now': w.clock})
            elif kind == 'swpar':
                # the sweep runs while the request is inside its handler (holding its session's lock)
                _, client, spec, prea, posta = op
                mon = w.monitors[0] if w.monitors else None
                if mon is None or backend == 'mem':
                    rq = prepare(client, spec, list(prea) + list(posta))
                    result = fire(rq)
                    after = listing()
                    item, ev = observe(rq, result, before, after)
                    items.append('R:' + item + '@' + show_listing(after))
                    mh = model_hops(rq['hops'], backend)
                    mops.append('q/%s/%s' % (mcookie(rq['pairs']), '+'.join(mh) if mh else '-'))
                    events.append(ev)
                    continue
                rq = prepare(client, spec, list(prea) + ['P'] + list(posta))
                w.gate_reached.clear()
                w.gate_resume.clear()
                w.sweep_waiting.clear()
                box = {}

                def ta():
                    try:
                        box['a'] = fire(rq)
                    except BaseException as e:      # noqa: B902 - reported by the main thread
                        box['aexc'] = e
                    finally:
                        w.gate_reached.set()

                def ts():
                    w.sweep_thread = threading.current_thread()
                    try:
                        mon.callback()
                        box['s'] = ('done', '')
                    except common.HarnessError as e:
                        box['sexc'] = e
                    except Exception as e:          # the Monitor thread would die here
                        box['s'] = ('aborted', type(e).__name__)
                    finally:
                        box['sdone'] = True
                tha = threading.Thread(target=ta, daemon=True)
                tha.start()
                if not w.gate_reached.wait(20):
                    w.gate_resume.set()
                    raise Hang('the request of a sweep interleaving did not reach its handler')
                parked = 'a' not in box and 'aexc' not in box
                mid = listing()
                ths = threading.Thread(target=ts, daemon=True)
                ths.start()
                t0 = _time.time()
                while not box.get('sdone') and not w.sweep_waiting.is_set() and _time.time() - t0 < 20:
                    _time.sleep(0.002)
                waited = w.sweep_waiting.is_set() and not box.get('sdone')
                w.gate_resume.set()
                tha.join(20)
                ths.join(20)
                w.sweep_thread = None
                if tha.is_alive() or ths.is_alive():
                    raise Hang('a sweep running next to a request did not finish')
                for k in ('aexc', 'sexc'):
                    if k in box:
                        raise box[k]
                if w.gate_timed_out:
                    raise common.HarnessError('gate timed out')
                after = listing()
                out, exc = box['s']
                # what the request alone left: the final listing plus what only the sweep took away
                after_a = dict(after)
                for k, v in mid.items():
                    if k not in after_a:
                        after_a[k] = v
                item, ev = observe(rq, box['a'], before, after_a)
                ev['hops'] = [h for h in ev['hops'] if h != 'P']
                sw_before = dict(mid)
                for k, v in after.items():
                    sw_before.setdefault(k, v)
                sev = {'op': 'sweep', 'out': out, 'exc': exc, 'before': sw_before, 'after': after,
                       'now': w.clock, 'ran': True}
                mh = model_hops(ev['hops'], backend)
                if parked:
                    mpre, mpost = model_hops(prea, backend), model_hops(posta, backend)
                    items.append(('R:' + item if out == 'done' else 'aborted') + '@' + show_listing(after))
                    mops.append('z/%s/%s/%s' % (mcookie(rq['pairs']), '+'.join(mpre) or '-', '+'.join(mpost) or '-'))
                else:
                    # the request was over before the sweep began (refused, or failed before the gate)
                    items.append('R:' + item + '@' + show_listing(mid))
                    items.append(out + '@' + show_listing(after))
                    mops.append('q/%s/%s' % (mcookie(rq['pairs']), '+'.join(mh) if mh else '-'))
                    mops.append('s' + ','.join(str(w.number(x)) for x in sorted(mid)) if backend == 'file' and mid
                                else 's')
                    ev['after'] = mid
                    sev['before'] = mid
                events.append({'op': 'swpar', 'A': ev, 'S': sev, 'waited': waited, 'now': w.clock})
            elif kind == 'adv':
                w.clock += int(op[1])
                items.append('done@' + show_listing(listing()))
                mops.append('a%d' % int(op[1]))
                events.append({'op': 'adv', 'd': int(op[1]), 'now': w.clock})
            elif kind == 'sweep':
                mon = w.monitors[0] if w.monitors else None
                out = 'done'
                exc = ''
                if mon is not None:
                    try:
                        mon.callback()
                    except common.HarnessError:
                        raise
                    except Exception as e:      # the Monitor thread would die here
                        out = 'aborted'
                        exc = type(e).__name__
                after = listing()
                items.append(out + '@' + show_listing(after))
                if mon is None:
                    mops.append('a0')
                elif backend == 'file' and before:
                    mops.append('s' + ','.join(str(w.number(x)) for x in sorted(before)))
                else:
                    mops.append('s')
                events.append({'op': 'sweep', 'out': out, 'exc': exc, 'before': before, 'after': after,
                               'now': w.clock, 'ran': mon is not None})
            elif kind == 'tear':
                _, client, how, arg = op
                j = [x for x in jars.get(client, []) if x is not None]
                sid = j[-1] if j else None
                done = False
                cls = None
                blob = b''
                if backend == 'file' and sid is not None and sid in before and '/' not in sid \
                        and _os.path.isfile(spath(sid)):
                    with open(spath(sid), 'rb') as f:
                        blob = f.read()
                    if how == 'cut':
                        new = blob[:int(arg) % len(blob)] if blob else b''
                    elif how == 'zero':
                        new = b''
                    elif how == 'garbage':
                        new = GARBAGE_CONTRACT[int(arg) % len(GARBAGE_CONTRACT)]
                    elif how == 'garbage_other':
                        new = GARBAGE_OTHER[int(arg) % len(GARBAGE_OTHER)]
                    else:
                        raise common.HarnessError('bad tear kind %r' % how)
                    with open(spath(sid), 'wb') as f:
                        f.write(new)
                    c = _classify_blob(new)
                    if c[0] == 'g':
                        raise common.HarnessError('tear produced a loadable file: %r' % new)
                    cls = c[1]
                    if how in ('cut', 'zero') and cls not in ('eof', 'unp') and _classify_blob(blob)[0] == 'g':
                        raise common.HarnessError(
                            'pickle contract broken: truncation at %d of %r raises class %s'
                            % (len(new), blob, cls))
                    done = True
                    mops.append('t%d.%s' % (w.number(sid), cls))
                else:
                    mops.append('a0')
                after = listing()
                items.append('done@' + show_listing(after))
                events.append({'op': 'tear', 'sid': sid if done else None, 'cls': cls, 'how': how,
                               'now': w.clock, 'after': after, 'len': len(blob) if done else 0})
            else:
                raise common.HarnessError('bad op %r' % (op,))
        if w.unknown and any(v in w.id_of.values() for v in w.unknown.values()):
            raise common.HarnessError('id numbering clash')
        mb = {'ram': 'ram', 'file': 'file', 'mem': 'mem'}[backend]

        def on(x):
            return '-' if x is None else str(x)
        cfield = '%d.%s.%s.%s.%d.%d.%d' % (cc['name'], on(cc['path']), on(cc['ph']), on(cc['domain']),
                                           int(bool(cc['secure'])), int(bool(cc['httponly'])),
                                           int(bool(cc['persistent'])))
        line = '%s %d 1 %s %s %s' % (mb, T, ','.join(map(str, w.draws)) or '-', cfield, ';'.join(mops) or 'a0')
        loads_ok = all(isinstance(f, int) and f >= 0 for _, f in w.loads)
        mon_line = 'mon ' + (','.join('%d.%d' % (c, f) for c, f in w.loads) or '-') if loads_ok else None
        per = {}
        for m in w.monitors:
            c = CLASS_IDX.get(type(getattr(m.callback, '__self__', None)).__name__, 9)
            per.setdefault(c, []).append(m.frequency)
        started = sum(1 for m in w.monitors if m.started)
        mon_real = '%d;%s' % (started, ','.join('%d:%s' % (c, '/'.join(str(x) for x in per[c])) for c in sorted(per)))
        return {'items': items, 'model_line': line, 'mon_line': mon_line, 'mon_real': mon_real,
                'events': events, 'draws': list(w.draws), 'ids': dict(w.id_of)}
    finally:
        w.gate_resume.set()
        sessions.datetime, sessions.time, sessions.os = saved
        sessions.Session.generate_id = real_generate_id
        plugins.Monitor = saved_monitor
        if saved_memcache is None:
            sys.modules.pop('memcache', None)
        else:
            sys.modules['memcache'] = saved_memcache
        try:
            reset_classes()
        except Exception:
            pass
        if hasattr(sessions.MemcachedSession, 'cache') and isinstance(
                vars(sessions.MemcachedSession).get('cache'), _FakeMemcacheClient):
            try:
                del sessions.MemcachedSession.cache
            except AttributeError:
                pass
        W[0] = None
        if tmp:
            shutil.rmtree(tmp, ignore_errors=True)


# ----------------------------------------------------------------------------------------------
# the cleanup Monitor's start-once logic, driven directly (several classes in one process)
# ----------------------------------------------------------------------------------------------
def run_monitor_scenario(loads):
    """loads: [(class index, clean_freq)]; every entry constructs a session of that class and calls its
    real `load()`.  -> (model line, what the real code did in the driver's output format, [(what, signature)]
    statement-level problems seen while constructing sessions directly)."""
    try:
        return common._with_alarm(HIST_TIMEOUT, lambda: _run_monitor_scenario(loads))
    except common._Alarm:
        return None, None, [('constructing / loading sessions directly did not finish in %d s' % HIST_TIMEOUT,
                             'hang')]
    except Diverged:
        return None, None, [('constructing a session kept drawing ids (regeneration loop does not end)',
                             'regenerate_loop_diverged')]


def _run_monitor_scenario(loads):
    import cherrypy
    from cherrypy.lib import sessions
    classes = {0: sessions.RamSession, 1: sessions.FileSession, 2: sessions.MemcachedSession}
    w = _World({})
    W[0] = w
    plugins = cherrypy.process.plugins
    saved_monitor = plugins.Monitor
    plugins.Monitor = _FakeMonitor
    saved = (sessions.datetime, sessions.time, sessions.os)
    sessions.datetime, sessions.time, sessions.os = _DatetimeShim(), _TimeShim(), _OsShim()
    real_generate_id = sessions.Session.generate_id
    sessions.Session.generate_id = lambda self: w.generate_id(self, real_generate_id)
    tmp = tempfile.mkdtemp(prefix='c14m-')
    problems = []

    def reset():
        for c in classes.values():
            if 'clean_thread' in vars(c):
                delattr(c, 'clean_thread')
        sessions.Session.clean_thread = None
        sessions.RamSession.cache.clear()
        sessions.RamSession.locks.clear()
        sessions.MemcachedSession.locks.clear()
    reset()
    try:
        sessions.MemcachedSession.cache = _FakeMemcacheClient(['x'])
        for n, (cls, freq) in enumerate(loads):
            kw = {'clean_freq': freq, 'timeout': 1}
            if n % 2:
                kw['debug'] = True
            if cls == 1:
                kw['storage_path'] = tmp
            w.req_draws = 0
            inst = classes[cls](None if n % 3 else 'f' * 40, **kw)
            if n % 3 == 0 and inst.id == 'f' * 40:
                problems.append(('%s(id) adopted an id its store does not hold' % type(inst).__name__, 'fixation'))
            inst.acquire_lock()
            try:
                inst.load()
                if n % 4 == 1:
                    inst.save()
                    inst.acquire_lock()
                    again = classes[cls](inst.id, **kw)       # a live id, constructed directly
                    if again.id != inst.id:
                        problems.append(('%s(id) did not adopt the id of a session saved a moment ago'
                                         % type(inst).__name__, 'live_data_lost'))
            finally:
                if inst.locked:
                    inst.release_lock()
        per = {}
        for m in w.monitors:
            c = CLASS_IDX.get(type(getattr(m.callback, '__self__', None)).__name__, 9)
            per.setdefault(c, []).append(m.frequency)
        started = sum(1 for m in w.monitors if m.started and m.subscribed)
        real = '%d;%s' % (started, ','.join('%d:%s' % (c, '/'.join(str(x) for x in per[c])) for c in sorted(per)))
        return 'mon ' + (','.join('%d.%d' % (c, f) for c, f in loads) or '-'), real, problems
    finally:
        sessions.datetime, sessions.time, sessions.os = saved
        sessions.Session.generate_id = real_generate_id
        plugins.Monitor = saved_monitor
        try:
            reset()
            if isinstance(vars(sessions.MemcachedSession).get('cache'), _FakeMemcacheClient):
                del sessions.MemcachedSession.cache
        except Exception:
            pass
        W[0] = None
        shutil.rmtree(tmp, ignore_errors=True)
