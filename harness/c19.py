"""C19 - HTTP authentication admits exactly the right credentials.

Model: lean/CpModel/Auth.lean (+ AuthPrims.lean), theorems: lean/CpProofs/C19.lean, driver: lean/Drv/C19.lean.

Real code: the `auth_basic` / `auth_digest` tools switched on by config on an in-process WSGI application with a
probe handler (records whether it ran and `request.login`), a priority-0 `before_handler` hook recording the header
value the tool is about to read, a `before_error_response` hook recording the class of an escaping exception, and
`auth_digest.time` replaced by a logical clock.

Oracle: an independent RFC 2617 / RFC 7617 client + verifier written in this file (`c19_client.py`) that works on the
fields the client *intended* and on bytes, never on the server's parse; "issued by this server" is decided by
remembering which nonces the real server handed out in 401 challenges (format-agnostic).
"""
import io
import json
import linecache
import os
import signal
import sys
import threading

from . import common
from . import c19_tables
from . import c19_client as cl

PROPERTY = 'C19'
LEAN_TARGETS = ['CpProofs.C19', 'CpProofs.C19Md5', 'CpProofs.C19Sound', 'CpProofs.C19Wire', 'CpProofs.C19Nonce',
                'drv_c19']
DRIVER = 'drv_c19'
THEOREMS = [
    'CpProofs.C19.split1_iff',
    'CpProofs.C19.validateNonce_iff',
    'CpProofs.C19.isNonceStale_false_iff',
    'CpProofs.C19.validateFields_ok_iff',
    'CpProofs.C19.checkpasswordDict_iff',
    'CpProofs.C19.basic_sound_complete',
    'CpProofs.C19.basic_never_5xx',
    'CpProofs.C19.basic_400_iff',
    'CpProofs.C19.basic_other_scheme_401',
    'CpProofs.C19.basic_empty_password_never',
    'CpProofs.C19.requestDigest_eq_rfc',
    'CpProofs.C19.requestDigest_authint',
    'CpProofs.C19.challenge_stale_ne',
    'CpProofs.C19.digest_grant_iff',
    'CpProofs.C19.digest_sound',
    'CpProofs.C19.digest_complete',
    'CpProofs.C19.parseAuth_error',
    'CpProofs.C19.digest_400_iff',
    'CpProofs.C19.digest_other_scheme_401',
    'CpProofs.C19.digest_stale_iff',
    'CpProofs.C19.digest_forged_nonce_never_stale',
    'CpProofs.C19.digest_wrong_response_401',
    'CpProofs.C19.digest_error_iff',
    'CpProofs.C19.digest_never_5xx_full_false',
    'CpProofs.C19.digest_never_5xx_partial',
    'CpProofs.C19.digest_complete_full_false',
    'CpProofs.C19.md5_sess_recognised',
    'CpProofs.C19.ha2_no_valueError',
    'CpProofs.C19.b64decode_encode',
    'CpProofs.C19.basic_rfc7617_client',
    'CpProofs.C19.utf8_roundtrip',
    'CpProofs.C19.basic_rfc7617_client_utf8',
    'CpProofs.C19.parseHttpList_serialise',
    'CpProofs.C19.parse_serialise',
    'CpProofs.C19.parseAuth_serialised',
    'CpProofs.C19.digest_rfc2617_client',
    'CpProofs.C19.digest_rfc2617_client_wrong',
    'CpProofs.C19.latin1_roundtrip',
    'CpProofs.C19.tryDecodeHeader_latin1',
    'CpProofs.C19.digest_rfc2617_client_latin1',
    'CpProofs.C19.latin1_enc_dec',
    'CpProofs.C19.tryDecodeHeader_utf8',
    'CpProofs.C19.digest_rfc2617_client_utf8',
    'CpProofs.C19.tools_hooked',
    # round 2: the hash made concrete (RFC 1321 MD5 evaluated in the kernel), collision resistance made explicit
    'CpProofs.C19.md5_rfc1321_test_suite',
    'CpProofs.C19.md5Hex_isHex',
    'CpProofs.C19.md5Hex_length',
    'CpProofs.C19.rfc2617_section_3_5_example',
    'CpProofs.C19.digest_md5_concrete',
    'CpProofs.C19.basic_rfc7617_example',
    'CpProofs.C19.digest_rfc2617_client_md5',
    'CpProofs.C19.rfcDigest_ha1_inj',
    'CpProofs.C19.digest_sound_password_or_collision',
    'CpProofs.C19.digest_sound_ha1_or_collision',
    'CpProofs.C19.nonce_binds_realm_key_or_collision',
    'CpProofs.C19.nonce_colon_ambiguity',
    # round 2: well-formed challenges, Request.process_headers in front of the tools
    'CpProofs.C19.digestChallenge_wellformed',
    'CpProofs.C19.digestChallenge_wellformed_md5',
    'CpProofs.C19.digestChallenge_unchanged_for_plain_realms',
    'CpProofs.C19.digestChallengeUnescaped_wellformed_false',
    'CpProofs.C19.basicChallenge_wellformed',
    'CpProofs.C19.basicChallenge_unchanged_for_plain_realms',
    'CpProofs.C19.basicChallengeUnescaped_wellformed_false',
    'CpProofs.C19.processHeader_plain',
    'CpProofs.C19.digestRequest_undecodable',
    'CpProofs.C19.digestRequest_grant_iff',
    'CpProofs.C19.basicRequest_grant_iff',
    'CpProofs.C19.digestRequest_rfc2617_client_latin1',
    'CpProofs.C19.digestRequest_rfc2617_client_utf8',
    'CpProofs.C19.processHeader_basic',
    'CpProofs.C19.basicRequest_rfc7617_client_utf8',
    'CpProofs.C19.basic_colon_user_never',
    'CpProofs.C19.wwwAuthenticate_defaults',
    'CpProofs.C19.wwwAuthenticate_error_iff',
    'CpProofs.C19.parseAuth_not_digest',
    # round 2: int() reads back the server's own timestamp text; answering the server's own challenge
    'CpProofs.C19.pyInt_showInt',
    'CpProofs.C19.issued_nonce_valid_fresh',
    'CpProofs.C19.digest_complete_issued',
]
LEVEL = 'proof'
TECHNIQUE = ('Lean 4 proof over a statement-by-statement model of Request.process_headers (one value), basic_auth and '
             'digest_auth: general theorems with the hash, base64, charset codec, NFC and the RFC 2047 decoder as arbitrary '
             'function parameters, plus instances with the concrete RFC 1321 MD5 / base64 / UTF-8 evaluated in the kernel; '
             'model tied to the tools by a differential run driven by an independent RFC 2617/7617 client with systematic '
             'single-field corruption')
LEVEL_TEXT = ('Proved in Lean for every Authorization header string, configuration, method and clock value, with the hash, '
              'base64 decoder, accept_charset codec and NFC arbitrary functions: basic_auth lets a request through with '
              'login=u iff the header is "<basic> <b64>" whose bytes decode (accepted charset, else ISO-8859-1; NFC) to u:p '
              'with store[u]=p non-empty, otherwise answers the Basic challenge (401) or 400 exactly on the listed parse '
              'failures, never an exception; digest_auth lets it through iff the header parses, the nonce is '
              't:H(t:realm:key) for the server\'s realm and key with int(t)+600 > now, and response equals the RFC 2617 '
              'request-digest recomputed from the stored HA1, the request method and the header fields (qop absent/auth, '
              'MD5/MD5-sess); stale="true" iff genuine nonce + known user + correct digest + expired; 400 iff the Digest '
              'header fails the parser/constructor; an exception escapes iff qop=auth-int (F21: TypeError); the transcribed '
              'urllib list parsers give back the fields of any "name=\\"escaped value\\"" serialisation (arbitrary values), so '
              'an RFC 2617 client is admitted from its header text, and the concrete base64 decoder inverts the RFC 4648 '
              'encoder, so an RFC 7617 client is admitted iff store[u]=p - both lifted through Request.process_headers '
              '(strip + RFC 2047 decoding iff "=?": a client header reaches the tool unchanged; an encoded word is admitted '
              'only as what it decodes to; undecodable = 400). Concrete hash: the Lean MD5 satisfies the RFC 1321 test suite '
              'and reproduces the RFC 2617 section 3.5 response by kernel evaluation, digest_auth is evaluated end to end on '
              'literal header bytes, and "admitted => the client used the stored password" is proved for every H in the '
              'reduction form "... or an explicit collision of H exists". 401 challenges of both tools parse back to exactly '
              'realm/nonce/algorithm/qop[/stale][/charset] for EVERY realm and charset name (realm and charset written as '
              'quoted-strings with quoted-pair escapes, nonce and H(A1) from the unescaped realm; the unescaped paste of the '
              'code before the fix for F26 is refuted with witnesses and shown identical on realms free of quote/backslash). '
              'Partial: completeness and never-5xx exclude qop=auth-int (both full statements are '
              'proved false with the F21 witness); collision resistance is a hypothesis (explicit); NFC and the RFC 2047 '
              'decoder are parameters; accept_charset values other than the UTF-8 / ISO-8859-1 / ASCII spellings are not generated.')
LEVEL_NOTE = ('Trusted: Lean kernel (axioms propext, Classical.choice, Quot.sound only); lean/CpModel/Auth.lean as a '
              'description of auth_basic.py/auth_digest.py and of the header step of Request.process_headers, validated on '
              'every run by the differential stream (independent RFC 2617/7617 client x corruption catalogue x RFC 2047 '
              'words x debug flag), by comparing www_authenticate / the HttpDigestAuthorization constructor called directly, '
              'and by cross-checking the driver\'s MD5/base64/UTF-8/int()/strip/case/urllib-list-parser transcriptions against '
              'the running CPython; 208 of the 209 executable lines of the anchored functions are executed by the run (the '
              'remaining one is proved unreachable); the harness.')
TRUSTED_BASE = [
    'MD5, base64, the accept_charset codec, NFC and the RFC 2047 decoder are parameters of the general theorems (they '
    'hold for every function); the concrete MD5 / base64 / UTF-8 instances used by the concrete theorems and by the driver '
    'are cross-checked against CPython (hashlib, base64, codecs) on every run, MD5 additionally against the RFC 1321 '
    'test suite by proof',
    'urllib.request.parse_http_list / parse_keqv_list are transcribed by hand (source hash pinned; cross-checked on '
    'every run); str.strip / upper / lower / int() use tables regenerated from the running CPython',
    'email.header.decode_header (RFC 2047) is not transcribed: the model takes its result as a parameter; the harness '
    'keeps only generated headers on which an independent small RFC 2047 reader agrees with it',
]
ASSUMPTIONS = [
    'collision resistance of MD5 is outside any proof and stated as an explicit alternative: "only the right '
    'credentials pass" is the digest equality, and digest equality means the stored password was used or a collision '
    'of H is exhibited (digest_sound_password_or_collision)',
    'basic_auth refuses a realm containing a double quote with ValueError (kept by the fix for F26): such a '
    'configuration answers 500 to every request and only soundness is demanded of it; every other realm, backslashes '
    'and (Digest) double quotes included, is covered in full',
    'the entity body needed for qop=auth-int is not available to the tool (finding F21)',
    'the header uri field is not compared with the request target by the code; the statement is read as "the uri the '
    'header names" (RFC 2617 3.2.2.5 leaves the comparison to the server)',
]
RULE = ('per generated configuration (tool x realm x accept_charset x store kind x debug flag x 2-5 users over ASCII / '
        'Latin-1 / non-BMP / colon / quote / NFD / empty-password / compatibility twins on which NFC, NFKC, NFD, casefold and '
        'strip differ, stored and sent; 6 % realms with a double quote or backslash, which the challenges must escape): headers produced by the independent '
        'client for every user, qop x algorithm x method x nonce age, then one corruption drawn from a fixed catalogue '
        '(semantic: computed with wrong inputs, from the literal HA1 "None" for users without a secret, a method= parameter '
        'naming the method the digest was computed for; tamper: '
        'field changed after signing; syntactic: scheme, quoting, quoted-pair, parameter-name case, base64, white space, '
        'missing / extra / duplicated / empty fields; wire charset; RFC 2047 encoded words around the whole value, the '
        'parameters, the scheme, one field, undecodable, decoding beyond U+00FF, bare "=?"; key-holder nonces with exotic '
        'int() timestamps).  Non-trivial = an Authorization header was sent; distinct = distinct (configuration, method, '
        'clock, header) tuple')

CODEC = {'utf-8': 'utf8', 'utf8': 'utf8', 'iso-8859-1': 'latin1', 'latin-1': 'latin1', 'latin1': 'latin1',
         'ascii': 'ascii', 'us-ascii': 'ascii'}
PYCODEC = {'utf8': 'utf-8', 'latin1': 'latin-1', 'ascii': 'ascii'}


CALL_TIMEOUT = 20       # seconds one request may take inside the code under test before it counts as a hang
MAX_HANGS = 3           # after that many hangs the run stops generating (each one is reported with its input)


def tables(ctx):
    return c19_tables.gen()


# ----------------------------------------------------------------------------------------------
# line protocol
# ----------------------------------------------------------------------------------------------
def T(s):
    return '-' if s == '' else '.'.join(str(ord(c)) for c in s)


def unT(t):
    return '' if t == '-' else ''.join(chr(int(x)) for x in t.split('.'))


def PAIRS(pairs):
    return '_' if not pairs else ','.join(T(a) + '~' + T(b) for a, b in pairs)


def OPT(s):
    return 'N' if s is None else T(s)


def model_line(case, hdr_seen):
    cfg = case['cfg']
    codec = CODEC[cfg['charset'].lower()]
    if cfg['tool'] == 'basic':
        return 'basic %s %s %s %s %s %s' % (T(cfg['charset']), codec, T(cfg['realm']), PAIRS(cfg['users']),
                                            OPT(hdr_seen), PAIRS(cl.nfc_table(hdr_seen, PYCODEC[codec])))
    if cfg['store'] == 'htdigest':
        store = '_' if not cfg['htlines'] else ','.join('~'.join(T(x) for x in l) for l in cfg['htlines'])
    elif cfg['store'] == 'plain':
        store = PAIRS(cfg['users'])
    else:
        store = PAIRS([[u, cl.ha1_of(u, cfg['realm'], p)] for u, p in cfg['users']])
    return 'digest %s %s %s %s %s %s %s %d %s' % (
        T(cfg['charset']), codec, T(cfg['realm']), T(cfg['key']), cfg['store'], store,
        T(case['method']), int(case['now']), OPT(hdr_seen))


def parse_model(line):
    f = line.split(' ')
    if f[0] == 'grant':
        return ['grant', unT(f[1])]
    if f[0] == '401':
        return ['401', canon_chal(unT(f[1]))]
    if f[0] == '400':
        return ['400']
    if f[0] == '500':
        return ['500', f[1]]
    raise common.HarnessError('unexpected model line %r' % line)


# ----------------------------------------------------------------------------------------------
# real-code runner
# ----------------------------------------------------------------------------------------------
class Hang(BaseException):
    """raised by the watchdog inside a call into the code under test that does not return"""


class Watchdog:
    """`with Watchdog(seconds):` - SIGALRM based (main thread only; elsewhere it is a no-op).  A hang of the code
    under test becomes an observation the oracle judges, not a hang of the harness."""

    def __init__(self, seconds):
        self.seconds = seconds
        self.armed = False

    def _fire(self, signum, frame):
        raise Hang()

    def __enter__(self):
        if threading.current_thread() is threading.main_thread() and hasattr(signal, 'setitimer'):
            self.old = signal.signal(signal.SIGALRM, self._fire)
            signal.setitimer(signal.ITIMER_REAL, self.seconds)
            self.armed = True
        return self

    def __exit__(self, *exc):
        if self.armed:
            signal.setitimer(signal.ITIMER_REAL, 0)
            signal.signal(signal.SIGALRM, self.old)
        return False


class Coverage:
    """Which lines of the functions of auth_basic.py / auth_digest.py the run executes (sys.monitoring LINE events
    restricted to those code objects; every location reports once and is then disabled, so the cost is nil)."""

    def __init__(self, modules):
        self.codes = {}
        self.hit = set()
        self.tid = None
        for m in modules:
            for obj in list(vars(m).values()):
                self._collect(obj, m)

    def _collect(self, obj, mod):
        import types
        if isinstance(obj, (classmethod, staticmethod)):
            obj = obj.__func__
        if isinstance(obj, types.FunctionType):
            if obj.__module__ == mod.__name__:
                self._code(obj.__code__)
        elif isinstance(obj, type) and obj.__module__ == mod.__name__:
            for v in list(vars(obj).values()):
                self._collect(v, mod)

    def _code(self, code):
        import types
        if code in self.codes:
            return
        self.codes[code] = True
        for c in code.co_consts:
            if isinstance(c, types.CodeType):
                self._code(c)

    def executable(self):
        out = set()
        for code in self.codes:
            for _, _, line in code.co_lines():
                if line is not None and line != code.co_firstlineno:
                    out.add((code.co_filename, line, code.co_qualname))
        return out

    def _line(self, code, line):
        self.hit.add((code.co_filename, line))
        return sys.monitoring.DISABLE

    def start(self):
        mon = getattr(sys, 'monitoring', None)
        if mon is None:
            return False
        for tid in (3, 4, 5, 2):
            try:
                mon.use_tool_id(tid, 'c19-cov')
            except ValueError:
                continue
            self.tid = tid
            break
        if self.tid is None:
            return False
        mon.register_callback(self.tid, mon.events.LINE, self._line)
        for code in self.codes:
            mon.set_local_events(self.tid, code, mon.events.LINE)
        return True

    def stop(self):
        if self.tid is None:
            return
        mon = sys.monitoring
        for code in self.codes:
            mon.set_local_events(self.tid, code, 0)
        mon.register_callback(self.tid, mon.events.LINE, None)
        mon.free_tool_id(self.tid)
        self.tid = None

    def result(self):
        """(executable, hit) as JSON-able lists of [basename, line, qualname]"""
        ex = sorted([os.path.basename(f), l, q] for f, l, q in self.executable())
        hit = sorted([os.path.basename(f), l] for f, l in self.hit)
        return ex, hit


def coverage_report(ctx, executable, hit, repo_files):
    hitset = {(f, l) for f, l in hit}
    missed = [(f, l, q) for f, l, q in executable if (f, l) not in hitset]
    lines = []
    for f, l, q in missed:
        src = linecache.getline(repo_files.get(f, f), l).strip()
        lines.append('%s:%d %s: %s' % (f, l, q, src[:90]))
    ctx.extra['anchored_lines_executable'] = len(executable)
    ctx.extra['anchored_lines_executed'] = len(executable) - len(missed)
    ctx.extra['anchored_lines_not_executed'] = lines
    ctx.count('anchored_lines_not_executed', len(lines))


class Clock:
    """stands in for the `time` module inside cherrypy.lib.auth_digest"""

    def __init__(self):
        self.now = 0.0

    def time(self):
        return self.now


class SetupFailed(Exception):
    """the anchored modules themselves cannot be imported / set up (as opposed to the harness environment)"""


class World:
    def __init__(self):
        try:
            import cherrypy
        except Exception as e:
            raise common.HarnessError('cherrypy cannot be imported: %r' % (e,))
        try:
            from cherrypy.lib import auth_digest, auth_basic
            cherrypy.tools.auth_basic, cherrypy.tools.auth_digest
        except (KeyboardInterrupt, common.HarnessError):
            raise
        except BaseException as e:      # noqa
            raise SetupFailed('%s: %s' % (type(e).__name__, e))
        self.cherrypy = cherrypy
        self.auth_digest = auth_digest
        self.auth_basic = auth_basic
        cherrypy.config.update({'environment': 'test_suite', 'log.screen': False})
        self.clock = Clock()
        # logical clock: `time.time` of the time module is replaced for the duration of every call into the code under
        # test (whatever name the modules import the module under), and module-level names bound to the function itself
        # (`from time import time`) are rebound once
        import time as _time
        self._time = _time
        self.real_time = _time.time
        self.rebound = []
        for m in (auth_digest, auth_basic):
            for k, v in list(vars(m).items()):
                if v is self.real_time:
                    setattr(m, k, self.clock.time)
                    self.rebound.append((m, k, v))
        self.apps = {}
        self.probe = {}
        self.tmp = None
        self.hangs = 0
        probe = self.probe
        self.cov = Coverage([auth_basic, auth_digest])
        self.cov_on = self.cov.start()
        self.repo_files = {os.path.basename(m.__file__): m.__file__ for m in (auth_basic, auth_digest)}

        class Root(object):
            @cherrypy.expose
            def index(self, *a, **kw):
                probe['ran'] = True
                probe['login'] = cherrypy.request.login
                return 'ok'

            @cherrypy.expose
            def default(self, *a, **kw):
                probe['ran'] = True
                probe['login'] = cherrypy.request.login
                return 'ok'

        self.Root = Root

        def see_header():
            probe['hook'] = True
            probe['hdr'] = cherrypy.request.headers.get('authorization')

        def see_error():
            et = sys.exc_info()[0]
            probe['exc'] = et.__name__ if et is not None else None

        self.see_header = see_header
        self.see_error = see_error

    def clocked(self):
        world = self

        class _C:
            def __enter__(self):
                world._time.time = world.clock.time

            def __exit__(self, *a):
                world._time.time = world.real_time
                return False
        return _C()

    def close(self):
        self.cov.stop()
        self._time.time = self.real_time
        for m, k, v in self.rebound:
            setattr(m, k, v)
        if self.tmp is not None:
            self.tmp.cleanup()
            self.tmp = None

    def htdigest_file(self, cfg):
        import tempfile
        if self.tmp is None:
            self.tmp = tempfile.TemporaryDirectory(prefix='c19-')
        import hashlib
        name = hashlib.sha1(json.dumps(cfg, sort_keys=True).encode()).hexdigest()[:16]
        path = os.path.join(self.tmp.name, name + '.htdigest')
        with open(path, 'w') as f:           # same default encoding get_ha1_file_htdigest reads with
            for u, r, h in cfg['htlines']:
                f.write('%s:%s:%s\n' % (u, r, h))
        return path

    T0 = 1600000000

    def _write_store(self, path, cfg, mtime):
        with open(path, 'w') as f:
            for u, r, h in cfg['htlines']:
                f.write('%s:%s:%s\n' % (u, r, h))
        os.utime(path, (mtime, mtime))

    def store_change(self, pre, new_cfg):
        """the old configuration's htdigest file as it was (dated T0), one well-formed request that makes the server
        read it, then the file re-written with the new configuration's lines and dated as pre['mode'] says; requests
        for `new_cfg` go to the SAME application (same get_ha1 closure, same file)"""
        old = pre['cfg']
        app = self.app(old)
        path = self.htdigest_file(old)
        self._write_store(path, old, self.T0)
        w = pre['warm']
        self.call(old, w['header'], w['method'], w['body'].encode('latin-1'), w['now'])
        self._write_store(path, new_cfg, {'same_mtime': self.T0, 'older_mtime': self.T0 - 100,
                                          'newer_mtime': self.T0 + 100}[pre['mode']])
        self.apps[json.dumps(new_cfg, sort_keys=True)] = app

    def store_restore(self, pre):
        old = pre['cfg']
        self._write_store(self.htdigest_file(old), old, self.T0 + 1000)

    def app(self, cfg):
        key = json.dumps(cfg, sort_keys=True)
        a = self.apps.get(key)
        if a is not None:
            return a
        cherrypy = self.cherrypy
        Hook = cherrypy._cprequest.Hook
        c = {'hooks.before_handler.c19': Hook(self.see_header, priority=0),
             'hooks.before_error_response.c19': Hook(self.see_error, priority=0)}
        users = {u: p for u, p in cfg['users']}
        probe = self.probe
        if cfg['tool'] == 'basic':
            inner_cp = self.auth_basic.checkpassword_dict(users)

            def checkpassword(realm, username, password):
                # the real checkpassword_dict decides; the probe only records in which form the credentials arrive
                probe.setdefault('cp', []).append([realm, username, password])
                return inner_cp(realm, username, password)

            c.update({'tools.auth_basic.on': True, 'tools.auth_basic.realm': cfg['realm'],
                      'tools.auth_basic.checkpassword': checkpassword,
                      'tools.auth_basic.accept_charset': cfg['charset']})
            if cfg.get('debug'):
                c['tools.auth_basic.debug'] = True
        else:
            if cfg['store'] == 'plain':
                get_ha1 = self.auth_digest.get_ha1_dict_plain(users)
            elif cfg['store'] == 'htdigest':
                get_ha1 = self.auth_digest.get_ha1_file_htdigest(self.htdigest_file(cfg))
            else:
                get_ha1 = self.auth_digest.get_ha1_dict(
                    {u: cl.ha1_of(u, cfg['realm'], p) for u, p in cfg['users']})
            inner_ha1 = get_ha1

            def get_ha1(realm, username):
                probe.setdefault('ha1', []).append([realm, username])
                return inner_ha1(realm, username)

            c.update({'tools.auth_digest.on': True, 'tools.auth_digest.realm': cfg['realm'],
                      'tools.auth_digest.get_ha1': get_ha1, 'tools.auth_digest.key': cfg['key'],
                      'tools.auth_digest.accept_charset': cfg['charset']})
            if cfg.get('debug'):
                c['tools.auth_digest.debug'] = True
        a = cherrypy.Application(self.Root(), '', {'/': c})
        if len(self.apps) > 400:
            self.apps.clear()
        self.apps[key] = a
        return a

    def call(self, cfg, header, method='GET', body=b'', now=0.0, path='/'):
        """One request through the real WSGI stack.  `header` is the wire value as a latin-1 str, or None.
        Whatever the code under test does (raise anything anywhere, never call start_response, hang, hand back
        objects of another type) comes back as an observation; only the harness' own failures raise."""
        self.clock.now = now
        self.probe.clear()
        env = {'REQUEST_METHOD': method, 'PATH_INFO': path, 'SCRIPT_NAME': '', 'QUERY_STRING': '',
               'SERVER_NAME': 'c19', 'SERVER_PORT': '80', 'SERVER_PROTOCOL': 'HTTP/1.1', 'HTTP_HOST': 'c19',
               'wsgi.version': (1, 0), 'wsgi.url_scheme': 'http', 'wsgi.input': io.BytesIO(body),
               'wsgi.errors': io.StringIO(), 'wsgi.multithread': False, 'wsgi.multiprocess': False,
               'wsgi.run_once': False, 'REMOTE_ADDR': '127.0.0.1'}
        if body or method in ('POST', 'PUT'):
            env['CONTENT_LENGTH'] = str(len(body))
            env['CONTENT_TYPE'] = 'application/octet-stream'
        if header is not None:
            env['HTTP_AUTHORIZATION'] = header
        out = {}

        def start_response(status, headers, exc_info=None):
            out['status'] = status
            out['headers'] = headers

        app = self.app(cfg)
        raised = None
        try:
            with Watchdog(CALL_TIMEOUT), self.clocked():
                r = app(env, start_response)
                try:
                    for _ in r:
                        pass
                finally:
                    if hasattr(r, 'close'):
                        r.close()
        except Hang:
            raised = 'hang(>%ds)' % CALL_TIMEOUT
            self.hangs += 1
            self.apps.clear()           # whatever state the interrupted request left behind is not reused
        except (KeyboardInterrupt, common.HarnessError):
            raise
        except BaseException as e:      # noqa: the WSGI callable itself let something escape
            raised = type(e).__name__
        status = None
        try:
            status = int(str(out['status']).split(' ')[0])
        except (KeyError, ValueError, TypeError):
            pass
        chal = []
        try:
            chal = [v if isinstance(v, str) else repr(v) for k, v in out.get('headers') or []
                    if str(k).lower() == 'www-authenticate']
        except (TypeError, ValueError):
            chal = ['<unreadable header list>']
        login = self.probe.get('login')
        if login is not None and not isinstance(login, str):
            login = '<%s>%r' % (type(login).__name__, login)
        hdr = self.probe.get('hdr')
        if hdr is not None and not isinstance(hdr, str):
            hdr = '<%s>%r' % (type(hdr).__name__, hdr)

        def plain(rows):
            return [[x if isinstance(x, str) or x is None else '<%s>%r' % (type(x).__name__, x) for x in row]
                    for row in rows]
        return {'status': status, 'raised': raised, 'challenge': chal,
                'ran': bool(self.probe.get('ran')), 'login': login,
                'hook': bool(self.probe.get('hook')), 'hdr': hdr,
                'exc': self.probe.get('exc'), 'cp': plain(self.probe.get('cp') or []),
                'ha1': plain(self.probe.get('ha1') or [])}

    def issue(self, cfg, at):
        """Ask the real server for a challenge at logical time `at`; returns the nonce it hands out (or None)."""
        obs = self.call(cfg, None, now=at)
        if obs['status'] != 401 or len(obs['challenge']) != 1:
            return None
        text = cl.undo_rfc2047(obs['challenge'][0])
        ch = cl.parse_challenge(text)
        if ch is None or ch[0] != 'Digest':
            return None
        return ch[1].get('nonce')


def canon_chal(text):
    """a challenge as (scheme, sorted parameters) when it is a `name="value"` / `name=token` list (order and spacing
    of the parameters are not observable differences); the text itself otherwise"""
    p = cl.parse_challenge(text)
    if p is None:
        return text
    return [p[0], sorted(p[1].items())]


def canon_real(obs):
    if obs['status'] is None or obs.get('raised'):
        return ['no-response', obs.get('raised') or 'start_response never called']
    if obs['ran']:
        return ['grant', obs['login']] if obs['status'] == 200 else ['ran-but-%d' % obs['status'], obs['login']]
    if obs['status'] == 401:
        c = obs['challenge']
        return ['401', canon_chal(cl.undo_rfc2047(c[0])) if len(c) == 1 else repr(c)]
    if obs['status'] == 400:
        return ['400']
    if obs['status'] >= 500:
        return ['500', obs['exc'] or '?']
    return ['status-%d' % obs['status']]


# ----------------------------------------------------------------------------------------------
# oracle
# ----------------------------------------------------------------------------------------------
def oracle(case, obs):
    """Failures of the property statement on this observation: list of (what, signature)."""
    cfg = case['cfg']
    bad = []
    st = obs['status']
    kind = case['kind']
    mode = case.get('oracle', 'full')
    if st is None or obs.get('raised'):
        bad.append(('the request did not end in an HTTP response (%s): %r [%s]'
                    % (obs.get('raised') or 'start_response never called', case['header'], kind),
                    'no_response:%s:%s' % (cfg['tool'], obs.get('raised'))))
        return bad
    if mode != 'sound' and (st >= 500 or st not in (200, 400, 401)):
        sig = '5xx:%s:%s:%s' % (cfg['tool'], obs['exc'], kind)
        if cfg['tool'] == 'digest' and obs['exc'] == 'TypeError' and case.get('sent_qop') == 'auth-int':
            sig = 'F21:digest:qop=auth-int:TypeError:500'
        bad.append(('%s tool answered %d (%s) to %r [%s]' % (cfg['tool'], st, obs['exc'], case['header'], kind), sig))
        return bad
    if obs['ran'] and st != 200:
        bad.append(('handler ran but the status is %d' % st, 'ran_without_200:' + cfg['tool']))
    if st == 200 and not obs['ran']:
        bad.append(('200 although the probe handler did not run: %r' % (case['header'],), '200_without_handler:' + cfg['tool']))
        return bad
    now = int(case['now'])
    if mode == 'no5xx':
        # nonces only a holder of the server key can make: outside the statement, model comparison only
        return bad
    if cfg['tool'] == 'digest':
        vs = [cl.rfc2617_verify(c, case['method'], case['body'].encode('latin-1'), cfg,
                                case['genuine'], now) for c in (case['cands'] or [])]
        vs = [v for v in vs if v is not None]
        good = [v for v in vs if v['digest_ok'] and v['genuine'] and v['age'] < cl.LIFETIME]
        edge = [v for v in vs if v['digest_ok'] and v['genuine'] and v['age'] == cl.LIFETIME]
        prim = cl.rfc2617_verify(case['cands'][0], case['method'], case['body'].encode('latin-1'), cfg,
                                 case['genuine'], now) if case['cands'] else None
        for realm_arg, user_arg in obs.get('ha1', []):
            if realm_arg != cfg['realm']:
                bad.append(('the store was asked for realm %r, the configured realm is %r: %r [%s]'
                            % (realm_arg, cfg['realm'], case['header'], kind), 'store_lookup_realm:' + kind))
            elif case['wellformed'] is True and case['cands'] and \
                    user_arg not in [c.get('username') for c in case['cands']]:
                bad.append(('the store was asked for user %r, the header names %r (user names are compared as sent, '
                            'without any normalisation or folding): %r [%s]'
                            % (user_arg, case['cands'][0].get('username'), case['header'], kind),
                            'store_lookup_user:' + kind))
        if obs['ran']:
            if not any(v['user'] == obs['login'] for v in good + edge):
                bad.append(('handler ran with login=%r although the credentials do not verify: %r [%s]'
                            % (obs['login'], case['header'], kind), 'digest_unsound:' + kind))
            return bad
        if mode == 'sound':
            return bad
        must_admit = (case['conforming'] and case['wellformed'] is True and prim is not None
                      and prim['digest_ok'] and prim['genuine'] and prim['age'] < cl.LIFETIME)
        if must_admit:
            sig = 'digest_incomplete:%s:%s:%d' % (case.get('sent_alg'), case.get('sent_qop'), st)
            bad.append(('correct %s/%s credentials of %r rejected with %d: %r'
                        % (case.get('sent_alg'), case.get('sent_qop'), prim['user'], st, case['header']), sig))
        if st == 401:
            ch, why = cl.check_challenge('Digest', cfg, obs['challenge'])
            if ch is None:
                bad.append(('401 with a malformed challenge (%s): %r' % (why, obs['challenge']),
                            'bad_challenge:digest'))
            else:
                stale = ch.get('stale') is not None
                may = any(v['genuine'] and v['age'] >= cl.LIFETIME for v in vs)
                must = (case['conforming'] and case['wellformed'] is True and prim is not None and prim['digest_ok']
                        and prim['genuine'] and prim['age'] > cl.LIFETIME)
                if stale and not may:
                    bad.append(('stale="true" for a nonce that is not a genuine expired one: %r [%s]'
                                % (case['header'], kind), 'stale_wrong:' + kind))
                if not stale and must:
                    bad.append(('genuine expired nonce with a correct digest answered without stale="true": %r'
                                % case['header'], 'stale_missing'))
        elif st == 400 and case['wellformed'] is True:
            bad.append(('400 for a well-formed header (wrong credentials must be 401): %r [%s]'
                        % (case['header'], kind), 'digest_400_for_wellformed:' + kind))
        return bad
    # ---- basic
    logins = cl.basic_ok_logins(case['raws'], cfg)
    readings = cl.basic_readings(case['raws'])
    for realm_arg, user_arg, pw_arg in obs.get('cp', []):
        if realm_arg != cfg['realm']:
            bad.append(('checkpassword was called with realm %r, configured %r' % (realm_arg, cfg['realm']),
                        'basic_checkpassword_realm'))
        elif case['raws'] and (user_arg, pw_arg) not in readings:
            bad.append(('credentials sent as %r reached the password check as user=%r password=%r, which is not '
                        'the NFC form of any accepted decoding cut at the first colon (expected one of %r): %r [%s]'
                        % (case.get('sent'), user_arg, pw_arg, sorted(readings)[:3], case['header'], kind),
                        'basic_normal_form:' + kind.split(':')[0]))
    if obs['ran']:
        if obs['login'] not in logins:
            bad.append(('handler ran with login=%r although the credentials do not verify: %r [%s]'
                        % (obs['login'], case['header'], kind), 'basic_unsound:' + kind))
        return bad
    if mode == 'sound':
        # basic_auth refuses a realm with a double quote (ValueError on every request): only "nobody gets in without
        # verifying credentials" is demanded of a refused configuration; the model comparison pins the refusal
        return bad
    if case['conforming'] and case['wellformed'] is True and case.get('expect_login') is not None:
        bad.append(('correct credentials of %r rejected with %d: %r' % (case['expect_login'], st, case['header']),
                    'basic_incomplete:%d' % st))
    if st == 401:
        ch, why = cl.check_challenge('Basic', cfg, obs['challenge'])
        if ch is None:
            bad.append(('401 with a malformed challenge (%s): %r' % (why, obs['challenge']), 'bad_challenge:basic'))
    elif st == 400 and case['wellformed'] is True:
        bad.append(('400 for a well-formed header (wrong credentials must be 401): %r [%s]'
                    % (case['header'], kind), 'basic_400_for_wellformed:' + kind))
    return bad


# ----------------------------------------------------------------------------------------------
# running cases
# ----------------------------------------------------------------------------------------------
def run_one(world, case):
    if case.get('pre_store'):
        world.store_change(case['pre_store'], case['cfg'])
        try:
            return world.call(case['cfg'], case['header'], case['method'], case['body'].encode('latin-1'), case['now'],
                              case.get('path', '/'))
        finally:
            world.store_restore(case['pre_store'])
    obs = world.call(case['cfg'], case['header'], case['method'], case['body'].encode('latin-1'), case['now'],
                     case.get('path', '/'))
    return obs


def idx_first_of_cfg(case, cases, i):
    return i == 0 or cases[i - 1]['cfg'] is not case['cfg']


def check_cases(ctx, world, cases, compare=True):
    """Run cases on the real code, apply the oracle, compare with the model."""
    lines, idx = [], []
    results = []
    for i, case in enumerate(cases):
        if world.hangs >= MAX_HANGS:
            break
        obs = run_one(world, case)
        results.append(obs)
        cfg = case['cfg']
        ctx.case({'tool': cfg['tool'], 'kind': case['kind'], 'header': case['header'], 'method': case['method']},
                 nontrivial=case['header'] is not None,
                 key=json.dumps([cfg, case['method'], case['now'], case['header']], sort_keys=True))
        ctx.count('tool:' + cfg['tool'])
        ctx.count('kind:%s:%s' % (cfg['tool'], case['kind']))
        ctx.count('status:%s:%s%s' % (cfg['tool'], obs['status'], ':ran' if obs['ran'] else ''))
        ctx.count('charset:' + cfg['charset'])
        ctx.count('store:' + cfg.get('store', 'checkpassword_dict'))
        if cfg['tool'] == 'digest':
            ctx.count('digest:alg=%s:qop=%s' % (case.get('sent_alg'), case.get('sent_qop')))
            ctx.count('method:' + case['method'])
            if case.get('age') is not None:
                a = case['age']
                ctx.count('nonce_age:' + ('<0' if a < 0 else '0-598' if a < 599 else str(a) if a <= 601 else '>601'))
        if case['header'] is not None:
            ctx.count('text:' + cl.text_class(case['header']))
        sent = case.get('sent') if cfg['tool'] == 'basic' else \
            ((case.get('cands') or [{}])[0].get('username') if case.get('cands') else None)
        if sent:
            import unicodedata as _u
            if _u.normalize('NFC', sent) != _u.normalize('NFKC', sent):
                ctx.count('unicode:%s:sent NFC!=NFKC' % cfg['tool'])
            if _u.normalize('NFC', sent) != sent:
                ctx.count('unicode:%s:sent not NFC' % cfg['tool'])
            if sent.casefold() != sent.lower() or sent.strip() != sent:
                ctx.count('unicode:%s:sent casefold/strip-sensitive' % cfg['tool'])
        stored = ''.join(u + p for u, p in cfg['users'])
        if idx_first_of_cfg(case, cases, i):
            import unicodedata as _u
            if _u.normalize('NFC', stored) != _u.normalize('NFKC', stored):
                ctx.count('unicode:config stores NFC!=NFKC credentials')
            if _u.normalize('NFC', stored) != stored:
                ctx.count('unicode:config stores non-NFC credentials')
        for what, sig in oracle(case, obs):
            ctx.oracle_fail(case, what, sig)
        if cfg.get('debug'):
            ctx.count('debug:on')
        if cl.awkward_realm(cfg['realm']):
            ctx.count('realm:needs quoted-pair:%s' % cfg['tool'])
        if case['header'] is not None and '=?' in case['header']:
            ctx.count('rfc2047:header contains =?')
        if compare and not case.get('no_model') and obs['status'] is not None and not obs.get('raised'):
            # (1) Request.process_headers: what the tool is handed for this raw value
            ref = cl.process_header_ref(case['header'])
            if case['header'] is not None:
                dec = cl.decode_text_ref(case['header'].strip()) if '=?' in case['header'] else None
                lines.append('seen %s %s' % (T(case['header']), 'E' if dec is None else T(dec)))
                idx.append((i, 'seen'))
            # (2) the tool on that value
            if ref == ('400',):
                ctx.count('model:400 by process_headers')
                continue
            if obs['hook']:
                hdr = obs['hdr']
            else:
                hdr = ref[1]
                if obs['status'] >= 500:
                    ctx.count('skipped_model:failed_before_tool')
                    continue
            lines.append(model_line(case, hdr))
            idx.append((i, 'tool'))
    if compare and lines:
        out = ctx.model(lines)
        if out is not None:
            for (i, what), l in zip(idx, out):
                ctx.compared()
                if what == 'seen':
                    o = results[i]
                    if o['hook']:
                        real = 'ok ' + T(o['hdr']) if isinstance(o['hdr'], str) else 'none'
                    elif o['status'] == 400:
                        real = '400'
                    else:
                        ctx.count('skipped_seen:no hook, status %s' % o['status'])
                        continue
                    if real != l:
                        ctx.disagree(cases[i], ['header the tool reads', unT(real[3:]) if real.startswith('ok ') else real],
                                     ['header the tool reads', unT(l[3:]) if l.startswith('ok ') else l],
                                     'Request.process_headers hands the %s tool another Authorization value than '
                                     'strip() + RFC 2047 decoding iff "=?" (%s)' % (cases[i]['cfg']['tool'], cases[i]['kind']))
                    continue
                real, model = canon_real(results[i]), parse_model(l)
                if real != model:
                    ctx.disagree(cases[i], real, model, 'outcome of the %s tool differs (%s)'
                                 % (cases[i]['cfg']['tool'], cases[i]['kind']))
    return results


def check_prims(ctx):
    """Cross-check the driver's concrete primitives (MD5, base64, UTF-8, int, strip, case maps, urllib list
    parser transcription) against the running CPython."""
    lines, exp = cl.prim_cases(ctx.rng, ctx.budget(1500, 20000))
    out = ctx.model(lines)
    if out is None:
        return
    nbad = 0
    for l, e, o in zip(lines, exp, out):
        ok = e(o) if callable(e) else (e == o)
        if not ok:
            nbad += 1
            if nbad <= 3:
                ctx.note('primitive mismatch: %s -> model %r' % (l[:200], o[:200]))
    ctx.extra['primitive_crosschecks'] = len(lines)
    ctx.count('primitive_crosscheck_lines', len(lines))
    if nbad:
        raise common.HarnessError('%d driver primitives disagree with CPython (model transcription or CPython '
                                  'version changed); first: %s' % (nbad, ctx.notes[-1]))


def direct_api(ctx, world):
    """The anchored helpers called directly, outside the tool: `www_authenticate` with explicit algorithm / qop (the
    tool only ever uses the defaults, so its two `raise ValueError` lines are dead through the tool - theorem
    `wwwAuthenticate_defaults`) and the `HttpDigestAuthorization` constructor on headers `digest_auth` would not hand
    it (its own scheme test).  Compared with the model functions `wwwAuthenticate` / `parseAuth`."""
    ad = world.auth_digest
    rng = ctx.rng
    lines, real, cases = [], [], []
    for _ in range(ctx.budget(60, 600)):
        realm, key, cs = rng.choice(cl.REALMS), rng.choice(cl.KEYS), rng.choice(cl.CHARSETS)
        alg = rng.choice(['MD5', 'MD5', 'MD5-sess', 'md5', 'SHA-256', '', 'MD5-SESS', 'MD5 '])
        qop = rng.choice(['auth', 'auth', 'auth-int', 'AUTH', '', 'auth,auth-int', 'none', ' auth'])
        now = rng.choice([0, 599, 1234567890, 1700000000, 2 ** 31 + 5])
        stale = rng.random() < 0.5
        world.clock.now = now + rng.choice([0.0, 0.5, 0.999])
        try:
            with Watchdog(CALL_TIMEOUT), world.clocked():
                r = ad.www_authenticate(realm, key, algorithm=alg, qop=qop, stale=stale, accept_charset=cs)
            got = 'ok ' + T(r) if isinstance(r, str) else 'returned ' + type(r).__name__
        except ValueError:
            got = 'ValueError'
        except (KeyboardInterrupt, common.HarnessError):
            raise
        except BaseException as e:      # noqa
            got = 'raised ' + type(e).__name__
        lines.append('wwwauth %s %s %s %s %s %d %d' % (T(cs), T(realm), T(key), T(alg), T(qop), now, 1 if stale else 0))
        real.append(got)
        cases.append({'kind': 'direct:www_authenticate', 'realm': realm, 'key': key, 'charset': cs, 'algorithm': alg,
                      'qop': qop, 'now': now, 'stale': stale})
    hdrs = ['Basic QWxhZGRpbjpvcGVuIHNlc2FtZQ==', '', 'Digestx a="b"', 'digest', 'Digest', 'Bearer t', ' Digest a=b',
            'Digest a=', 'Digest a', 'digest username="u", realm="R", nonce="n", uri="/", response="r"',
            'DIGEST username="u", realm="R", nonce="n", uri="/", response="r", qop=auth',
            'Digest username="u", realm="R", nonce="n", uri="/", response="r", qop=auth, nc=1, cnonce="c", algorithm=MD5-sess',
            'Digest username="\xe9", realm="R", nonce="n", uri="/", response="r"',
            'Digest username="\u4e2d", realm="R", nonce="n", uri="/", response="r"']
    for h in hdrs:
        for cs in ('utf-8', 'iso-8859-1', 'ascii'):
            try:
                with Watchdog(CALL_TIMEOUT):
                    ad.HttpDigestAuthorization(h, 'GET', accept_charset=cs)
                got = 'ok'
            except (ValueError, IndexError) as e:
                got = 'IndexError' if isinstance(e, IndexError) else 'ValueError'
            except (KeyboardInterrupt, common.HarnessError):
                raise
            except BaseException as e:      # noqa
                got = 'raised ' + type(e).__name__
            lines.append('ctor %s %s %s' % (T(cs), CODEC[cs], T(h)))
            real.append(got)
            cases.append({'kind': 'direct:HttpDigestAuthorization', 'header': h, 'charset': cs})
    for c in cases:
        ctx.case(c, nontrivial=True)
        ctx.count('kind:' + c['kind'])
    out = ctx.model(lines)
    if out is None:
        return
    def canon(x):
        return ['ok', canon_chal(unT(x[3:]))] if x.startswith('ok ') else x
    for c, r, m in zip(cases, real, out):
        ctx.compared()
        if canon(r) != canon(m):
            ctx.disagree(c, r if not r.startswith('ok ') else ['ok', unT(r[3:])],
                         m if not m.startswith('ok ') else ['ok', unT(m[3:])],
                         '%s called directly differs from the model' % c['kind'].split(':')[1])


def corpus_cases():
    d = os.path.join(common.CORPUS, PROPERTY)
    out = []
    if os.path.isdir(d):
        for f in sorted(os.listdir(d)):
            if f.endswith('.json'):
                out.append(json.load(open(os.path.join(d, f))))
    return out


def _chunk(args):
    """Worker: generate and run `n` cases from its own seed; returns plain data for the parent to merge."""
    seed, n, compare = args
    import random
    rng = random.Random(seed)
    sub = common.Ctx(sys.modules[__name__], 'thorough', 0)
    sub.rng = rng
    sub.lean = _LEAN[0]
    world = World()
    try:
        done = 0
        while done < n and world.hangs < MAX_HANGS:
            cases = cl.gen_batch(rng, world)
            check_cases(sub, world, cases, compare=compare)
            done += len(cases)
            if rng.random() < 0.1:
                cases = cl.gen_store_change(rng, world)
                check_cases(sub, world, cases, compare=compare)
                done += len(cases)
    finally:
        world.close()
    cov_ex, cov_hit = world.cov.result()
    return {'cov_ex': cov_ex, 'cov_hit': cov_hit, 'repo_files': world.repo_files, 'evaluations': sub.evaluations, 'nontrivial': list(sub._nontrivial), 'hist': sub.hist,
            'fails': sub.oracle_failures[:50], 'known': sub.known_seen, 'dis': sub.disagreements[:50],
            'compared': sub.disagreements_checked, 'lines': sub.driver.lines if sub.driver else 0,
            'samples': sub.samples[:3]}


_LEAN = [None]


_COV = {'ex': set(), 'hit': set(), 'files': {}}


def _cov_add(ex, hit, files):
    _COV['ex'].update(tuple(x) for x in ex)
    _COV['hit'].update(tuple(x) for x in hit)
    _COV['files'].update(files)


def _merge(ctx, r):
    _cov_add(r['cov_ex'], r['cov_hit'], r['repo_files'])
    ctx.evaluations += r['evaluations']
    ctx._nontrivial.update(r['nontrivial'])
    for k, v in r['hist'].items():
        ctx.count(k, v)
    for case, what, sig in r['fails']:
        ctx.oracle_failures.append((case, what, sig))
    for k, v in r['known'].items():
        ctx.known_seen.setdefault(k, v)
    for d in r['dis']:
        ctx.disagreements.append(tuple(d))
    ctx.disagreements_checked += r['compared']
    if ctx.driver:
        ctx.driver.lines += r['lines']
    for s in r['samples']:
        if len(ctx.samples) < 12:
            ctx.samples.append(s)


def run(ctx):
    check_prims(ctx)
    try:
        world = World()
    except SetupFailed as e:
        ctx.oracle_fail({'kind': 'setup'}, 'the authentication tools cannot be enabled at all: cherrypy.lib.auth_basic / '
                        'auth_digest or cherrypy.tools.auth_* fail to import (%s)' % e, 'setup_failed')
        return
    try:
        for e in ctx.known:
            if e.get('witness'):
                check_cases(ctx, world, [e['witness']])
        check_cases(ctx, world, corpus_cases())
        direct_api(ctx, world)
        # the credential store re-written between requests (htdigest file; same / older / newer mtime)
        import random as _random
        srng = _random.Random(ctx.rng.getrandbits(48))
        for _ in range(6 if ctx.quick() else 40):
            check_cases(ctx, world, cl.gen_store_change(srng, world))
        if ctx.quick():
            n = 4000
            done = 0
            while done < n and world.hangs < MAX_HANGS:
                cases = cl.gen_batch(ctx.rng, world)
                check_cases(ctx, world, cases)
                done += len(cases)
            if world.hangs >= MAX_HANGS:
                ctx.note('stopped after %d requests that did not return within %d s' % (world.hangs, CALL_TIMEOUT))
    finally:
        world.close()
        if world.cov_on:
            _cov_add(*world.cov.result(), world.repo_files)
        else:
            ctx.note('sys.monitoring not available: anchored line coverage not measured')
    if not ctx.quick():
        _LEAN[0] = ctx.lean
        procs = min(16, os.cpu_count() or 4)
        total = 300000
        per = 2500
        args = [(ctx.rng.getrandbits(48), per, True) for _ in range(total // per)]
        for r in common.parallel_map(_chunk, args, procs=procs):
            _merge(ctx, r)
    if _COV['ex']:
        coverage_report(ctx, sorted(_COV['ex']), sorted(_COV['hit']), _COV['files'])


def search(ctx, around=None):
    """Deeper oracle-only hunt (no model comparison) for an input on which the property itself fails."""
    _LEAN[0] = ctx.lean
    procs = min(16, os.cpu_count() or 4)
    args = [(ctx.rng.getrandbits(48), 2500, False) for _ in range(16)]
    for r in common.parallel_map(_chunk, args, procs=procs):
        _merge(ctx, r)


def replay(ctx, case):
    world = World()
    try:
        obs = run_one(world, case)
        print('config :', json.dumps(case['cfg'], ensure_ascii=True))
        print('request: %s %s at clock %r, Authorization: %r  [%s]'
              % (case['method'], case.get('path', '/'), case['now'], case['header'], case['kind']))
        print('impl   :', json.dumps(canon_real(obs), ensure_ascii=True))
        ref = cl.process_header_ref(case['header'])
        print('tool reads: impl %r, reference %r' % (obs['hdr'] if obs['hook'] else None, ref))
        if ref != ('400',) and obs['status'] is not None:
            hdr = obs['hdr'] if obs['hook'] else ref[1]
            m = ctx.model([model_line(case, hdr)])
            if m:
                print('model  :', json.dumps(parse_model(m[0]), ensure_ascii=True))
        check_cases(ctx, world, [case])
    finally:
        world.close()
