"""C12, round 2: unit-level drives of the code BEFORE / AROUND the emission step, each compared with the
Lean model on every generated case (CpModel/HeaderNorm.lean, the additive part of CpModel/Escape.lean):

  title     CaseInsensitiveDict.transform_key (str.title) - header-name normalisation
  strip     str.strip
  vstatus   httputil.valid_status for a str status
  statusraw Response.finalize: the status line for the status as the application SET it
  cdisp     static._make_content_disposition (urllib.parse.quote inside)
  cquote    http.cookies value quoting (SimpleCookie.value_encode) and the reader of the quoted form
  morsel    Morsel.output() with attributes
  dec2047   httputil.decode_TEXT_maybe for one RFC 2047 encoded word (b / q, utf-8 / iso-8859-1)
  errtpl    get_error_page with a custom error_page template file
  logf      LogManager.access with a custom access_log_format (atoms o, i, z included)

The oracle clauses evaluated here are the statement's (no control octet in what is emitted for the text, one
log line of printable ASCII, markup only from the template); everything else is correspondence.
"""
import unicodedata

from . import common

KINDS = ['title', 'strip', 'vstatus', 'statusraw', 'cdisp', 'cquote', 'morsel', 'dec2047', 'errtpl', 'logf',
         'errpage_obj', 'redir_obj', 'finalize_obj', 'log_obj']

CASE_BOUND = 0x370


def run_unit_more(M, kind, p, aux):
    """M: the c12 module (helpers, oracle).  Returns (model queue, oracle failures) like c12.run_unit."""
    U = M._unit_env()
    cherrypy, httputil = U['cherrypy'], U['httputil']
    T, H = M.T, M.H
    q, bad = [], []
    if kind == 'title':
        out = httputil.CaseInsensitiveDict.transform_key(p)
        if M.has_surrogate(p):
            return q, bad
        # statement: the NAME as emitted has no control octet (whatever normalisation did to it)
        try:
            em = httputil.HeaderMap().encode_header_item(out)
        except (ValueError, UnicodeEncodeError):
            em = b''
        if M.ctl_in(em):
            bad.append(('header name %r is emitted as %r with control octets' % (p, em), 'header_map_name_control_octet'))
        q.append(('title %s' % T(p), 'ok ' + T(out) if all(ord(c) < CASE_BOUND for c in p) else 'unmodelled',
                  'str.title() of a header name'))
    elif kind == 'strip':
        q.append(('strip %s' % T(p), T(p.strip()), 'str.strip()'))
    elif kind in ('vstatus', 'statusraw'):
        st = p if aux is None else '%s %s' % (aux, p)
        if kind == 'vstatus':
            try:
                code, reason, _ = httputil.valid_status(st)
                exp = 'ok %d %s' % (code, T(reason))
            except ValueError:
                exp = 'bad'
            q.append(('vstatus %s' % T(st), exp, 'valid_status', 'unmodelled'))
        else:
            req, resp = M._fresh_serving()
            resp.status = st
            resp.body = b''
            try:
                resp.finalize()
                out = resp.output_status
                if M.ctl_in(out):
                    bad.append(('status line %r for status %r contains control octets' % (out, st),
                                'status_line_control_octet'))
                exp = 'ok ' + H(out)
            except cherrypy.HTTPError:
                exp = 'err:badStatus'
            except (ValueError, UnicodeEncodeError):
                return q, bad
            q.append(('statusraw %s' % T(st), exp, 'finalize status line from the status as set', 'unmodelled'))
    elif kind == 'cdisp':
        from cherrypy.lib import static
        disp = aux or 'attachment'
        try:
            out = static._make_content_disposition(disp, p)
        except UnicodeEncodeError:
            if M.has_surrogate(p):
                return q, bad
            raise
        em = httputil.HeaderMap().encode_header_item(out)
        if M.ctl_in(em):
            bad.append(('Content-Disposition %r for file name %r contains control octets' % (em, p),
                        'header_map_value_control_octet'))
        if any(ord(c) > 255 for c in out) and M.decode_2047(em) != out:
            bad.append(('Content-Disposition %r is not an RFC 2047 word decoding to %r' % (em, out), 'rfc2047_roundtrip'))
        ascii_name = unicodedata.normalize('NFKC', p).encode('ascii', errors='ignore').decode()
        q.append(('cdisp %s %s %s' % (T(disp), T(ascii_name), T(p)), T(out), '_make_content_disposition'))
    elif kind == 'cquote':
        from http import cookies
        out = cookies.SimpleCookie().value_encode(p)[1]
        q.append(('cquote %s' % T(p), T(out), 'http.cookies value quoting'))
        q.append(('cunq %s' % T(out), T(cookies._unquote(out)), 'reader of the quoted cookie value'))
    elif kind == 'morsel':
        from http import cookies
        c = cookies.SimpleCookie()
        c['k'] = p
        m = c['k']
        for a, av in (aux or {}).items():
            m[a] = av
        out = m.output()
        # statement: emitted through encode_header_item, name and value, one tuple
        name, _, value = out.partition(': ')
        for part in (name, value):
            try:
                em = httputil.HeaderMap().encode_header_item(part)
            except (ValueError, UnicodeEncodeError):
                continue
            if M.ctl_in(em):
                bad.append(('cookie line part %r is emitted with control octets' % em, 'cookie_line_value_control_octet'))
        items = sorted(m.items())
        if not M.modelable(*[str(v) for _, v in items]):
            return q, bad
        q.append(('morsel %s %s %s' % (T(m.key), T(m.coded_value), ' '.join('%s=%s' % (k, T(str(v))) for k, v in items)),
                  T(out), 'Morsel.output()'))
    elif kind == 'dec2047':
        via = aux or 'b'
        if M.has_surrogate(p) or (via == 'ql' and any(ord(c) > 255 for c in p)):
            return q, bad
        word = M.enc_req(p, via)
        try:
            exp = 'ok ' + T(httputil.decode_TEXT_maybe(word))
        except (LookupError, ValueError) as e:
            exp = 'undecodable'
        except Exception as e:
            import email.errors
            if isinstance(e, email.errors.MessageError):
                exp = 'undecodable'
            else:
                raise
        q.append(('dec2047 %s' % T(word), exp, 'decode_TEXT_maybe of one encoded word', 'unmodelled'))
    elif kind == 'errtpl':
        from cherrypy import _cperror
        from . import c12_tables
        req, resp = M._fresh_serving()
        A = M._get_app()
        which = aux or 'tpl_default'
        tpl = M.CUSTOM_TEMPLATE_DEFAULT if which == 'tpl_default' else M.CUSTOM_TEMPLATE_404
        req.error_page = {'default': A['state']['files'][which]}
        fields = {'message': p, 'traceback': p[::-1], 'version': 'V' + p[:3]}
        try:
            body = _cperror.get_error_page(404, **fields)
        except UnicodeEncodeError:
            if M.has_surrogate(p):
                return q, bad
            raise
        code, reason, defmsg = httputil.valid_status(404)
        st = '%s %s' % (code, reason)
        q.append(('errtpl %s %s %s %s %s' % (M.PIECES(c12_tables._pieces_percent(tpl)), T(st), T(p or defmsg), T(p[::-1]),
                                             T(fields['version'])),
                  'ok ' + H(body), 'get_error_page bytes with a custom template'))
    elif kind == 'logf':
        from . import c12_tables
        req, resp = M._fresh_serving()
        lm, cap = U['lm'], U['cap']
        del cap.records[:]
        fmt, which = aux or ('{h} "{o}" {i} {z} "{r}"', 'o')
        atoms = {'h': '127.0.0.1', 'l': '-', 'u': '-', 't': '[T]', 'r': 'GET / HTTP/1.1', 's': '200', 'b': '5',
                 'f': '', 'a': '', 'o': '-', 'z': '[Z]'}
        atoms[which] = p if (p or which in 'fa') else atoms[which]
        req.request_line = atoms['r']
        req.remote = httputil.Host('127.0.0.1', 1111, atoms['h'])
        req.login = None if atoms['u'] == '-' else atoms['u']
        for k, hn in (('f', 'Referer'), ('a', 'User-Agent')):
            if atoms[k]:
                dict.__setitem__(req.headers, hn, atoms[k])
        if atoms['o'] != '-':
            dict.__setitem__(req.headers, 'Host', atoms['o'])
        resp.output_status = b'200 OK'
        dict.__setitem__(resp.headers, 'Content-Length', '5')
        lm.access_log_format = fmt
        try:
            lm.access()
        finally:
            lm.__dict__.pop('access_log_format', None)
        atoms['i'] = str(req.unique_id)
        lines = list(cap.records)
        bad += M.oracle_log(lines, atoms, fmt.count('"'))
        if not lines:
            # a field the atoms do not have: format() fails, access() reports on the error log, no entry
            q.append(('loglinef %s ' % M.PIECES(c12_tables._pieces_format(fmt))
                      + ' '.join('%s=%s' % (k, T(atoms[k])) for k in 'hlutrsbfaoiz'), 'none',
                      'access-log line (custom format with an unknown field)'))
        if lines:
            q.append(('loglinef %s ' % M.PIECES(c12_tables._pieces_format(fmt))
                      + ' '.join('%s=%s' % (k, T(atoms[k])) for k in 'hlutrsbfaoiz'),
                      'ok ' + T(lines[0]), 'access-log line (custom format)'))
    elif kind == 'errpage_obj':
        # get_error_page handed NON-str values whose str() is the text (exception instance, object with __str__,
        # UserString, str subclass).  Refusing them (an exception) emits nothing; a page that IS rendered must show
        # the text escaped like any other.
        from cherrypy import _cperror
        req, resp = M._fresh_serving()
        okind, field = aux or ('exc', 'message')
        texts = {'message': p, 'traceback': p[::-1], 'version': 'V' + p[:3]}
        fields = dict(texts)
        fields[field] = M.wrap_obj(texts[field], okind)
        try:
            body = _cperror.get_error_page(404, **fields)
        except Exception:
            return q, bad
        code, reason, defmsg = httputil.valid_status(404)
        st = '%s %s' % (code, reason)
        bad += M.oracle_error_page(body, st, p or defmsg, p[::-1])
        q.append(('errpage %s %s %s %s' % (T(st), T(p or defmsg), T(p[::-1]), T(texts['version'])),
                  'ok ' + H(body), 'get_error_page bytes (non-str %s)' % field))
    elif kind == 'redir_obj':
        req, resp = M._fresh_serving()
        okind = aux or 'ustr'
        exc = cherrypy.HTTPRedirect.__new__(cherrypy.HTTPRedirect)
        urls = [p, 'http://h/?' + p]
        exc.urls = [M.wrap_obj(u, okind) for u in urls]
        exc.args = (exc.urls, 303)
        try:
            exc.set_response()
            body = resp.collapse_body()
            loc = resp.headers['Location']
            out = httputil.HeaderMap().encode_header_item(loc if isinstance(loc, (str, bytes)) else str(loc))
        except Exception:
            return q, bad
        bad += M.oracle_redirect_page(body, urls)
        if M.ctl_in(out):
            bad.append(('Location %r contains control octets' % out, 'header_map_value_control_octet'))
        q.append(('redir %d %s %s' % (303, T(urls[0]), T(urls[1])), 'ok ' + H(body), 'redirect body bytes (non-str urls)'))
    elif kind == 'finalize_obj':
        req, resp = M._fresh_serving()
        okind = aux or 'obj'
        resp.headers['X-Probe'] = M.wrap_obj(p, okind)
        resp.cookie['k'] = M.wrap_obj(p, okind)
        resp.cookie['k']['path'] = M.wrap_obj(p, okind)
        resp.body = b''
        try:
            resp.finalize()
            morsels = [m.output() for _, m in sorted(resp.cookie.items())]
        except Exception:
            return q, bad
        items = [(k, v if isinstance(v, bytes) else str(v)) for k, v in resp.headers.items()]
        hl = list(resp.header_list)
        src_texts = [x for kv in items for x in kv] + [m.split(': ', 1)[1] for m in morsels]
        bad += M.oracle_headers(resp.output_status, hl, None, src_texts, len(items) + len(morsels))
        for i, (k, v) in enumerate(items):
            if isinstance(v, str):
                q.append(('hdr %s %s' % (T(k), T(v)), 'ok %s %s' % (H(hl[i][0]), H(hl[i][1])) if i < len(hl) else 'missing',
                          'finalize header tuple (non-str value)'))
        for j, m in enumerate(morsels):
            i = len(items) + j
            q.append(('cookie %s' % T(m), 'ok %s %s' % (H(hl[i][0]), H(hl[i][1])) if i < len(hl) else 'missing',
                      'finalize cookie tuple (non-str value)'))
    elif kind == 'log_obj':
        req, resp = M._fresh_serving()
        lm, cap = U['lm'], U['cap']
        del cap.records[:]
        okind, which = aux or ('obj', 'u')
        atoms = {'h': '127.0.0.1', 'l': '-', 'u': '-', 't': '[T]', 'r': 'GET / HTTP/1.1', 's': '200', 'b': '5',
                 'f': '', 'a': '', 'o': '-'}
        if p:
            atoms[which] = p
        wv = M.wrap_obj(atoms[which], okind)
        req.request_line = wv if which == 'r' else atoms['r']
        req.remote = httputil.Host('127.0.0.1', 1111, wv if which == 'h' else atoms['h'])
        req.login = (wv if which == 'u' else None) if atoms['u'] != '-' else None
        if which == 'f' and p:
            dict.__setitem__(req.headers, 'Referer', wv)
        resp.output_status = b'200 OK'
        dict.__setitem__(resp.headers, 'Content-Length', wv if which == 'b' else '5')
        try:
            lm.access()
        except Exception:
            return q, bad
        lines = list(cap.records)
        bad += M.oracle_log(lines, atoms)
        if lines:
            q.append(('logline ' + ' '.join('%s=%s' % (k, T(atoms[k])) for k in 'hlutrsbfao'),
                      'ok ' + T(lines[0]), 'access-log line (non-str atom)'))
    else:
        raise common.HarnessError('unknown unit kind %r' % kind)
    return q, bad


MORSEL_ATTRS = ['path', 'domain', 'comment', 'expires', 'max-age', 'version', 'samesite']
LOGF = ['{h} "{o}" {i} {z} "{r}"', '"{o}"', '{o}|{a}|"{f}"', '{h} {l} {u} {t} "{r}" {s} {b} "{f}" "{a}" {o}',
        '{{{o}}} "{u}"', '{o} {q}']


def gen_aux(M, rng, kind):
    if kind in ('vstatus', 'statusraw'):
        return rng.choice([None, None, '200', '404', '599', '99', '600', '0200', 'abc', '20x', '', '2 00', '\t200', '+200'])
    if kind == 'cdisp':
        return rng.choice(['attachment', 'inline', 'attachment'])
    if kind == 'morsel':
        aux = {}
        for a in rng.sample(MORSEL_ATTRS, rng.choice([0, 1, 1, 2, 3])):
            aux[a] = M.gen_payload(rng, 2) if rng.random() < 0.6 else rng.choice(M.WORDS)
        if rng.random() < 0.3:
            aux[rng.choice(['secure', 'httponly'])] = True
        if rng.random() < 0.2:
            aux['max-age'] = rng.choice([0, 60, 3600])
        return aux
    if kind == 'dec2047':
        return rng.choice(['b', 'q', 'ql', 'b', 'q'])
    if kind == 'errtpl':
        return rng.choice(['tpl_default', 'tpl_404'])
    if kind == 'logf':
        return (rng.choice(LOGF), rng.choice('oooouhrfa'))
    if kind == 'errpage_obj':
        return (rng.choice(M.OBJ_KINDS), rng.choice(['message', 'message', 'traceback', 'version']))
    if kind in ('redir_obj', 'finalize_obj'):
        return rng.choice(M.OBJ_KINDS)
    if kind == 'log_obj':
        return (rng.choice(M.OBJ_KINDS), rng.choice('uuhrfb'))
    return None


def systematic(M):
    """Small scope for every tier: each octet 0..255 alone and embedded through the new units."""
    out = []
    for i in range(256):
        c = chr(i)
        for p in (c, 'a' + c + 'b'):
            out.append(('title', p, None))
            out.append(('cquote', p, None))
            out.append(('dec2047', p, 'q'))
            out.append(('logf', p, ('"{o}" {i}', 'o')))
        out.append(('vstatus', c + 'x' + c, '200'))
        out.append(('strip', c + 'x ' + c, None))
        out.append(('cdisp', 'a' + c, 'attachment'))
        out.append(('morsel', c, {'path': '/' + c, 'comment': c}))
        out.append(('dec2047', 'x' + c, 'ql'))
        out.append(('dec2047', c, 'b'))
    # every modelled cased code point through title, alone, after a letter and before one
    for i in range(128, CASE_BOUND):
        c = chr(i)
        out.append(('title', c, None))
        out.append(('title', 'a' + c + 'a', None))
        out.append(('title', c + 'b-' + c, None))
    for s in M.SPECIALS:
        for kind in KINDS:
            if not kind.endswith('_obj'):
                out.append((kind, s, {'vstatus': '200', 'statusraw': '200'}.get(kind)))
    # every value sink with every kind of non-str object, over the markup / control / quote specials
    probes = ['<', '>', '&', '&lt;', '"', "'", '\\', '\r\n', '\n', '\x00', '\x7f', '\u8200', '<script>alert(1)</script>',
              '</p>', '&amp;', 'a"\\', '\r\nX-Evil: 1']
    for pr in probes:
        for ok in M.OBJ_KINDS:
            for field in ('message', 'traceback', 'version'):
                out.append(('errpage_obj', pr, (ok, field)))
            out.append(('redir_obj', pr, ok))
            out.append(('finalize_obj', pr, ok))
            for which in 'uhrfb':
                out.append(('log_obj', pr, (ok, which)))
    return out
