"""C08 - config namespaces: `reprconf.NamespaceSet.__call__` with generated handler sets (plain callables and
context managers, raising / swallowing), and the handlers CherryPy registers (`request.`, `response.`,
`hooks.`, `error_page.`, `server.`, `engine.`, `log.`, `checker.`) called with recording stand-ins for the
objects they act on.  Model: lean/CpModel/ConfigNs.lean, theorems: lean/CpProofs/C08Ns.lean.
"""
import json

from . import common
from . import c02_tree as T

HOOK_JOURNAL = []
HOOK_PATH = 'harness.c08_ns.probe_hook'


def probe_hook():
    """The bare hook `hooks.on_start_resource.c08 = 'harness.c08_ns.probe_hook'` attaches."""
    HOOK_JOURNAL.append('ran')


class ProbeError(Exception):
    pass


# ----------------------------------------------------------------------------------------------
# NamespaceSet.__call__
# ----------------------------------------------------------------------------------------------
NS_NAMES = ['tools', 'request', 'a', 'b', 'ab', 'a.b', '', 'X', 'x']
ENTRY_NAMES = ['k', 'on', 'p.on', 'p.q.r', '', 'K', 'headers.X-Y', '.', 'body.a']
VALUES = [None, True, False, 0, 1, 7, '', 'v', 'two words']


def gen_ns_case(rng):
    names = rng.sample(NS_NAMES, rng.choice([1, 2, 2, 3, 4]))
    handlers = []
    for n in names:
        kind = rng.choice(['P', 'P', 'C0', 'C1'])
        raises = [e for e in ENTRY_NAMES if e and rng.random() < 0.12]
        handlers.append([n, kind, raises])
    conf = {}
    for _ in range(rng.choice([0, 1, 3, 5, 8])):
        r = rng.random()
        ns = rng.choice(names) if rng.random() < 0.7 else rng.choice(NS_NAMES)
        if r < 0.75:
            key = ns + '.' + rng.choice(ENTRY_NAMES)
        elif r < 0.85:
            key = rng.choice(['plain', 'on', 'tools', 'a'])
        else:
            key = rng.choice(['.lead', 'a.', '..', 'a..b', 'tools.p.on'])
        conf[key] = rng.choice(VALUES)
    return {'ns': {'handlers': handlers, 'conf': conf}}


def run_ns_real(case):
    from cherrypy.lib import reprconf
    spec = case['ns']
    journal = []
    nsset = reprconf.NamespaceSet()

    def mk_plain(ns, raises):
        def handler(k, v):
            journal.append(['c', ns, k, v])
            if k in raises:
                raise ProbeError(ns + ':' + k)
        return handler

    class Ctx(object):
        def __init__(self, ns, raises, swallow):
            self.ns, self.raises, self.swallow = ns, raises, swallow

        def __enter__(self):
            journal.append(['e', self.ns])
            return mk_plain(self.ns, self.raises)

        def __exit__(self, t, v, tb):
            journal.append(['x', self.ns, t is not None])
            return self.swallow
    for n, kind, raises in spec['handlers']:
        nsset[n] = mk_plain(n, raises) if kind == 'P' else Ctx(n, raises, kind == 'C1')
    try:
        nsset(dict(spec['conf']))
        prop = False
    except ProbeError:
        prop = True
    except Exception as e:
        prop = 'other:' + type(e).__name__
    return journal, prop


def ref_ns_trace(spec):
    """The documented contract: every entry `<ns>.<name>` goes, as (name, value), to the handler registered
    for `<ns>` and to no other; handlers are served in registration order; a context-manager handler is
    entered before and exited after its entries (exactly once, told about an exception); an exception
    leaves the call unless the context manager swallows it."""
    conf = spec['conf']
    trace = []
    for n, kind, raises in spec['handlers']:
        mine = [(k[len(n) + 1:], v) for k, v in conf.items() if '.' in k and k.split('.', 1)[0] == n]
        if kind != 'P':
            trace.append(['e', n])
        raised = False
        for k, v in mine:
            trace.append(['c', n, k, v])
            if k in raises:
                raised = True
                break
        if kind != 'P':
            trace.append(['x', n, raised])
        if raised and kind != 'C1':
            return trace, True
    return trace, False


def enc_handlers(hs):
    if not hs:
        return '-'
    return ';'.join('%s:%s:%s' % (T.enc_text(n), kind, '+'.join(T.enc_text(r) for r in raises) or '-') for n, kind, raises in hs)


def enc_events(ev):
    out = []
    for e in ev:
        if e[0] == 'e':
            out.append('e:' + T.enc_text(e[1]))
        elif e[0] == 'c':
            out.append('c:%s:%s:%s' % (T.enc_text(e[1]), T.enc_text(e[2]), T.enc_val(e[3])))
        else:
            out.append('x:%s:%d' % (T.enc_text(e[1]), 1 if e[2] else 0))
    return ','.join(out) or '-'


def check_ns_cases(ctx, cases, compare_model=True):
    lines, meta = [], []
    for case in cases:
        spec = case['ns']
        routed = sum(1 for k in spec['conf'] if '.' in k and k.split('.', 1)[0] in [h[0] for h in spec['handlers']])
        ctx.case(case, nontrivial=routed > 0, key='ns:' + json.dumps(spec, sort_keys=True))
        ctx.count('ns:handlers:%d' % len(spec['handlers']))
        ctx.count('ns:routed:%d' % min(routed, 4))
        got, prop = run_ns_real(case)
        want, wprop = ref_ns_trace(spec)
        ctx.count('ns:propagates' if prop else 'ns:returns')
        if got != want or prop != wprop:
            ctx.oracle_fail(case, 'NamespaceSet.__call__ trace %s (exception leaves: %s), the namespace contract gives %s (%s)'
                            % (got, prop, want, wprop), 'namespace_routing')
        lines.append('ns %s %s' % (enc_handlers(spec['handlers']), T.enc_conf(spec['conf']) if spec['conf'] else 'E'))
        meta.append((case, got, prop))
    if not compare_model:
        return
    out = ctx.model(lines)
    if out is None:
        return
    for (case, got, prop), mline in zip(meta, out):
        ctx.compared()
        mine = 'EV=%s P=%d' % (enc_events(got), 1 if prop is True else 0)
        if mline != mine:
            ctx.disagree(case, mine, mline, 'NamespaceSet.__call__ trace differs')


# ----------------------------------------------------------------------------------------------
# the registered handlers, called with recording stand-ins
# ----------------------------------------------------------------------------------------------
class Rec(object):
    def __init__(self, target, journal, **attrs):
        object.__setattr__(self, '_target', target)
        object.__setattr__(self, '_journal', journal)
        for k, v in attrs.items():
            object.__setattr__(self, k, v)

    def __setattr__(self, k, v):
        self._journal.append(('A', self._target, k, v))


class RecDict(dict):
    def __init__(self, target, journal):
        dict.__init__(self)
        self._target, self._journal = target, journal

    def __setitem__(self, k, v):
        self._journal.append(('I', self._target, k, v))
        dict.__setitem__(self, k, v)


class RecList(list):
    def __init__(self, point, journal):
        list.__init__(self)
        self._point, self._journal = point, journal

    def append(self, x):
        self._journal.append(('H', self._point))
        list.append(self, x)


class SubRec(Rec):
    """stand-in with subscribe / unsubscribe (a plugin, a server)"""

    def subscribe(self):
        self._journal.append(('S', self._target, True))

    def unsubscribe(self):
        self._journal.append(('S', self._target, False))


PLUGINS = [['autoreload', True], ['thread_manager', True], ['plain', False]]
KNOWN_SERVERS = ['alt']

EFF_KEYS = {
    'request': ['c08attr', 'body.maxbytes', 'body.', 'body', 'bodyx', 'show_tracebacks', 'body.a.b', 'a.b', ''],
    'response': ['headers.X-C08', 'headers.X.Y', 'headers.', 'headers', 'headersX', 'stream', 'timeout', 'a.b'],
    'hooks': ['before_handler', 'before_handler.1', 'on_start_resource.c08', 'before_finalize.a.b', 'nosuch_point',
              'nosuch.1', 'on_end_request', ''],
    'error_page': ['default', '404', '500', '007', 'abc', 'not.found', 'x'],
    'server': ['socket_port', 'alt.socket_port', 'alt.on', 'new.on', 'new.socket_host', 'alt.a.b', 'on', 'fresh.on', 'fresh.x'],
    'engine': ['SIGHUP', 'SIGTERM', 'autoreload.on', 'autoreload.frequency', 'thread_manager.on', 'plain.on', 'plain.x',
               'nosuch.on', 'timeout', 'autoreload.a.b'],
    'log': ['screen', 'error_file', 'a.b'],
    'checker': ['on', 'check_x', 'a.b'],
}


def gen_eff_case(rng):
    which = rng.choice(sorted(EFF_KEYS))
    return {'nseff': {'which': which, 'key': rng.choice(EFF_KEYS[which]), 'val': rng.choice(VALUES)}}


def run_eff_real(spec):
    """One `handler(key, value)` call of the registered handler; returns the list of recorded effects or 'R'."""
    import cherrypy
    from cherrypy import _cprequest, _cpconfig, _cpserver
    which, key, val = spec['which'], spec['key'], spec['val']
    journal = []
    serving = cherrypy.serving
    saved = {'request': serving.request, 'response': serving.response}
    saved_mod = {n: getattr(cherrypy, n, None) for n in ('server', 'servers', 'engine', 'log', 'checker')}
    had_servers = hasattr(cherrypy, 'servers')
    saved_server_cls = _cpserver.Server
    servers = {}
    try:
        req = Rec('request', journal, body=Rec('request.body', journal),
                  hooks=dict((p, RecList(p, journal)) for p in _cprequest.hookpoints),
                  error_page=RecDict('request.error_page', journal))
        resp = Rec('response', journal, headers=RecDict('response.headers', journal))
        serving.request, serving.response = req, resp
        if which == 'request':
            _cprequest.request_namespace(key, val)
        elif which == 'response':
            _cprequest.response_namespace(key, val)
        elif which == 'hooks':
            _cprequest.hooks_namespace(key, probe_hook)
        elif which == 'error_page':
            _cprequest.error_page_namespace(key, val)
        elif which == 'server':
            made = []

            class FakeServer(SubRec):
                def __init__(self):
                    SubRec.__init__(self, made, journal)
                    made.append(self)
            for n in KNOWN_SERVERS:
                servers[n] = SubRec('servers:' + n, journal)
            cherrypy.server = Rec('server', journal)
            if key.startswith('fresh.'):
                if hasattr(cherrypy, 'servers'):
                    del cherrypy.servers             # the handler creates the registry when it is not there yet
            else:
                cherrypy.servers = servers
            _cpserver.Server = FakeServer
            _cpconfig._server_namespace_handler(key, val)
            servers = getattr(cherrypy, 'servers', servers)
            names = dict((id(s), n) for n, s in servers.items())
            journal[:] = [(e[0], 'servers:' + names.get(id(e[1][0]), '?')) + tuple(e[2:]) if isinstance(e[1], list) else e
                          for e in journal]
        elif which == 'engine':
            class FakeEngine(Rec):
                def subscribe(self, channel, callback):
                    journal.append(('S', 'engine:' + channel, True))
            plug = dict((n, (SubRec if sub else Rec)('engine.' + n, journal)) for n, sub in PLUGINS)
            cherrypy.engine = FakeEngine('engine', journal, **plug)
            _cpconfig._engine_namespace_handler(key, val)
        elif which in ('log', 'checker'):
            setattr(cherrypy, which, Rec(which, journal))
            cherrypy.config.namespaces[which](key, val)
        result = journal
    except Exception:
        result = 'R'
    finally:
        serving.request, serving.response = saved['request'], saved['response']
        for n, v in saved_mod.items():
            if n == 'servers' and not had_servers:
                if hasattr(cherrypy, 'servers'):
                    del cherrypy.servers
            else:
                setattr(cherrypy, n, v)
        _cpserver.Server = saved_server_cls
    return result


def enc_effect(e):
    if e[0] == 'A':
        return 'A:%s:%s:%s' % (T.enc_text(e[1]), T.enc_text(e[2]), T.enc_val(e[3]))
    if e[0] == 'I' and e[1] == 'request.error_page':
        return 'E:%s:%s' % ('D' if e[2] == 'default' else e[2], T.enc_val(e[3]))
    if e[0] == 'I':
        return 'I:%s:%s:%s' % (T.enc_text(e[1]), T.enc_text(e[2]), T.enc_val(e[3]))
    if e[0] == 'H':
        return 'H:' + T.enc_text(e[1])
    if e[0] == 'S':
        return 'S:%s:%d' % (T.enc_text(e[1]), 1 if e[2] else 0)
    return '?'


def ref_effect(spec):
    """What the namespace documentation promises for one entry (None = no promise made here)."""
    which, key, val = spec['which'], spec['key'], spec['val']
    if which == 'request':
        if key.startswith('body.'):
            return [('A', 'request.body', key[5:], val)]
        return [('A', 'request', key, val)]
    if which == 'response':
        if key.startswith('headers.'):
            return [('I', 'response.headers', key[len('headers.'):], val)]
        return [('A', 'response', key, val)]
    if which in ('log', 'checker'):
        return [('A', which, key, val)]
    if which == 'hooks':
        import cherrypy
        point = key.split('.')[0]
        return [('H', point)] if point in cherrypy._cprequest.hookpoints else 'R'
    if which == 'error_page':
        if key == 'default':
            return [('I', 'request.error_page', 'default', val)]
        if key.isdigit() and key.isascii():
            return [('I', 'request.error_page', int(key), val)]
        return None
    return None


def check_attributes(ctx):
    """`reprconf.attributes('pkg.mod.name')`: what a dotted string in `hooks.*` stands for."""
    from cherrypy.lib import reprconf
    case = {'nseff': {'which': 'hooks', 'key': 'attributes', 'val': HOOK_PATH}}
    ctx.case(case, nontrivial=True, key='attributes')
    try:
        ok = reprconf.attributes(HOOK_PATH) is probe_hook
    except Exception:
        ok = False
    if not ok:
        ctx.oracle_fail(case, 'reprconf.attributes(%r) does not give the function of that name' % HOOK_PATH, 'namespace_handler:hooks')
    try:
        reprconf.attributes('harness.c08_ns.nosuch_attribute')
        ctx.oracle_fail(case, 'reprconf.attributes of a missing attribute did not raise', 'namespace_handler:hooks')
    except AttributeError:
        pass
    except Exception as e:
        ctx.oracle_fail(case, 'reprconf.attributes of a missing attribute raised %s' % type(e).__name__, 'namespace_handler:hooks')


def check_eff_cases(ctx, cases, compare_model=True):
    import cherrypy
    lines, meta = [], []
    if len(cases) > 1:
        check_attributes(ctx)
    for case in cases:
        spec = case['nseff']
        ctx.case(case, nontrivial=True, key='nseff:' + json.dumps(spec, sort_keys=True))
        ctx.count('nseff:' + spec['which'])
        got = run_eff_real(spec)
        want = ref_effect(spec)
        if want is not None and got != want:
            ctx.oracle_fail(case, 'the %s namespace handler did %s for the entry %r = %r, documented is %s'
                            % (spec['which'], got, spec['key'], spec['val'], want), 'namespace_handler:' + spec['which'])
        aux = '-'
        if spec['which'] == 'hooks':
            aux = '+'.join(T.enc_text(p) for p in cherrypy._cprequest.hookpoints) or '-'
        elif spec['which'] == 'engine':
            aux = '+'.join('%s=%d' % (T.enc_text(n), 1 if s else 0) for n, s in PLUGINS)
        lines.append('nseff %s %s %s %s' % (spec['which'], T.enc_text(spec['key']), T.enc_val(spec['val']), aux))
        meta.append((case, got))
    if not compare_model:
        return
    out = ctx.model(lines)
    if out is None:
        return
    for (case, got), mline in zip(meta, out):
        if mline == '?':
            ctx.count('nseff:model_not_modelled')
            continue
        ctx.compared()
        spec = case['nseff']
        if got == 'R':
            mine = 'R'
        else:
            effs = list(got)
            if spec['which'] == 'server' and effs and effs[0][0] == 'S' and effs[0][2] is True and \
                    effs[0][1] not in ['servers:' + n for n in KNOWN_SERVERS] and len(effs) > 1:
                effs = effs[1:]          # a server seen for the first time is created and subscribed ("on by default")
            mine = enc_effect(effs[0]) if len(effs) == 1 else 'multi:' + ','.join(enc_effect(e) for e in effs)
        if mline != mine:
            ctx.disagree(case, mine, mline, 'namespace handler effect differs')
