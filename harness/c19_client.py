"""C19: independent RFC 2617 / RFC 7617 client, verifier, challenge parser and case generators.

Nothing here imports cherrypy.  Digests are computed over *bytes* (UTF-8 of the intended field values) straight from
RFC 2617 section 3.2.2; Basic credentials follow RFC 7617 (user-pass = user-id ":" password, first colon separates,
encoded in the charset the server announced, then base64).
"""
import base64
import binascii
import email.header
import hashlib
import re
import unicodedata

LIFETIME = 600      # seconds a nonce stays fresh ("ten minutes", auth_digest.digest_auth)


def md5(b):
    return hashlib.md5(b).hexdigest()


def u8(s):
    return s.encode('utf-8')


def ha1_of(user, realm, password):
    """RFC 2617 3.2.2.2: H(unq(username) ":" unq(realm) ":" passwd)"""
    return md5(u8(user) + b':' + u8(realm) + b':' + u8(password))


def rfc2617_response(ha1, nonce, method, uri, qop, nc, cnonce, algorithm, body):
    """request-digest of RFC 2617 3.2.2.1-3.2.2.3 (ha1 = H(A1) of the plain MD5 algorithm)."""
    if algorithm is not None and algorithm.lower() == 'md5-sess':
        ha1 = md5(ha1.encode('ascii', 'replace') + b':' + u8(nonce) + b':' + u8(cnonce or ''))
    if qop == 'auth-int':
        a2 = u8(method) + b':' + u8(uri) + b':' + md5(body).encode('ascii')
    else:
        a2 = u8(method) + b':' + u8(uri)
    ha2 = md5(a2)
    if qop:
        data = b':'.join([u8(nonce), u8(nc or ''), u8(cnonce or ''), u8(qop), ha2.encode('ascii')])
    else:
        data = u8(nonce) + b':' + ha2.encode('ascii')
    return md5(u8(ha1) + b':' + data)


def secret(cfg, user):
    """H(A1) the server's store holds for `user` (None: no such user / unusable)."""
    d = {u: p for u, p in cfg['users']}
    if cfg['store'] == 'htdigest':
        # Apache htdigest file: the line of this user *in this realm*
        for u, r, h in cfg['htlines']:
            if u == user and r == cfg['realm']:
                return h
        return None
    if user not in d:
        return None
    if cfg['store'] == 'plain':
        return ha1_of(user, cfg['realm'], d[user]) if d[user] != '' else None
    return ha1_of(user, cfg['realm'], d[user])


def rfc2617_verify(fields, method, body, cfg, genuine, now):
    """The property's predicate on the fields a client sent.  None: not a verifiable credentials set."""
    f = fields
    if f is None:
        return None
    for k in ('username', 'nonce', 'uri', 'response'):
        if not f.get(k):
            return None
    alg = f.get('algorithm')
    if alg is not None:
        # the token is case-insensitive; accept whatever Unicode case folding maps onto the two RFC names
        if alg.upper() not in ('MD5', 'MD5-SESS'):
            return None
        alg = 'MD5' if alg.upper() == 'MD5' else 'MD5-sess'
    qop = f.get('qop')
    if qop is not None and qop not in ('auth', 'auth-int'):
        return None
    if qop is not None and not (f.get('nc') and f.get('cnonce')):
        return None
    if alg == 'MD5-sess' and not f.get('cnonce'):
        return None
    ha1 = secret(cfg, f['username'])
    if ha1 is None:
        return None
    try:
        want = rfc2617_response(ha1, f['nonce'], method, f['uri'], qop, f.get('nc'), f.get('cnonce'), alg, body)
    except UnicodeEncodeError:
        return None
    issued = genuine.get(f['nonce'])
    return {'user': f['username'], 'digest_ok': want == f['response'], 'genuine': issued is not None,
            'age': (now - issued) if issued is not None else None}


# ----------------------------------------------------------------------------------------------
# Basic
# ----------------------------------------------------------------------------------------------
def basic_readings(raws):
    """What the sent payload says, per RFC 7617: the bytes in an accepted charset (UTF-8 or ISO-8859-1), normalised
    with NFC - and with nothing else - then cut at the first colon.  One (user, password) per legitimate reading."""
    out = set()
    for raw in raws or []:
        b = raw.encode('latin-1')
        for dec in ('utf-8', 'latin-1'):
            try:
                s = b.decode(dec)
            except UnicodeDecodeError:
                continue
            t = unicodedata.normalize('NFC', s)
            if ':' in t:
                out.add(tuple(t.split(':', 1)))
    return out


def basic_ok_logins(raws, cfg):
    """Logins the property allows for a header whose base64 payload is one of `raws` (bytes as latin-1 str): a
    reading (see basic_readings) names a user of the store and exactly that user's non-empty password."""
    store = {u: p for u, p in cfg['users']}
    return {u for u, p in basic_readings(raws) if p != '' and store.get(u) == p}


def nfc_table(header, pycodec):
    """Values of the model's `nfc` parameter on the strings it can ask about for this header."""
    out = []
    if header is None or ' ' not in header:
        return out
    params = header.split(' ', 1)[1]
    try:
        b = base64.b64decode(params.encode('ascii'))
    except ValueError:
        return out
    seen = set()
    for dec in (pycodec, 'latin-1'):
        try:
            s = b.decode(dec)
        except UnicodeDecodeError:
            continue
        n = unicodedata.normalize('NFC', s)
        if n != s and s not in seen:
            seen.add(s)
            out.append([s, n])
    return out


# ----------------------------------------------------------------------------------------------
# challenges
# ----------------------------------------------------------------------------------------------
def undo_rfc2047(v):
    """cherrypy encodes a header value that is not Latin-1 as one RFC 2047 encoded word; undo that."""
    if v.startswith('=?') and v.endswith('?='):
        try:
            return ''.join(a.decode(cs or 'ascii') if isinstance(a, bytes) else a
                           for a, cs in email.header.decode_header(v))
        except Exception:
            return v
    return v


def awkward_realm(realm):
    """realms that have to be written with quoted-pair escapes in a challenge (fixed finding F26)"""
    return '"' in realm or '\\' in realm


def refused_config(cfg):
    """basic_auth refuses a realm containing a double quote with ValueError (a configuration error raised on every
    request): of such a configuration only soundness is demanded"""
    return cfg['tool'] == 'basic' and '"' in cfg['realm']


# ----------------------------------------------------------------------------------------------
# RFC 2047 (what Request.process_headers does to a header value containing "=?")
# ----------------------------------------------------------------------------------------------
def enc_word(text, charset, enc):
    """one RFC 2047 encoded word for `text`"""
    b = text.encode(charset)
    if enc in 'bB':
        payload = base64.b64encode(b).decode('ascii')
    else:
        payload = ''.join(chr(x) if (48 <= x <= 57 or 65 <= x <= 90 or 97 <= x <= 122) else '_' if x == 32
                          else '=%02X' % x for x in b)
    return '=?%s?%s?%s?=' % (charset, enc, payload)


_ECRE = re.compile(r'=\?([^?]*?)\?([qQbB])\?(.*?)\?=')


def decode_words(value):
    """Independent, deliberately small RFC 2047 reader: every encoded word is replaced in place by its text, white
    space between two adjacent encoded words is dropped.  Raises ValueError / LookupError when a word cannot be
    decoded.  The generator only keeps headers on which this agrees with `decode_text_ref`."""
    out, pos, prev_word = [], 0, False
    for m in _ECRE.finditer(value):
        gap = value[pos:m.start()]
        if not (prev_word and gap.strip(' \t') == ''):
            out.append(gap)
        cs, enc, payload = m.group(1), m.group(2).lower(), m.group(3)
        if enc == 'b':
            payload += '==='[:(4 - len(payload) % 4) % 4]
            try:
                b = base64.b64decode(payload.encode('ascii'), validate=False)
            except (binascii.Error, UnicodeEncodeError) as e:
                raise ValueError(str(e))
        else:
            b = re.sub(r'=([0-9A-Fa-f]{2})', lambda mm: chr(int(mm.group(1), 16)), payload.replace('_', ' '))
            b = b.encode('latin-1')
        out.append(b.decode(cs))
        pos, prev_word = m.end(), True
    out.append(value[pos:])
    return ''.join(out)


def decode_text_ref(value):
    """Value of the model's RFC 2047 decoder parameter: `email.header.decode_header` + charset decoding (the standard
    library routine, applied here without any cherrypy code).  None = LookupError / ValueError / MessageError."""
    import email.errors
    try:
        out = ''
        for atom, cs in email.header.decode_header(value):
            if cs is not None:
                atom = atom.decode(cs)
            elif isinstance(atom, bytes):
                atom = atom.decode('latin-1')
            out += atom
        return out
    except (LookupError, ValueError, email.errors.MessageError):
        return None


def process_header_ref(header):
    """('none',) | ('ok', value the tool reads) | ('400',): strip(), then RFC 2047 decoding iff '=?' occurs"""
    if header is None:
        return ('none',)
    v = header.strip()
    if '=?' in v:
        d = decode_text_ref(v)
        return ('400',) if d is None else ('ok', d)
    return ('ok', v)


def rfc2047_agree(value):
    """(ok, decoded or None): the two decoders agree on this value (both fail, or both give the same text)"""
    ref = decode_text_ref(value)
    try:
        mine = decode_words(value)
    except (ValueError, LookupError):
        mine = None
    return ref == mine, ref


_PARAM = re.compile(r'([A-Za-z][A-Za-z0-9_-]*)=(?:"((?:[^"\\]|\\.)*)"|([!#$%&\'*+.^_`|~0-9A-Za-z-]+))')


def parse_challenge(v):
    """RFC 7235 challenge with quoted-string parameters: (scheme, {name: value}) or None."""
    m = re.match(r'([A-Za-z]+) ', v)
    if not m:
        return None
    rest = v[m.end():]
    params = {}
    pos = 0
    while True:
        pm = _PARAM.match(rest, pos)
        if not pm:
            return None
        if pm.group(1).lower() in params:
            return None
        params[pm.group(1).lower()] = re.sub(r'\\(.)', r'\1', pm.group(2)) if pm.group(2) is not None \
            else pm.group(3)
        pos = pm.end()
        if pos == len(rest):
            break
        if rest[pos:pos + 2] != ', ' and rest[pos:pos + 1] != ',':
            return None
        pos += 2 if rest[pos:pos + 2] == ', ' else 1
    return m.group(1), params


def check_challenge(scheme, cfg, chal):
    """Well-formedness of the WWW-Authenticate header of a 401: (params, None) or (None, why)."""
    if len(chal) != 1:
        return None, '%d WWW-Authenticate headers' % len(chal)
    p = parse_challenge(undo_rfc2047(chal[0]))
    if p is None:
        return None, 'does not parse'
    if p[0] != scheme:
        return None, 'scheme %r' % p[0]
    d = p[1]
    if d.get('realm') != cfg['realm']:
        return None, 'realm %r' % d.get('realm')
    cs = cfg['charset'].upper()
    if d.get('charset') not in ((None,) if cs == 'ISO-8859-1' else (cs,)):
        return None, 'charset %r' % d.get('charset')
    if scheme == 'Digest':
        if not d.get('nonce'):
            return None, 'no nonce'
        if d.get('algorithm') != 'MD5':
            return None, 'algorithm %r' % d.get('algorithm')
        if 'auth' not in [q.strip() for q in (d.get('qop') or '').split(',')]:
            return None, 'qop %r' % d.get('qop')
        if d.get('stale') not in (None, 'true'):
            return None, 'stale %r' % d.get('stale')
        extra = set(d) - {'realm', 'nonce', 'algorithm', 'qop', 'stale', 'charset', 'opaque', 'domain'}
    else:
        extra = set(d) - {'realm', 'charset'}
    if extra:
        return None, 'unexpected parameters %r' % sorted(extra)
    return d, None


def text_class(s):
    m = max(map(ord, s)) if s else 0
    return 'ascii' if m < 128 else 'latin1-range' if m < 256 else 'bmp' if m < 0x10000 else 'non-bmp'


# ----------------------------------------------------------------------------------------------
# generators
# ----------------------------------------------------------------------------------------------
USERS = ['alice', 'bob', 'Carol', 'ren\xe9', 'J\xfcrgen\xdf', 'u\U0001F600ser', 'αβγ', 'bo"b', 'back\\slash',
         'a b', 'co:lon', 'éve', '\xe9ve', 'x', '\xc3\xa9', 'comma,user', 'eq=user', 'O\'Neil', '中文',
         'ad\xadmin', '\U00010400\U00010428']
# compatibility characters (NFC leaves them alone, NFKC / NFKD / casefold do not) and canonical twins (NFC unifies
# them): each entry is (credentials with the special characters, their look-alike)
TWINS = [
    (('\ufb01ona', '\ufb01-pass\xb2'), ('fiona', 'fi-pass2')),                   # ligature fi, superscript two
    (('\xb5ser', 'x\xb2+\xb5'), ('\u03bcser', 'x2+\u03bc')),                   # micro sign vs Greek mu (Latin-1!)
    (('\uff55\uff53\uff45\uff52\uff11', '\uff50\uff57\uff11'), ('user1', 'pw1')),      # fullwidth
    (('\u210cans', '\u2167\u338f\u210c'), ('Hans', 'VIIIkgH')),                # black-letter H, Roman numeral, kg
    (('\ufb02ag', '\ufb02ag\xb3'), ('flag', 'flag3')),
    (('\xc5sa', 'caf\xe9!'), ('A\u030asa', 'cafe\u0301!')),                    # NFC form stored / NFD form stored
    (('\u212bngstr\xf6m', 'pw\u212b'), ('\xc5ngstr\xf6m', 'pw\xc5')),            # Angstrom sign (canonical singleton)
    (('Stra\xdfe', 'Stra\xdfe'), ('STRASSE', 'strasse')),                       # case folding
    (('nb\xa0sp', 'p\xa0w'), ('nb sp', 'p w')),                                 # no-break space
    (('wide\uff1acolon', 'p\uff1aw'), ('wide', 'colon')),                       # fullwidth colon
]
_FOLD = [('fi', '\ufb01'), ('fl', '\ufb02'), ('ff', '\ufb00'), ('1', '\xb9'), ('2', '\xb2'), ('3', '\xb3'),
         ('\xb5', '\u03bc'), ('\u03bc', '\xb5'), ('H', '\u210c'), ('kg', '\u338f'), ('VIII', '\u2167'), (' ', '\xa0'),
         ('ss', '\xdf'), ('\xdf', 'ss'), (':', '\uff1a'), ('e', '\u2147'), ('i', '\u2170'), ('x', '\u2179'),
         ('a', '\uff41'), ('s', '\u017f'), ('c', '\u217d'), ('p', '\uff50'), ('w', '\uff57'), ('0', '\uff10')]


def nfc(s):
    return unicodedata.normalize('NFC', s)


def confusables(s):
    """Strings that are NOT `s` under NFC but collapse onto it under NFKC / NFKD / casefold / strip."""
    out = []
    for a, b in _FOLD:
        if a in s:
            out.append(s.replace(a, b, 1))
            out.append(s.replace(a, b))
    out.append(''.join(chr(ord(c) + 0xFEE0) if '!' <= c <= '~' and c != ':' else c for c in s))
    for form in ('NFKC', 'NFKD'):
        out.append(unicodedata.normalize(form, s))
    out += [s + ' ', ' ' + s, s + '\xa0', '\u2003' + s, s.casefold(), s.upper(), s.lower(), s.swapcase(), s + '\u200b']
    seen, res = set(), []
    for v in out:
        if nfc(v) != nfc(s) and v not in seen and '\x00' not in v:
            seen.add(v)
            res.append(v)
    return res
PASSWORDS = ['secret', 'pw', 'p:w', ':start', 'end:', 'a"b', 'p\\q', 'caf\xe9', '\xfcber:pass', 'pa\U0001F511ss', 'πσ',
             'é', '\xe9', '\xc3\xa9', ' lead', 'trail ', 'x' * 40, 'Secret', 'p,w', 'p=w', 'Å', '\xc5', '0']
REALMS = ['R', 'wonderland', 'My Realm', 'caf\xe9', 're:alm', 'r\U0001F600x', 'Ωmega', 'a,b=c', "it's", 'x' * 30, 'earth ',
          '\ufb01rm\xb2', 'cafe\u0301', '\xb5\u2167']
AWKWARD_REALMS = ['a"b', 'x", stale="true', 'back\\slash', 'q\\"r', '"', 'tail\\']
CHARSETS = ['utf-8', 'utf-8', 'UTF-8', 'utf8', 'iso-8859-1', 'ISO-8859-1', 'latin-1', 'ascii']
KEYS = ['a565c27146791cfb', 'k', 'key:with:colons', 'cl\xe9', 'K' * 33, '\U0001F511']
METHODS = ['GET', 'GET', 'POST', 'PUT', 'HEAD', 'DELETE']
URIS = ['/', '/', '/?a=1&b=2', '/x/y', '/caf\xe9', '/a,b', '/q"uote', '*']

CODEC = {'utf-8': 'utf-8', 'utf8': 'utf-8', 'iso-8859-1': 'latin-1', 'latin-1': 'latin-1', 'ascii': 'ascii'}


def gen_cfg(rng, tool):
    n = rng.choice([2, 3, 3, 4, 5])
    names = rng.sample(USERS, n)
    pws = rng.sample(PASSWORDS, n)
    users = [[u, p] for u, p in zip(names, pws)]
    if tool == 'basic':
        # user-ids with a colon can never log in with Basic; keep one occasionally, as a trap
        users = [[u, p] for u, p in users if ':' not in u or rng.random() < 0.3]
        if not users:
            users = [['alice', 'secret']]
    if rng.random() < 0.35:
        users.append([rng.choice(['nopass', 'empty\xe9']), ''])
    if rng.random() < 0.3 and len(users) >= 2:
        users[1][1] = users[0][1]          # two users sharing a password
    if rng.random() < 0.15:
        # the confusable pair: one user's password is the Latin-1 reading of another password's UTF-8 bytes
        users.append(['conf1', 'caf\xe9'])
        users.append(['conf2', 'caf\xc3\xa9'])
    if rng.random() < 0.6:
        # compatibility / canonical twins: the marked credentials, their look-alikes, or both
        for tw in rng.sample(TWINS, rng.choice([1, 1, 2])):
            which = rng.choice(['both', 'both', 'special', 'plain', 'crossed'])
            (su, sp), (pu, pp) = tw
            if which in ('both', 'special'):
                users.insert(rng.randrange(len(users) + 1), [su, sp])
            if which in ('both', 'plain'):
                users.insert(rng.randrange(len(users) + 1), [pu, pp])
            if which == 'crossed':
                users.insert(rng.randrange(len(users) + 1), [pu, sp])
        if tool == 'basic':
            users = [[u, p] for u, p in users if ':' not in u]
    seen, uniq = set(), []
    for u, p in users:
        if u not in seen:
            seen.add(u)
            uniq.append([u, p])
    cfg = {'tool': tool, 'realm': rng.choice(REALMS), 'charset': rng.choice(CHARSETS), 'users': uniq}
    if rng.random() < 0.06:
        cfg['realm'] = rng.choice(AWKWARD_REALMS)
    if rng.random() < 0.25:
        cfg['debug'] = True           # must not change any decision: same model, same oracle
    if tool == 'digest':
        cfg['key'] = rng.choice(KEYS)
        cfg['store'] = rng.choice(['plain', 'plain', 'ha1', 'htdigest'])
        if cfg['store'] == 'htdigest':
            # file format: no colon / line break inside user or realm; empty passwords have an HA1 like any other
            cfg['realm'] = rng.choice([r for r in REALMS if ':' not in r])
            cfg['users'] = [[u, p] for u, p in cfg['users'] if ':' not in u] or [['alice', 'secret']]
            lines = []
            for u, p in cfg['users']:
                own = [u, cfg['realm'], ha1_of(u, cfg['realm'], p)]
                other_realm = rng.choice(['elsewhere', cfg['realm'] + '2', cfg['realm'][:-1] or 'q'])
                foreign = [u, other_realm, ha1_of(u, other_realm, p + 'other')]
                lines += rng.choice([[own], [foreign, own], [own, foreign], [foreign, own]])
            # somebody who only exists in another realm
            lines.insert(rng.randrange(len(lines) + 1), ['stranger', 'elsewhere', ha1_of('stranger', 'elsewhere', 'pw')])
            cfg['htlines'] = lines
    return cfg


def other_password(rng, cfg, user, pw):
    alts = [p for u, p in cfg['users'] if u != user and p != pw and p != '']
    cands = [pw[:-1], pw + 'x', pw + ' ', pw.swapcase(), pw[1:], pw[::-1], 'wrong', '', pw + ':', ':' + pw,
             unicodedata.normalize('NFD', pw) + '́', pw.encode('utf-8').decode('latin-1')]
    cands += alts * 3
    cands = [c for c in cands if c != pw and unicodedata.normalize('NFC', c) != unicodedata.normalize('NFC', pw)]
    return rng.choice(cands) if cands else pw + 'y'


def q(v):
    """quoted-string of RFC 2616/7230"""
    return '"' + v.replace('\\', '\\\\').replace('"', '\\"') + '"'


QUOTED = ('username', 'realm', 'nonce', 'uri', 'response', 'cnonce', 'opaque')


def serialise(items, style, rng):
    """items: list of (name, value).  RFC 2617 spelling: quoted-string for the QUOTED names, token otherwise."""
    parts = []
    qq = style.get('q', q)
    for k, v in items:
        if v.startswith('\x00RAW'):
            parts.append('%s=%s' % (k, v[4:]))
        elif style.get('quote_all') or (k in QUOTED and not style.get('quote_none')) or not re.fullmatch(r'[!#-+\--~]+', v):
            parts.append('%s=%s' % (k, qq(v)))
        else:
            parts.append('%s=%s' % (k, v))
    sep = style.get('sep', ', ')
    return style.get('scheme', 'Digest') + ' ' + sep.join(parts)


def wire(text, enc):
    """what the WSGI server hands to the application for these header bytes (a latin-1 str); None if impossible"""
    try:
        return text.encode(enc).decode('latin-1')
    except UnicodeEncodeError:
        return None


def candidates(fields, enc, server_codec):
    """the field sets a server may legitimately read out of the bytes: the intended one first, then the other
    decodings of the same bytes"""
    out = [dict(fields)]
    for dec in ('utf-8', 'latin-1'):
        try:
            alt = {k: v.encode(enc).decode(dec) for k, v in fields.items()}
        except (UnicodeEncodeError, UnicodeDecodeError):
            continue
        if alt not in out:
            out.append(alt)
    return out


def forge_nonce(rng, nonce, how, cfg, world, at):
    ts, _, h = nonce.partition(':')
    if not re.fullmatch(r'-?[0-9]+', ts):
        ts = str(at)        # the server did not hand out a nonce of the usual shape (reported via the no-header cases)
    if how == 'ts+1':
        return '%d:%s' % (int(ts) + 1, h)
    if how == 'ts-1':
        return '%d:%s' % (int(ts) - 1, h)
    if how == 'ts-old':
        return '%d:%s' % (int(ts) - 100000, h)
    if how == 'ts-pad':
        return rng.choice(['0' + ts, ts + ' ', '+' + ts, ts + '_0', ' ' + ts]) + ':' + h
    if how == 'hash-flip':
        i = rng.randrange(len(h)) if h else 0
        c = 'f' if h[i:i + 1] != 'f' else '0'
        return ts + ':' + h[:i] + c + h[i + 1:]
    if how == 'hash-trunc':
        return ts + ':' + h[:rng.choice([0, 1, 16, 31])]
    if how == 'hash-upper':
        return ts + ':' + (h.upper() if h.upper() != h else h + '0')
    if how == 'hash-ext':
        return nonce + rng.choice(['0', ':', ' x'])
    if how == 'no-colon':
        return ts + h
    if how == 'garbage':
        return rng.choice(['abc', ':', 'x:y:z', '::', 'None', '0:0', ts, ts + ':', h, '\xe9:\xe9'])
    if how in ('foreign-key', 'foreign-key-old'):
        c2 = dict(cfg, key=cfg['key'] + 'x')
        return world.issue(c2, at - (100000 if how.endswith('old') else 0)) or 'abc'
    if how in ('foreign-realm', 'foreign-realm-old'):
        c2 = dict(cfg, realm=cfg['realm'] + 'x')
        return world.issue(c2, at - (100000 if how.endswith('old') else 0)) or 'abc'
    if how in ('realm-shift', 'realm-shift-2'):
        # a genuine nonce of ANOTHER realm of the same server key whose name is "<prefix>:<this realm>", re-spelt with
        # the prefix moved from the realm into the nonce text ("T:<prefix>:HASH"): the colon-joined text that was
        # hashed is the same, so only a reader that splits the nonce at its FIRST colon tells them apart
        pre = 'lobby' if how == 'realm-shift' else rng.choice(['x', '0', ts, 'a:b'])
        c2 = dict(cfg, realm=pre + ':' + cfg['realm'])
        other = world.issue(c2, at)
        if not other or ':' not in other:
            return 'abc'
        ts2, _, h2 = other.partition(':')
        return '%s:%s:%s' % (ts2, pre, h2)
    raise ValueError(how)


FORGERIES = ['realm-shift', 'realm-shift', 'realm-shift-2','ts+1', 'ts-1', 'ts-old', 'ts-pad', 'hash-flip', 'hash-trunc', 'hash-upper', 'hash-ext', 'no-colon',
             'garbage', 'foreign-key', 'foreign-key-old', 'foreign-realm', 'foreign-realm-old']

DIGEST_KINDS = [
    # (name, weight)
    ('ok', 14),
    ('wrong_password', 6), ('other_users_password', 3), ('unknown_user', 3), ('confusable_user', 5),
    ('empty_password_user', 2), ('client_other_realm', 2), ('method_mismatch', 3), ('body_mismatch', 1),
    ('nonce_forged', 10), ('nonce_other_realm_claimed', 2), ('nonce_stale', 6), ('nonce_stale_wrong_password', 2), ('nonce_future', 1),
    ('tamper_response', 6), ('tamper_uri', 2), ('tamper_nc', 2), ('tamper_cnonce', 2), ('tamper_qop', 2),
    ('tamper_algorithm', 2), ('tamper_username', 3), ('tamper_realm_field', 2),
    ('drop_field', 6), ('dup_field', 2), ('extra_field', 2), ('empty_value', 4), ('bad_value', 2),
    ('scheme', 6), ('no_header', 1), ('whitespace', 3), ('quoting', 5), ('wire_other_charset', 3), ('exotic_case', 2),
    ('int_nonce_ts', 2),
    ('method_param_override', 4), ('param_case', 2), ('quoted_pair', 3), ('rfc2047', 6), ('ha1_none_literal', 3),
]


def weighted(rng, table):
    return rng.choices([k for k, _ in table], weights=[w for _, w in table])[0]


def gen_digest_case(rng, cfg, world, kind=None):
    kind = kind or weighted(rng, DIGEST_KINDS)
    server_codec = CODEC[cfg['charset'].lower()]
    valid_users = [(u, p) for u, p in cfg['users'] if p != '' or cfg['store'] in ('ha1', 'htdigest')]
    user, pw = rng.choice(valid_users) if valid_users else ('ghost', 'pw')
    method = rng.choice(METHODS)
    body = ''
    if method in ('POST', 'PUT'):
        body = rng.choice(['', 'x=1', 'entity body', '\xff\x00bin'])
    uri = rng.choice(URIS)
    qop = rng.choice([None, None, 'auth', 'auth', 'auth', 'auth', 'auth', 'auth', 'auth', 'auth-int'])
    alg = rng.choice([None, None, 'MD5', 'MD5', 'MD5-sess'])
    if alg == 'MD5-sess' and qop is None and rng.random() < 0.7:
        qop = 'auth'
    nc = rng.choice(['00000001', '00000001', '0000002a', 'ffffffff'])
    cnonce = rng.choice(['0a4f113b', 'c"n', 'cn:1', 'Y24=', '\xe9cn'])
    now = float(rng.choice([1700000000, 1234567890, 600, 100000, 2 ** 31 + 5])) + rng.choice([0.0, 0.25, 0.999])
    age = rng.choice([0, 0, 1, 17, 300, 598, 599, 599])
    conforming = True        # standard serialisation of a supported request: completeness is demanded
    wellformed = True        # True: a rejection must be 401;  None: 400 or 401
    style = {}
    enc = 'utf-8' if server_codec != 'latin-1' else rng.choice(['latin-1', 'utf-8'])
    pw_used, user_used, realm_used, method_used, body_used = pw, user, cfg['realm'], method, body
    forged = None
    ha1_override = None
    if kind == 'wrong_password':
        pw_used = other_password(rng, cfg, user, pw)
    elif kind == 'other_users_password':
        others = [p for u, p in cfg['users'] if u != user and p != pw]
        pw_used = rng.choice(others) if others else pw + 'z'
    elif kind == 'unknown_user':
        user_used = rng.choice((['stranger'] * 3 if cfg['store'] == 'htdigest' else []) + [
            'mallory', user + 'x', user[:-1] or 'y', user.upper() if user.upper() != user else 'zz',
                                'None', unicodedata.normalize('NFD', user) + '̀'])
        if user_used == 'stranger':
            pw_used, realm_used = 'pw', rng.choice(['elsewhere', cfg['realm']])
        if user_used in [u for u, _ in cfg['users']]:
            user_used = 'mallory2'
    elif kind == 'confusable_user':
        # a user name that is a stored one only under NFKC / NFD / casefold / strip: digest compares names as sent
        alts = confusables(user) + [unicodedata.normalize('NFD', user), unicodedata.normalize('NFC', user)]
        alts = [a for a in alts if a != user and a not in [u for u, _ in cfg['users']]]
        if alts:
            user_used = rng.choice(alts)
        else:
            user_used = user + '\u200b'
    elif kind == 'empty_password_user':
        empties = [u for u, p in cfg['users'] if p == '']
        if empties:
            user_used, pw_used = empties[0], ''
            conforming = False
        else:
            kind = 'ok'
    elif kind == 'ha1_none_literal':
        # a user the store has no secret for (unknown, or stored with an empty password in a plain-text store): a server
        # that carried on "without an HA1" would compute the digest from the text 'None' / '' - which anybody can do
        empties = [u for u, p in cfg['users'] if p == ''] if cfg['store'] == 'plain' else []
        user_used = rng.choice(empties + ['mallory', user + 'x', 'None', 'nobody'])
        if user_used in [u for u, p in cfg['users'] if not (p == '' and cfg['store'] == 'plain')]:
            user_used = 'mallory3'
        ha1_override = rng.choice(['None', 'None', '', 'False', '0', md5(b''), md5(b'None')])
        conforming = False
    elif kind == 'client_other_realm':
        realm_used = cfg['realm'] + rng.choice(['x', ' ', '2']) if rng.random() < 0.7 else 'other'
    elif kind in ('method_mismatch', 'method_param_override'):
        method_used = rng.choice([m for m in ['GET', 'POST', 'PUT', 'HEAD', 'DELETE', 'get'] if m != method])
    elif kind == 'body_mismatch':
        qop, method, body, body_used = 'auth-int', 'POST', 'entity body', 'other body'
        method_used = method
    elif kind in ('nonce_stale', 'nonce_stale_wrong_password'):
        age = rng.choice([600, 600, 601, 601, 602, 3600, 10 ** 6])
        if now - age < 0:
            now += 10 ** 6
        if kind == 'nonce_stale_wrong_password':
            pw_used = other_password(rng, cfg, user, pw)
    elif kind == 'nonce_future':
        age = -rng.choice([1, 100, 100000])
    rfc_how = None
    if kind == 'rfc2047':
        # Request.process_headers runs the RFC 2047 decoder over every header value that contains "=?"
        rfc_how = rng.choice(['whole', 'whole', 'params', 'two-words', 'field', 'field-literal', 'undecodable',
                              'nonlatin', 'marker-only', 'embedded-word-uri', 'lower-scheme-word'])
        if rng.random() < 0.3 and rfc_how not in ('marker-only',):
            pw_used = other_password(rng, cfg, user, pw)
        if rfc_how == 'marker-only':
            uri = rng.choice(['/a=?b', '/?q==?', '/=?utf-8?q', '/x?=?', '/=?=?'])
        elif rfc_how == 'embedded-word-uri':
            uri = rng.choice(['/x?=?utf-8?q?abc?=', '/=?iso-8859-1?b?YWJj?=/y'])
    issue_at = now - age
    if issue_at < 0:
        issue_at, age = now, 0
    nonce = world.issue(cfg, issue_at)
    if nonce is None:
        nonce = '%d:unissued' % int(issue_at)
    genuine = {nonce: int(issue_at)}
    if kind == 'nonce_forged':
        forged = rng.choice(FORGERIES)
        nonce = forge_nonce(rng, nonce, forged, cfg, world, int(issue_at))
        kind = 'nonce_forged:' + forged
    header_realm = None
    if kind == 'nonce_other_realm_claimed':
        # a nonce handed out for ANOTHER realm by a server sharing the key, replayed here with that realm named in
        # the header while everything is computed for this realm: not "issued by this server for this realm"
        other = cfg['realm'] + rng.choice(['x', '2', ' '])
        nonce = world.issue(dict(cfg, realm=other), issue_at) or 'abc'
        header_realm = other
        genuine = {}
    if kind == 'int_nonce_ts':
        # the server's own nonce format with a timestamp int() reads differently from how it is written
        # (the harness knows the key here: this exercises validate_nonce/is_nonce_stale on exotic but *forgeable
        # only with the key* nonces; the oracle treats them as not issued by the server)
        ts = rng.choice(['+%d', ' %d', '%d ', '0%d', '%d_0', '١٢', '-%d', '%d.0', '1e3', '', '9' * 4301, '9' * 25,
                         '%d_', '_%d', '１２３４５６７８９０１', '%d\xa0', '\u2003%d', '+-%d', '0x%d', '%d\x00', 'None',
                         '٠%d', '-0', '%d__0'])
        ts = ts % int(issue_at) if '%d' in ts else ts
        nonce = ts + ':' + md5(u8('%s:%s:%s' % (ts, cfg['realm'], cfg['key'])))
        conforming, wellformed = False, None
        genuine = {}
    # what the client believes / computes
    ha1 = ha1_override if ha1_override is not None else ha1_of(user_used, realm_used, pw_used)
    sent_alg, sent_qop = alg, qop
    response = rfc2617_response(ha1, nonce, method_used, uri, qop, nc if qop else None, cnonce if (qop or alg == 'MD5-sess') else None,
                                alg, body_used.encode('latin-1'))
    items = [('username', user_used), ('realm', header_realm or realm_used), ('nonce', nonce), ('uri', uri),
             ('response', response)]
    if alg is not None:
        items.append(('algorithm', alg))
    if qop is not None:
        items += [('qop', qop), ('nc', nc), ('cnonce', cnonce)]
    if alg == 'MD5-sess' and qop is None:
        conforming = False       # RFC 2617 leaves MD5-sess without a cnonce undefined
    if rng.random() < 0.3:
        items.append(('opaque', rng.choice(['5ccc069c403ebaf9f0171e9517f40e41', 'o"p', ''])))
        if items[-1][1] == '':
            items.pop()
    if rng.random() < 0.25:
        rng.shuffle(items)

    def setf(name, value):
        for i, (k, v) in enumerate(items):
            if k == name:
                items[i] = (k, value)
                return True
        return False

    text = None
    fields_known = True
    dup_alt = None
    alt_fields = []           # further field sets a server may legitimately read out of the header
    if kind == 'method_param_override':
        # a non-RFC auth-param naming the method the response was computed for: the statement says the *request*
        # method goes into A2, so this must be refused (401; an extra parameter is not a syntax error)
        how = rng.choice(['token', 'quoted', 'first'])
        kind += ':' + how
        mp = ('method', method_used if how != 'quoted' else '\x00RAW' + q(method_used))
        if how == 'first':
            items.insert(0, mp)
        else:
            items.insert(rng.randrange(len(items) + 1), mp)
        conforming = False
    elif kind == 'param_case':
        # auth-param names are case-insensitive in RFC 7235; the code looks them up in lower case only.  Either
        # reading is fine for the statement: what matters is that nobody gets in without a verifying reading.
        i = rng.randrange(len(items))
        k0, v0 = items[i]
        k1 = rng.choice([k0.upper(), k0.capitalize(), k0[:-1] + k0[-1].upper()])
        items[i] = (k1, v0)
        kind += ':' + k0
        conforming, wellformed = False, None
        alt_fields.append({k.lower(): v for k, v in items})
        alt_fields.append({k: v for k, v in items if k != k1})
        if k0 == 'qop':
            sent_qop = None
        if k0 == 'algorithm':
            sent_alg = None
    elif kind == 'quoted_pair':
        # RFC 7230 quoted-pair: any character of a quoted-string may be written with a backslash in front
        def q_more(v, rng=rng):
            return '"' + ''.join(('\\' + c) if (c in '\\"' or rng.random() < 0.3) else c for c in v) + '"'
        style['q'] = q_more
        conforming = False
    if kind == 'tamper_response':
        r = response
        how = rng.choice(['flip', 'prefix31', 'prefix1', 'prefix8', 'extend', 'upper', 'space', 'other'])
        r2 = {'flip': r[:5] + ('0' if r[5] != '0' else '1') + r[6:], 'prefix31': r[:31], 'prefix1': r[:1],
              'prefix8': r[:8], 'extend': r + '0', 'upper': r.upper() if r.upper() != r else r + 'A',
              'space': r + ' ', 'other': md5(b'other')}[how]
        setf('response', r2)
        kind += ':' + how
        if how in ('upper', 'space'):
            conforming = False
    elif kind == 'tamper_uri':
        setf('uri', uri + rng.choice(['x', '/', '?', ' ']))
    elif kind == 'tamper_nc':
        if not setf('nc', rng.choice(['00000002', '1', nc + '0', nc.upper() if nc.upper() != nc else '0000000A'])):
            kind = 'ok'
    elif kind == 'tamper_cnonce':
        if not setf('cnonce', cnonce + 'x'):
            kind = 'ok'
    elif kind == 'tamper_qop':
        if qop == 'auth':
            setf('qop', 'auth-int')
            sent_qop = 'auth-int'
        elif qop == 'auth-int':
            setf('qop', 'auth')
            sent_qop = 'auth'
        else:
            items += [('qop', 'auth'), ('nc', nc), ('cnonce', cnonce)]
            sent_qop = 'auth'
    elif kind == 'tamper_algorithm':
        new = {'MD5': 'MD5-sess', 'MD5-sess': 'MD5', None: 'MD5-sess'}[alg]
        if not setf('algorithm', new):
            items.append(('algorithm', new))
        sent_alg = new
        if new == 'MD5-sess' and qop is None:
            conforming = False
    elif kind == 'tamper_username':
        others = [u for u, p in cfg['users'] if u != user_used]
        setf('username', rng.choice(others) if others else user_used + 'x')
    elif kind == 'tamper_realm_field':
        # the realm *field* is not an input of the RFC computation the statement lists
        setf('realm', rng.choice(['other', cfg['realm'] + 'x', 'x']))
        conforming = False
    elif kind == 'drop_field':
        name = rng.choice([k for k, _ in items])
        items[:] = [(k, v) for k, v in items if k != name]
        kind += ':' + name
        if name == 'opaque':
            pass
        elif name == 'algorithm':
            sent_alg = None
        else:
            wellformed = None
            conforming = False
        if name == 'qop':
            sent_qop = None
    elif kind == 'dup_field':
        name = rng.choice(['username', 'response', 'nonce', 'uri'] * 2 + [k for k, _ in items if k != 'opaque'])
        val = dict(items)[name]
        pos = rng.choice(['first', 'last'])
        if pos == 'first':
            items.insert(0, (name, val + 'x'))
        else:
            items.append((name, val + 'x'))
        kind += ':' + pos
        conforming, wellformed = False, None
        dup_alt = (name, val + 'x')
    elif kind == 'extra_field':
        items.insert(rng.randrange(len(items) + 1), rng.choice([('foo', 'bar'), ('domain', '/'), ('userhash', 'false'),
                                                                 ('method', 'GET'), ('x-y', 'a, b="c"')]))
    elif kind == 'empty_value':
        name = rng.choice(['qop', 'nc', 'cnonce', 'opaque', 'algorithm', 'username', 'response', 'realm', 'foo'])
        form = rng.choice(['quoted', 'bare'])
        items[:] = [(k, v) for k, v in items if k != name]
        items.insert(rng.randrange(len(items) + 1), (name, '\x00EMPTY-' + form))
        kind += ':%s:%s' % (name, form)
        conforming, wellformed = False, None
        if name == 'qop':
            sent_qop = ''
        if name == 'algorithm':
            sent_alg = ''
    elif kind == 'bad_value':
        name, val = rng.choice([('qop', 'AUTH'), ('qop', 'auth,auth-int'), ('qop', 'none'), ('algorithm', 'SHA-256'),
                                ('algorithm', 'MD5-sess-x'), ('algorithm', 'md5'), ('algorithm', 'md5-SESS'),
                                ('algorithm', 'MD5 '), ('qop', ' auth')])
        if not setf(name, val):
            items.append((name, val))
            if name == 'qop':
                items += [('nc', nc), ('cnonce', cnonce)]
        kind += ':%s=%s' % (name, val)
        conforming, wellformed = False, None
        if name == 'qop':
            sent_qop = val
        else:
            sent_alg = val
    elif kind == 'scheme':
        sch = rng.choice(['digest', 'DIGEST', 'DiGeSt', 'Digestx', 'Diges', 'Basic', 'Bearer', 'Negotiate', 'Digest,',
                          'bare-Digest', 'bare-digest-space', 'bare-Bearer', 'basic-creds', 'empty', 'Digest-tab',
                          'two-spaces', 'Di̇gest', 'DİGEST'])
        kind += ':' + sch
        if sch in ('digest', 'DIGEST', 'DiGeSt'):
            style['scheme'] = sch
        elif sch in ('Digestx', 'Diges', 'Basic', 'Bearer', 'Negotiate', 'Digest,', 'Di̇gest', 'DİGEST'):
            style['scheme'] = sch
            fields_known = False
            conforming = False
            if ord(max(sch)) > 255:
                enc = 'utf-8'
        elif sch == 'bare-Digest':
            text, fields_known, conforming, wellformed = 'Digest', False, False, None
        elif sch == 'bare-digest-space':
            text, fields_known, conforming, wellformed = 'digest ', False, False, None
        elif sch == 'bare-Bearer':
            text, fields_known, conforming = 'Bearer', False, False
        elif sch == 'basic-creds':
            text = 'Basic ' + base64.b64encode(u8(user + ':' + pw)).decode('ascii')
            fields_known, conforming = False, False
        elif sch == 'empty':
            text, fields_known, conforming = '', False, False
        elif sch == 'Digest-tab':
            style['scheme'] = 'Digest\t'
            fields_known, conforming = False, False
        elif sch == 'two-spaces':
            style['scheme'] = 'Digest '
            conforming = False
    elif kind == 'whitespace':
        how = rng.choice(['nosp', 'tabs', 'many', 'trailing-comma', 'double-comma', 'leading-comma', 'sp-eq',
                          'trailing-ws', 'nbsp'])
        kind += ':' + how
        style['sep'] = {'nosp': ',', 'tabs': ',\t', 'many': '  ,   ', 'nbsp': ',\xa0'}.get(how, ', ')
        if how == 'nbsp':
            conforming, wellformed, fields_known = False, None, True
            enc = 'latin-1'
    elif kind == 'quoting':
        how = rng.choice(['quote_all', 'quote_none', 'drop-close', 'drop-open', 'raw-quote', 'trail-backslash',
                          'no-eq', 'just-eq', 'single-quotes'])
        kind += ':' + how
        if how in ('quote_all', 'quote_none'):
            style[how] = True
            conforming = False
            if how == 'quote_none':
                wellformed = None       # (values that are not tokens are quoted all the same)
    elif kind == 'wire_other_charset':
        enc = 'latin-1' if enc == 'utf-8' else 'utf-8'
        conforming = False
    elif kind == 'exotic_case':
        # characters whose str.upper() is ASCII inside the algorithm token
        val = rng.choice(['md5-ſess', 'MD5-SE\xdf', 'md5-seſſ', 'MDı'])
        if not setf('algorithm', val):
            items.append(('algorithm', val))
        sent_alg = val
        conforming, wellformed = False, None
        enc = 'utf-8'
    if text is None:
        text = serialise(items, style, rng)
        text = text.replace('"\x00EMPTY-quoted"', '""').replace('"\x00EMPTY-bare"', '')
        items = [(k, '' if v.startswith('\x00EMPTY-') else v) for k, v in items]
        if kind.startswith('whitespace:'):
            how = kind.split(':')[1]
            if how == 'trailing-comma':
                text += ','
                conforming = False
            elif how == 'double-comma':
                text = text.replace(', ', ', , ', 1)
                conforming, wellformed = False, None
            elif how == 'leading-comma':
                text = text.replace(' ', ' ,', 1)
                conforming, wellformed = False, None
            elif how == 'sp-eq':
                text = text.replace('=', ' = ', 2)
                conforming, wellformed = False, None
            elif how == 'trailing-ws':
                text += rng.choice([' ', '\t', '  '])
        if kind.startswith('quoting:'):
            how = kind.split(':')[1]
            if how == 'drop-close':
                i = [m.end() for m in re.finditer(r'"(?:[^"\\]|\\.)*"', text)]
                if i:
                    j = rng.choice(i)
                    text = text[:j - 1] + text[j:]
                conforming, wellformed = False, None
            elif how == 'drop-open':
                i = [m.start() for m in re.finditer(r'"(?:[^"\\]|\\.)*"', text)]
                if i:
                    j = rng.choice(i)
                    text = text[:j] + text[j + 1:]
                conforming, wellformed = False, None
            elif how == 'raw-quote':
                text = text.replace('username="', 'username="a"b', 1)
                conforming, wellformed = False, None
            elif how == 'trail-backslash':
                text = text + '\\' if rng.random() < 0.5 else text[:-1] + '\\"'
                conforming, wellformed = False, None
            elif how == 'no-eq':
                text += ', foo'
                conforming, wellformed = False, None
            elif how == 'just-eq':
                text += rng.choice([', =', ', =x', ', ='])
                conforming, wellformed = False, None
            elif how == 'single-quotes':
                text = text.replace('"', "'")
                conforming, wellformed = False, None
    if kind == 'no_header':
        text, fields_known, conforming = None, False, False
    header = None
    cands = None
    if rfc_how is not None:
        kind += ':' + rfc_how
        plain_text = text
        fields0 = dict(items)
        if rfc_how not in ('marker-only',):
            conforming, wellformed = False, None
        word_cs = rng.choice(['utf-8', 'UTF-8', 'iso-8859-1'])
        try:
            plain_text.encode(word_cs)
        except UnicodeEncodeError:
            word_cs = 'utf-8'
        e = rng.choice('qQbB')
        if rfc_how == 'whole':
            text = enc_word(plain_text, word_cs, e)
        elif rfc_how == 'lower-scheme-word':
            text = enc_word('digest', word_cs, e) + ' ' + plain_text.split(' ', 1)[1]
        elif rfc_how == 'params':
            text = 'Digest ' + enc_word(plain_text.split(' ', 1)[1], word_cs, e)
        elif rfc_how == 'two-words':
            cut = rng.randrange(1, len(plain_text))
            text = enc_word(plain_text[:cut], word_cs, e) + rng.choice([' ', '  ', '\t']) + \
                enc_word(plain_text[cut:], word_cs, rng.choice('qb'))
        elif rfc_how in ('field', 'field-literal'):
            # only the user name is written as an encoded word (inside the quotes)
            w = enc_word(user_used, 'utf-8', rng.choice('qb'))
            if rfc_how == 'field-literal':
                # ... and the client means it literally: its response is computed for the user called "=?utf-8?…?="
                ha1_lit = ha1_of(w, realm_used, pw_used)
                response = rfc2617_response(ha1_lit, nonce, method_used, uri, qop, nc if qop else None,
                                            cnonce if (qop or alg == 'MD5-sess') else None, alg,
                                            body_used.encode('latin-1'))
            items2 = [(k, w if k == 'username' else response if k == 'response' else v) for k, v in items]
            text = serialise(items2, style, rng)
            alt_fields.append(dict(items2))
            fields0 = dict(items2, username=user_used)
        elif rfc_how == 'undecodable':
            text = rng.choice([
                enc_word(plain_text, 'utf-8', 'q').replace('=?utf-8?', '=?x-no-such-charset?', 1),
                'Digest =?utf-8?b?A?=, ' + plain_text.split(' ', 1)[1],
                '=?utf-8?q?=FF=FE?= ' + plain_text,
                plain_text + ', x="=?ascii?q?=E9?="',
                '=?utf-16?b?QQ?= ' + plain_text])
            fields_known = False
        elif rfc_how == 'nonlatin':
            text = rng.choice([
                enc_word(plain_text + ', x="\u4e2d\U0001F600"', 'utf-8', e),
                enc_word('D\u0130GEST', 'utf-8', e) + ' ' + plain_text.split(' ', 1)[1],
                plain_text.replace('username="', 'username="' + enc_word('\u0142', 'utf-8', 'q'), 1)])
            fields_known = False
        agree, decoded = rfc2047_agree(text.strip())
        if not agree:
            return None
        enc = 'latin-1' if text_class(text) in ('ascii', 'latin1-range') else 'utf-8'
        if fields_known:
            items = list(fields0.items())
    if text is not None:
        header = wire(text, enc)
        if header is None:
            enc = 'utf-8'
            header = wire(text, enc)
        if any(c in header for c in '\r\n\x00'):
            return None
        if '=?' in header and not rfc2047_agree(header.strip())[0]:
            return None
        if fields_known:
            fields = {}
            for k_, v_ in items:
                fields[k_] = v_[5:-1] if v_.startswith('\x00RAW"') else v_
            cands = candidates(fields, enc, server_codec)
            for af in alt_fields:
                cands += candidates(af, enc, server_codec)
            if dup_alt is not None:
                cands += candidates(dict(fields, **{dup_alt[0]: dup_alt[1]}), enc, server_codec)
                cands += candidates(dict(fields, **{dup_alt[0]: dup_alt[1][:-1]}), enc, server_codec)
        # completeness is only demanded when the bytes are in the charset the server announced
        if text_class(text) != 'ascii' and CODEC[cfg['charset'].lower()] != enc:
            conforming = False
            if wellformed is True:
                wellformed = None
        if server_codec == 'ascii' and text_class(text) != 'ascii':
            conforming = False
    if sent_qop == 'auth-int' and wellformed is True:
        wellformed = None       # the tool never offers auth-int: answering 400 to it is as good as 401
    mode = 'no5xx' if kind == 'int_nonce_ts' else 'full'
    return {'cfg': cfg, 'kind': kind, 'method': method, 'body': body, 'now': now, 'header': header,
            'cands': cands, 'genuine': genuine, 'conforming': conforming, 'wellformed': wellformed,
            'sent_alg': sent_alg, 'sent_qop': sent_qop, 'age': age, 'oracle': mode}


BASIC_KINDS = [
    ('ok', 14), ('wrong_password', 8), ('other_users_password', 4), ('unknown_user', 4), ('empty_password_user', 4),
    ('empty_password_sent', 2), ('nfd', 6), ('confusable_password', 10), ('confusable_user', 6), ('twin_mix', 5),
    ('fullwidth_colon', 4), ('colon_user', 2), ('no_colon', 3), ('wire_other_charset', 4),
    ('scheme', 8), ('no_header', 1), ('b64_break', 10), ('b64_junk', 5), ('spacing', 3), ('raw_bytes', 3),
    ('empty_creds', 2), ('rfc2047', 6),
]


def gen_basic_case(rng, cfg, world):
    kind = weighted(rng, BASIC_KINDS)
    server_codec = CODEC[cfg['charset'].lower()]
    valid_users = [(u, p) for u, p in cfg['users'] if p != '' and ':' not in u]
    user, pw = rng.choice(valid_users) if valid_users else ('ghost', 'pw')
    if kind in ('nfd', 'confusable_password', 'confusable_user', 'twin_mix', 'ok') and rng.random() < 0.6:
        # prefer credentials on which the normal forms differ
        marked = [(u, p) for u, p in valid_users
                  if any(unicodedata.normalize(f, u + p) != u + p for f in ('NFD', 'NFKC'))]
        if marked:
            user, pw = rng.choice(marked)
    now = 1700000000.0
    conforming, wellformed = True, True
    enc = {'utf-8': 'utf-8', 'latin-1': 'latin-1', 'ascii': 'utf-8'}[server_codec]
    scheme = 'Basic'
    text = None
    if kind == 'wrong_password':
        pw = other_password(rng, cfg, user, pw)
    elif kind == 'other_users_password':
        others = [p for u, p in cfg['users'] if u != user and p != pw]
        pw = rng.choice(others) if others else pw + 'z'
    elif kind == 'unknown_user':
        user = rng.choice(['mallory', user + 'x', user[:-1] or 'y', user.swapcase() if user.swapcase() != user else 'zz',
                           '', ' ' + user])
        if user in [u for u, _ in cfg['users']]:
            user = 'mallory2'
    elif kind == 'empty_password_user':
        empties = [u for u, p in cfg['users'] if p == '']
        if empties:
            user, pw = empties[0], rng.choice(['', '', 'x', 'None', 'False'])
        else:
            user, pw = user, ''
    elif kind == 'empty_password_sent':
        pw = ''
    elif kind == 'nfd':
        # canonically equivalent spelling of the same credentials: NFC (and only NFC) makes them match
        form = rng.choice(['NFD', 'NFD', 'mixed'])
        if form == 'NFD':
            user, pw = unicodedata.normalize('NFD', user), unicodedata.normalize('NFD', pw)
        else:
            user, pw = unicodedata.normalize('NFD', user), pw
    elif kind == 'confusable_password':
        alts = confusables(pw)
        if alts:
            pw = rng.choice(alts)
        else:
            pw = pw + '\u200b'
    elif kind == 'confusable_user':
        alts = [a for a in confusables(user) if ':' not in a]
        user = rng.choice(alts) if alts else user + '\u200b'
    elif kind == 'twin_mix':
        # one twin's user with the other twin's password (or the other twin altogether, if it is not stored)
        tw = rng.choice(TWINS)
        a, b = rng.choice([(tw[0], tw[1]), (tw[1], tw[0])])
        user, pw = rng.choice([(a[0], b[1]), (b[0], b[1]), (a[0], a[1])])
        if ':' in user:
            user = user.replace(':', '')
    elif kind == 'fullwidth_colon':
        user, pw = user.replace(':', ''), pw.replace(':', '')
    elif kind == 'colon_user':
        cu = [(u, p) for u, p in cfg['users'] if ':' in u]
        if cu:
            user, pw = cu[0]
        else:
            user = user + ':' + 'x'
        conforming = False
    elif kind == 'wire_other_charset':
        enc = 'latin-1' if enc == 'utf-8' else 'utf-8'
        conforming = False
    elif kind == 'empty_creds':
        user, pw = rng.choice([('', ''), ('', pw), (user, ''), ('', ':'), (' ', ' '), ('mallory', ''), ('nobody', 'None'),
                               ('mallory', ''), (user + 'x', '')])
        conforming = False
    elif kind == 'rfc2047' and rng.random() < 0.3:
        pw = other_password(rng, cfg, user, pw)
    cred = user + ':' + pw
    if kind == 'fullwidth_colon':
        cred = user + rng.choice(['\uff1a', '\ufe55', '\ua789', '\u02d0']) + pw      # no ASCII colon anywhere
        wellformed, conforming = None, False
    if kind == 'no_colon':
        cred = rng.choice([user + pw, user, '', user + ';' + pw])
        wellformed, conforming = None, False
    try:
        raw = cred.encode(enc)
    except UnicodeEncodeError:
        enc = 'utf-8'
        raw = cred.encode(enc)
        conforming = False
    if kind == 'raw_bytes':
        raw = rng.choice([b'\xff\xfe:\xff', b'\xc3:\xa9', b'\xed\xa0\x80:x', raw + b'\xff', b'\xc0\xaf:' + raw,
                          b'\xf4\x90\x80\x80:p'])
        conforming, wellformed = False, None
    b64 = base64.b64encode(raw).decode('ascii')
    raws = [raw]
    if kind == 'scheme':
        sch = rng.choice(['basic', 'BASIC', 'BaSiC', 'Basicx', 'Basi', 'Digest', 'Bearer', 'Negotiate', 'bare-Basic',
                          'bare-Bearer', 'basic-space', 'empty', 'Basic-tab', 'digest-creds', 'Basıc', 'BASİC',
                          'Basic:'])
        kind += ':' + sch
        if sch in ('basic', 'BASIC', 'BaSiC'):
            scheme = sch
        elif sch in ('Basicx', 'Basi', 'Digest', 'Bearer', 'Negotiate', 'Basıc', 'BASİC', 'Basic:'):
            scheme = sch
            raws, conforming = [], False
        elif sch == 'bare-Basic':
            text, raws, conforming, wellformed = 'Basic', [], False, None
        elif sch == 'bare-Bearer':
            text, raws, conforming, wellformed = 'Bearer', [], False, None
        elif sch == 'basic-space':
            text, raws, conforming, wellformed = 'Basic ', [], False, None
        elif sch == 'empty':
            text, raws, conforming, wellformed = '', [], False, None
        elif sch == 'Basic-tab':
            text, raws, conforming, wellformed = 'Basic\t' + b64, [], False, None
        elif sch == 'digest-creds':
            text = 'Digest username="%s", realm="%s", nonce="1:x", uri="/", response="%s"' % (user, cfg['realm'], md5(raw))
            raws, conforming = [], False
    elif kind == 'b64_break':
        how = rng.choice(['drop-last', 'drop-pad', 'add-char', 'drop-first', 'non-ascii', 'pad-mid', 'only-pad',
                          'urlsafe', 'drop-2'])
        kind += ':' + how
        if how == 'drop-last':
            b64 = b64[:-1]
        elif how == 'drop-pad':
            b64 = b64.rstrip('=') if b64.endswith('=') else b64[:-1]
        elif how == 'add-char':
            b64 = b64.rstrip('=') + 'A'
        elif how == 'drop-first':
            b64 = b64[1:]
        elif how == 'non-ascii':
            i = rng.randrange(len(b64) + 1)
            b64 = b64[:i] + rng.choice('\xe9\xff\x80') + b64[i:]
        elif how == 'pad-mid':
            i = rng.randrange(len(b64) + 1)
            b64 = b64[:i] + rng.choice(['=', '==', '===']) + b64[i:]
        elif how == 'only-pad':
            b64 = rng.choice(['=', '==', '====', 'A', 'A=', 'AA=', 'AA', 'AAA'])
        elif how == 'urlsafe':
            b64 = base64.urlsafe_b64encode(raw).decode('ascii')
        elif how == 'drop-2':
            b64 = b64[:-2]
        # what such a payload can mean at most: the intended bytes, any prefix of them, or what a lenient decoder
        # makes of the text
        raws = [raw[:i] for i in range(len(raw) + 1)]
        try:
            raws.append(base64.b64decode(b64.encode('ascii', 'ignore')))
        except (binascii.Error, ValueError):
            pass
        for k_ in range(1, 4):
            try:
                raws.append(base64.b64decode(b64.encode('ascii', 'ignore') + b'=' * k_))
            except (binascii.Error, ValueError):
                pass
        conforming, wellformed = False, None
    elif kind == 'b64_junk':
        i = rng.randrange(len(b64) + 1)
        b64 = b64[:i] + rng.choice([' ', '-', '_', '!', '\t', '  ', '.', '*', '~', ',']) + b64[i:]
        conforming, wellformed = False, None
        try:
            raws.append(base64.b64decode(b64.encode('ascii')))
        except (binascii.Error, ValueError):
            pass
    if text is None:
        sep = ' '
        if kind == 'spacing':
            sep = rng.choice(['  ', '   ', ' \t'])
            conforming, wellformed = False, None
        text = scheme + sep + b64
        if kind == 'spacing' and rng.random() < 0.4:
            text += rng.choice([' ', ' extra', '\t'])
            raws.append(raw + b'\x00')
            try:
                raws.append(base64.b64decode(text.split(' ', 1)[1].encode('ascii')))
            except (binascii.Error, ValueError):
                pass
    if kind == 'rfc2047':
        # Request.process_headers decodes RFC 2047 words before the tool sees the value
        how = rng.choice(['whole', 'whole', 'params', 'scheme-word', 'two-words', 'undecodable', 'nonlatin',
                          'marker-tail'])
        kind += ':' + how
        conforming, wellformed = False, None
        plain_text = text
        e = rng.choice('qQbB')
        cs = rng.choice(['utf-8', 'us-ascii', 'iso-8859-1'])
        if how == 'whole':
            text = enc_word(plain_text, cs, e)
        elif how == 'params':
            text = 'Basic ' + enc_word(b64, cs, e)
        elif how == 'scheme-word':
            text = enc_word(rng.choice(['Basic', 'basic', 'BASIC']), cs, e) + ' ' + b64
        elif how == 'two-words':
            cut = rng.randrange(1, len(plain_text))
            text = enc_word(plain_text[:cut], cs, e) + ' ' + enc_word(plain_text[cut:], cs, rng.choice('qb'))
        elif how == 'undecodable':
            text = rng.choice(['Basic =?x-no-such-charset?q?' + b64.replace('=', '=3D') + '?=',
                               'Basic =?utf-8?b?A?=' + b64, '=?utf-8?q?=FF?= ' + plain_text,
                               plain_text + ' =?ascii?q?=E9?='])
            raws = []
        elif how == 'nonlatin':
            text = rng.choice(['Basic ' + enc_word('\u4e2d' + b64, 'utf-8', e),
                               enc_word('BAS\u0130C', 'utf-8', e) + ' ' + b64,
                               'Basic ' + b64[:4] + enc_word('\u0142', 'utf-8', 'q') + b64[4:]])
            raws = []
        elif how == 'marker-tail':
            # "=?" without a complete encoded word: the decoder leaves the value alone; base64 skips "?"
            text = plain_text + rng.choice(['=?', ' =?', '=?x', '=?=?'])
        agree, decoded = rfc2047_agree(text.strip())
        if not agree:
            return None
        for reading in (decoded, text.strip()):
            if reading and ' ' in reading:
                try:
                    raws.append(base64.b64decode(reading.split(' ', 1)[1].encode('ascii')))
                except (binascii.Error, ValueError):
                    pass
    if kind == 'no_header':
        text, raws, conforming = None, [], False
    header = None
    if text is not None:
        header = wire(text, 'utf-8' if ord(max(text or ' ')) > 255 else 'latin-1')
        if '=?' in header and not rfc2047_agree(header.strip())[0]:
            return None
    # completeness is demanded for NFC-stable credentials sent in the announced charset
    expect = None
    store = {u: p for u, p in cfg['users']}
    if conforming and wellformed is True and raws:
        try:
            s = raw.decode(server_codec)
        except UnicodeDecodeError:
            s = None
        if server_codec == 'ascii' and s is None:
            conforming = False
        if s is not None:
            t = unicodedata.normalize('NFC', s)
            if ':' in t:
                u_, p_ = t.split(':', 1)
                if p_ != '' and store.get(u_) == p_:
                    expect = u_
    case = {'cfg': cfg, 'kind': kind, 'method': rng.choice(METHODS), 'body': '', 'now': now, 'header': header,
            'raws': [r.decode('latin-1') for r in raws], 'conforming': conforming, 'wellformed': wellformed,
            'expect_login': expect, 'sent': cred if text is not None and kind.split(':')[0] not in ('scheme',) else None}
    if refused_config(cfg):
        case.update({'oracle': 'sound', 'conforming': False, 'wellformed': None, 'expect_login': None})
    return case


def gen_batch(rng, world):
    """One configuration and 12-30 cases against it."""
    tool = rng.choice(['digest', 'digest', 'digest', 'basic', 'basic'])
    cfg = gen_cfg(rng, tool)
    out = []
    n = rng.randint(12, 30)
    tries = 0
    while len(out) < n and tries < 200:
        tries += 1
        c = gen_digest_case(rng, cfg, world) if tool == 'digest' else gen_basic_case(rng, cfg, world)
        if c is not None:
            out.append(c)
    return out


def gen_store_change(rng, world):
    """The credential store changes between two requests (an htdigest file re-written by the administrator: one
    password changed, one user removed, one added; the new file's mtime equal to / older than / newer than the old
    one's - `cp -p`, `rsync -t`, a restored backup).  "Verify against the configured store" means the store as it is
    when the request arrives: credentials that were right before the change and are wrong now must not be admitted,
    the new ones must.  Every case is self-contained (`pre_store`: old configuration, one well-formed request that
    makes the server read the old file, how the new file is dated), so it replays alone."""
    import copy
    for _ in range(50):
        a = gen_cfg(rng, 'digest')
        if a.get('store') == 'htdigest' and a['users'] and not refused_config(a):
            break
    else:
        return []
    a.pop('debug', None)
    b = copy.deepcopy(a)
    u0, p0 = b['users'][0]
    b['users'][0] = [u0, p0 + '-changed']
    removed = b['users'].pop() if len(b['users']) > 1 else None
    b['users'].append(['newcomer', 'fresh pw'])
    lines = []
    for u, r, h in b['htlines']:
        if r == b['realm'] and u == u0:
            h = ha1_of(u0, b['realm'], p0 + '-changed')
        if removed is not None and r == b['realm'] and u == removed[0]:
            continue
        lines.append([u, r, h])
    lines.append(['newcomer', b['realm'], ha1_of('newcomer', b['realm'], 'fresh pw')])
    b['htlines'] = lines
    b['store_rev'] = 2          # (distinguishes the two configurations when nothing else does)
    warm = None
    for _ in range(40):
        w = gen_digest_case(rng, a, world, kind='ok')
        if w is not None and w['conforming'] and w['wellformed'] is True and w.get('sent_qop') != 'auth-int':
            warm = {k: w[k] for k in ('header', 'method', 'body', 'now')}
            break
    if warm is None:
        return []
    out = []
    for mode in ('same_mtime', 'older_mtime', 'newer_mtime'):
        pre = {'cfg': a, 'warm': warm, 'mode': mode}
        n = 0
        for _ in range(60):
            if n >= 8:
                break
            # credentials that are right under the NEW store ...
            c = gen_digest_case(rng, b, world, kind=rng.choice(['ok', 'ok', 'wrong_password', 'unknown_user']))
            if c is None:
                continue
            c['pre_store'] = pre
            c['kind'] = 'store_changed:%s:%s' % (mode, c['kind'])
            out.append(c)
            n += 1
        n = 0
        for _ in range(60):
            if n >= 6:
                break
            # ... and credentials that were right under the OLD store, judged against the new one
            c = gen_digest_case(rng, a, world, kind='ok')
            if c is None:
                continue
            c['cfg'] = b
            c['pre_store'] = pre
            c['kind'] = 'store_changed:%s:old_credentials' % mode
            used = [x.get('username') for x in (c['cands'] or [])]
            if any(secret(a, x) is not None and secret(a, x) != secret(b, x) for x in used):
                c['conforming'] = False      # (no longer correct credentials: admission is not demanded, refusal is)
            out.append(c)
            n += 1
    return out


# ----------------------------------------------------------------------------------------------
# cross-checks of the driver's concrete primitives
# ----------------------------------------------------------------------------------------------
def _T(s):
    return '-' if s == '' else '.'.join(str(ord(c)) for c in s)


def _unT(t):
    return '' if t == '-' else ''.join(chr(int(x)) for x in t.split('.'))


def _hx(b):
    return '-' if not b else b.hex()


def prim_cases(rng, n):
    import urllib.request as u
    lines, exp = [], []
    for i in range(n // 10):
        b = bytes(rng.randrange(256) for _ in range(rng.choice([0, 1, 2, 3, 55, 56, 57, 63, 64, 65, 119, 120, 128, 200])))
        lines.append('md5 ' + _hx(b))
        exp.append(hashlib.md5(b).hexdigest())
    alpha = 'ABCDabcd0189+/==== -_\x80\xe9'
    for i in range(n // 3):
        s = ''.join(rng.choice(alpha) for _ in range(rng.randrange(0, 12)))
        lines.append('b64 ' + _T(s))
        try:
            exp.append('ok ' + _hx(base64.b64decode(s.encode('ascii'))))
        except ValueError:
            exp.append('err')
    for i in range(n // 10):
        b = bytes(rng.randrange(256) for _ in range(rng.randrange(0, 9)))
        lines.append('b64enc ' + _hx(b))
        exp.append(_T(base64.b64encode(b).decode('ascii')))
    pool = [0x41, 0xc3, 0xa9, 0xe2, 0x82, 0xac, 0xf0, 0x9f, 0x98, 0x80, 0xed, 0xa0, 0x80, 0xc0, 0xaf, 0xf4, 0x90, 0xff]
    for i in range(n // 5):
        b = bytes(rng.choice(pool) for _ in range(rng.randrange(0, 6)))
        lines.append('utf8 ' + _hx(b))
        try:
            exp.append('ok ' + _T(b.decode('utf-8')))
        except ValueError:
            exp.append('err')
    ialpha = '0123456789_+- \t\xa0٣٩x\U0001d7d8'
    for i in range(n // 5):
        s = ''.join(rng.choice(ialpha) for _ in range(rng.randrange(0, 7)))
        lines.append('int ' + _T(s))
        try:
            exp.append(str(int(s)))
        except ValueError:
            exp.append('N')
    for s in ['9' * 4300, '9' * 4301, ' ' + '0' * 4301]:
        lines.append('int ' + _T(s))
        try:
            exp.append(str(int(s)))
        except ValueError:
            exp.append('N')
    salpha = ' \t\xa0\x85 ab\x1c'
    for i in range(n // 20):
        s = ''.join(rng.choice(salpha) for _ in range(rng.randrange(0, 7)))
        lines.append('strip ' + _T(s))
        exp.append(_T(s.strip()))
    calpha = 'abzAZ5-\xdfıſﬁK\xe9İ\xb5'
    for i in range(n // 20):
        s = ''.join(rng.choice(calpha) for _ in range(rng.randrange(0, 5)))
        for op, f in (('upper', str.upper), ('lower', str.lower)):
            lines.append('%s %s' % (op, _T(s)))
            r = f(s)
            exp.append(_T(r) if r.isascii() else (lambda o: not _unT(o).isascii()))
    palpha = 'ab=",\\ \xa0='
    for i in range(n // 3):
        s = ''.join(rng.choice(palpha) for _ in range(rng.randrange(0, 10)))
        lines.append('parse ' + _T(s))
        try:
            d = u.parse_keqv_list(u.parse_http_list(s))
        except ValueError:
            exp.append('ValueError')
            continue
        except IndexError:
            exp.append('IndexError')
            continue

        def same(o, d=d):
            if not o.startswith('ok '):
                return False
            got = {}
            if o[3:] != '_':
                for p in o[3:].split(','):
                    a, b = p.split('~')
                    got[_unT(a)] = _unT(b)
            return got == d
        exp.append(same)
    return lines, exp
