"""Which lines of the anchored functions of cherrypy/_cpreqbody.py did the correspondence run execute?

`sys.monitoring` LINE events (CPython 3.12), every location reported once and then disabled, so the cost is one
callback per distinct line executed in the process.  Shared by the C04 and C05 harness modules.
"""
import sys
import types

_STATE = {'tool': None, 'hits': set(), 'suffix': None}


def start(suffix='_cpreqbody.py'):
    mon = getattr(sys, 'monitoring', None)
    if mon is None or _STATE['tool'] is not None:
        return False
    for tool in (3, 4, 1, 5):
        try:
            mon.use_tool_id(tool, 'verif-reqbody-cov')
        except ValueError:
            continue
        _STATE['tool'] = tool
        break
    else:
        return False
    _STATE['suffix'] = suffix
    hits = _STATE['hits']

    def on_line(code, line):
        if code.co_filename.endswith(suffix):
            hits.add((code.co_qualname, line))
        return mon.DISABLE
    mon.register_callback(_STATE['tool'], mon.events.LINE, on_line)
    mon.set_events(_STATE['tool'], mon.events.LINE)
    return True


def stop():
    mon = getattr(sys, 'monitoring', None)
    tool = _STATE['tool']
    if mon is None or tool is None:
        return
    mon.set_events(tool, 0)
    mon.register_callback(tool, mon.events.LINE, None)
    mon.free_tool_id(tool)
    _STATE['tool'] = None


def _code_objects(code):
    yield code
    for c in code.co_consts:
        if isinstance(c, types.CodeType):
            yield from _code_objects(c)


def not_executed(module, wanted):
    """Lines (with their text) of the functions whose qualified name starts with one of `wanted` that no
    monitored run executed.  Docstring-only and `def` lines are not lines of the body."""
    import inspect
    import linecache
    try:
        src = inspect.getsource(module)
    except (OSError, TypeError):
        return ['<source of %s not available>' % getattr(module, '__name__', module)]
    top = compile(src, module.__file__, 'exec')
    hits = _STATE['hits']
    out = []
    for code in _code_objects(top):
        q = code.co_qualname
        if not any(q == w or q.startswith(w + '.') for w in wanted):
            continue
        if not code.co_flags & inspect.CO_NEWLOCALS:
            continue                # a class body, not a function
        lines = sorted({ln for _, _, ln in code.co_lines() if ln is not None and ln != code.co_firstlineno})
        for ln in lines:
            if (q, ln) in hits:
                continue
            text = linecache.getline(module.__file__, ln).strip()
            if not text or text.startswith(('"""', "'''", '#')) or text.startswith(('def ', 'class ', '@')):
                continue
            if any(isinstance(c, types.CodeType) and c.co_firstlineno == ln for c in code.co_consts):
                continue
            out.append('%s:%d: %s' % (q, ln, text[:100]))
    return out
