"""C07 (round 2) - differential streams for the models of CpModel/ParseTok.lean.

Every model function is compared with the real code on generated inputs on every run:

  phdr     parse_header                                   (cherrypy._private_api.compat.headers)
  hsplit   RE_HEADER_SPLIT.split                          (cherrypy.lib.httputil)
  helems   header_elements: outcome class + the multiset of elements (value, params, nested q element)
  dinit    HttpDigestAuthorization.__init__ after the stdlib tokenizer: ok | exception class
  dflow    digest_auth: the status of a request to a tools.auth_digest resource, from what an independent
           re-computation (this module) finds out about scheme / nonce / user / digest / staleness
  respenc  HeaderMap.output() for one str value on a header map prepared like Request.run does, both protocols:
           ok + bytes | ValueError;  respcls: the class used by the generated table
"""
import hashlib
import json

from . import common
from . import c07_app as app
from . import c07_gen as gen


def T(s):
    return '.'.join(str(ord(ch)) for ch in s) or '-'


def in_domain(s):
    return all(ord(c) <= 0xFF for c in s)


# ----------------------------------------------------------------------------------------------
# header tokenising
# ----------------------------------------------------------------------------------------------
NAMES = ['Accept', 'Accept-Charset', 'Accept-Encoding', 'Accept-Language', 'TE', 'Te', 'Cache-Control', 'If-Match',
         'If-None-Match', 'Content-Type', 'Content-Disposition', 'Acceptx', 'accept', 'Pragma', 'Accep', 'X-Accept']
ALPHABET = ['a', 'q', 'Q', ';', ';', '=', ',', '"', '"', '\\', ' ', '\t', '0', '.', '5', 'x', '\xa0', '\xe9', '*', '/', '-', '1',
            '\xc0', '\x85', '_', 'e', '\x1f', 'A', 'Z', '\xd7', '\xde', '+']


def gen_value(rng):
    r = rng.random()
    if r < 0.30:
        return ''.join(gen.pick(rng, ALPHABET) for _ in range(rng.choice([0, 1, 2, 3, 5, 8, 12, 20])))
    if r < 0.45:
        return gen.gen_accept(rng, gen.pick(rng, [gen.MEDIA, gen.CHARSET_VALUES[:8], gen.CODINGS, gen.LANGS]))
    if r < 0.55:
        return gen.gen_content_type(rng)
    if r < 0.65:
        return gen.pick(rng, gen.DISPOSITIONS)
    if r < 0.72:
        return gen.gen_etag_list(rng)
    if r < 0.80:
        return gen.gen_header(rng, 'Cache-Control')
    base = gen.pick(rng, ['text/html;q=0.5, text/plain;q=x', 'a;q=1;ext="x,y", b', 'a; q = 0.5 ; x=1,b;Q=2', 'a;b="c;d";q=1',
                          'a;b="c\\";d";e=f', 'x; y="\\\\"; z="\\""', 'a,"b,c",d', 'a;q="1"', 'a;q=1;q=2', 'a;q=0.5;Q=x',
                          'gzip;q=x,identity', 'gzip;q=x', 'a;;b', ';q=1', 'a;=b', 'a;b=', 'a;b==c', ',', ',,', 'a,',
                          'a; q=0.5 , b ;q=', 'a;q', 'a;q =', 'a;  q  =  1', 'a;\tq=1', 'a;q=1 , b;q=\xa01',
                          'A;B=C;b=d', 'a;\xc9=1;\xe9=2', '"a;q=x,b"', '"a', 'a"b,c"d,e'])
    return base


def canon_params(d):
    return ' '.join('%s=%s' % (T(k), T(v)) for k, v in d.items())


def canon_elem(e):
    from cherrypy.lib import httputil
    parts = [T(e.value)]
    for k, v in e.params.items():
        if isinstance(v, httputil.HeaderElement):
            pv = 'E:' + ','.join([T(v.value)] + ['%s:%s' % (T(k2), T(v2)) for k2, v2 in v.params.items()])
        else:
            pv = 'S:' + T(v)
        parts.append('%s=%s' % (T(k), pv))
    return ';'.join(parts)


def real_helems(name, value):
    import cherrypy
    from cherrypy.lib import httputil
    try:
        els = httputil.header_elements(name, value)
    except cherrypy.HTTPError as e:
        return 'http:%d' % e.status
    except Exception as e:          # noqa: the class is the observation
        return 'err:' + type(e).__name__
    return ('ok ' + ' '.join(sorted(canon_elem(e) for e in els))).strip()


def canon_model_helems(line):
    if not line.startswith('ok'):
        return line
    return ('ok ' + ' '.join(sorted(line.split(' ')[1:]))).strip()


def _moved(ctx, what, e):
    """An anchored function is not where the model was transcribed from: the stream cannot compare anything (the
    request streams still judge the property); recorded, not an error of the harness."""
    ctx.note('%s: %s (%s) - stream skipped' % (what, type(e).__name__, e))
    ctx.count('stream-skipped:' + what)


def tok_stream(ctx, n):
    from cherrypy.lib import httputil
    have = {'phdr': True, 'hsplit': True, 'helems': True}
    try:
        from cherrypy._private_api.compat.headers import parse_header
    except (ImportError, AttributeError) as e:
        have['phdr'] = False
        _moved(ctx, 'parse_header', e)
    for kind, attr in (('hsplit', 'RE_HEADER_SPLIT'), ('helems', 'header_elements')):
        if not hasattr(httputil, attr):
            have[kind] = False
            _moved(ctx, attr, AttributeError(attr))
    rng = ctx.rng
    cases = []
    for i in range(n):
        v = gen_value(rng)
        if rng.random() < 0.3:
            v = gen.mutated(rng, v, 0.8)
        v = gen.sanitize(v)
        if len(v) > 400:
            v = v[:400]
        if not in_domain(v):
            continue
        k = i % 3
        if k == 0:
            cases.append(('phdr %s' % T(v), ('phdr', v)))
        elif k == 1:
            name = gen.pick(rng, NAMES)
            cases.append(('helems %s %s' % (T(name), T(v)), ('helems', name, v)))
        else:
            cases.append(('hsplit %s' % T(v), ('hsplit', v)))
    cases = [c for c in cases if have[c[1][0]]]
    out = ctx.model([c[0] for c in cases])
    for i, (line, desc) in enumerate(cases):
        def one(desc=desc):
            try:
                if desc[0] == 'phdr':
                    key, d = parse_header(desc[1])
                    return (T(key) + ' ' + canon_params(d)).strip()
                if desc[0] == 'hsplit':
                    return ' '.join(T(x) for x in httputil.RE_HEADER_SPLIT.split(desc[1]))
                return real_helems(desc[1], desc[2])
            except Exception as e:        # noqa: a tokenizer that raises is an observation
                return 'err:' + type(e).__name__
        real = app.guarded(one)
        if real == app.SKIPPED:
            continue
        ctx.case({'tok': list(desc)}, nontrivial=True, key=line)
        ctx.count('tok:%s:%s' % (desc[0], real.split(' ')[0] if desc[0] == 'helems' else ('err' if real.startswith('err:') else 'ok')))
        if real.startswith('err:'):
            # the statement: tokenising client text raises nothing but HTTPError(4xx)
            ctx.oracle_fail({'tok': list(desc)}, '%s on %r raised %s' % (desc[0], desc[1:], real[4:]),
                            'tokenizer:%s:%s' % (desc[0], real[4:]))
            continue
        if out is None:
            continue
        ctx.compared()
        model = canon_model_helems(out[i]) if desc[0] == 'helems' else out[i]
        if model != real:
            ctx.disagree({'tok': list(desc), 'line': line}, real, model, 'tokenizer %s: result differs' % desc[0])


# ----------------------------------------------------------------------------------------------
# Digest Authorization
# ----------------------------------------------------------------------------------------------
FIELDS = ['realm', 'username', 'nonce', 'uri', 'response', 'algorithm', 'cnonce', 'qop', 'nc']


def md5hex(s):
    return hashlib.md5(s.encode('utf-8', 'surrogateescape')).hexdigest()


def seen_by_tool(header):
    """The Authorization value as the tool reads it from request.headers: an RFC 2047 word is decoded by
    process_headers (independent decoder: the stdlib's)."""
    if header.startswith('=?') and header.endswith('?=') and header.count('=?') == 1:
        from email.header import decode_header
        try:
            parts = decode_header(header)
            text = ''.join(p.decode(cs or 'latin-1') if isinstance(p, bytes) else p for p, cs in parts)
        except Exception:
            return None
        if any(0xD800 <= ord(c) <= 0xDFFF for c in text):
            return None     # a word that decodes to lone surrogates is refused before any tool runs (774570e)
        return text
    if '=?' in header:
        return None         # mixed text: leave those to the oracle
    return header


def digest_view(header):
    """What an independent reading of the header (RFC 2617 + the stdlib tokenizer) says about it."""
    from urllib.request import parse_http_list, parse_keqv_list
    v = {'scheme': header.partition(' ')[0].lower() == 'digest', 'decode': True, 'params': True, 'tok': None, 'd': {}}
    if not v['scheme']:
        return v
    try:
        raw = header.encode('latin-1')
    except UnicodeEncodeError:
        v['decode'] = False
        return v
    try:
        dec = raw.decode('utf-8')
    except UnicodeDecodeError:
        dec = raw.decode('latin-1')
    if ' ' not in dec:
        v['params'] = False
        return v
    try:
        d = parse_keqv_list(parse_http_list(dec.split(' ', 1)[1]))
    except Exception as e:     # noqa: the class is the tokenizer's outcome
        from . import c07
        v['tok'] = 'E:' + c07._cls_name(e)
        return v
    v['tok'] = 'P'
    v['d'] = d
    return v


def digest_env(d, method, now):
    """nonce genuine? user known? digest right? nonce stale?  (RFC 2617, independent of auth_digest)"""
    nonce = d.get('nonce') or ''
    ts, sep, h = nonce.partition(':')
    nonce_valid = bool(sep) and md5hex('%s:%s:%s' % (ts, app.REALM, app.DIGEST_KEY)) == h
    user = d.get('username')
    pw = app.USERS.get(user)
    user_known = pw is not None
    matches = False
    if user_known:
        ha1 = md5hex('%s:%s:%s' % (user, app.REALM, pw))
        if (d.get('algorithm') or 'MD5').upper() == 'MD5-SESS':
            ha1 = md5hex('%s:%s:%s' % (ha1, nonce, d.get('cnonce')))
        ha2 = md5hex('%s:%s' % (method, d.get('uri')))
        if d.get('qop'):
            want = md5hex('%s:%s' % (ha1, '%s:%s:%s:%s:%s' % (nonce, d.get('nc'), d.get('cnonce'), d.get('qop'), ha2)))
        else:
            want = md5hex('%s:%s' % (ha1, '%s:%s' % (nonce, ha2)))
        matches = want == d.get('response')
    try:
        stale = not (int(ts) + 600 > now)
    except ValueError:
        stale = True
    return nonce_valid, user_known, matches, stale


def fields_of(d):
    return ' '.join('%s=%s' % (k, T(d[k])) for k in FIELDS if k in d)


def dflow_line(header, method, now):
    """(driver line | None when outside the model's domain)"""
    seen = seen_by_tool(header)
    if seen is None:
        return None
    v = digest_view(seen)
    d = v['d']
    if any(not all(ord(c) < 0x110000 and not (0xD800 <= ord(c) <= 0xDFFF) for c in str(x)) for x in d.values()):
        return None
    alg = d.get('algorithm')
    if alg is not None and any(ord(c) >= 128 for c in alg):
        return None        # str.upper() beyond ASCII (sharp s -> SS ...) is outside the model
    env = digest_env(d, method, now) if v['tok'] == 'P' else (False, False, False, False)
    bits = ''.join('1' if b else '0' for b in (v['scheme'], v['decode'], v['params']))
    ebits = ''.join('1' if b else '0' for b in env)
    return ('dflow %s %s %s %s' % (bits, v['tok'] or 'P', ebits, fields_of(d))).strip()


class DigestFlow(object):
    """Collects (case, real status, driver line) of requests to the digest resource; compared in one batch."""

    def __init__(self):
        self.items = []

    def observe(self, case, obs):
        if obs.get('skipped'):
            return
        sent = obs.get('sent') or case
        if sent['path'] not in ('/digest', '/d/digest', '/digest/x', '/d/digest/x'):
            return
        # only requests in which nothing but the Authorization header can matter
        if sent.get('qs', '') not in ('', 'a=1', 'q=' + gen.wire('\u20ac')) or sent.get('body', '') not in ('', 'a=1'):
            return
        hs = sent.get('headers') or []
        if dict((h[0].lower(), h[1]) for h in hs).get('content-type', 'application/x-www-form-urlencoded') \
                != 'application/x-www-form-urlencoded':
            return
        names = [h[0].lower() for h in hs]
        if any(n not in ('host', 'authorization', 'content-type', 'content-length') for n in names):
            return
        if names.count('authorization') != 1 or names.count('host') != 1:
            return
        if dict((h[0].lower(), h[1]) for h in hs).get('host') != 'localhost:8080':
            return
        # request.methods_with_bodies: the body is processed (411 without a length) before the tool runs; a
        # Content-Length, when there is one, is the plain number
        cl = dict((h[0].lower(), h[1]) for h in hs).get('content-length')
        if cl is not None and cl != str(len(sent.get('body', ''))):
            return
        if sent['method'].upper() in ('POST', 'PUT', 'PATCH') and cl is None:
            return
        if obs['status'] >= 598:
            return
        # Request.process_headers: value.strip() (str.strip: NBSP, NEL ... count as white space)
        header = [h[1] for h in hs if h[0].lower() == 'authorization'][0].strip()
        line = dflow_line(header, sent['method'], app.FIXED_NOW + (case.get('clock') or 0))
        if line is None:
            return
        self.items.append((case, 500 if obs['status'] >= 500 else obs['status'], line))

    def flush(self, ctx):
        if not self.items:
            return
        out = ctx.model([it[2] for it in self.items])
        for (case, status, line), m in zip(self.items, out or []):
            ctx.compared()
            ctx.count('dflow:%s' % status)
            if m != str(status):
                ctx.disagree(dict(case, line=line), status, m, 'digest_auth: status differs from the model')
        self.items = []


def bflow_line(header):
    """Driver line for a request to the Basic resource: what RFC 7617 + the stdlib say about the header."""
    import base64
    import unicodedata
    from . import c07
    if header is None:
        return 'bflow 000000 -'
    seen = seen_by_tool(header)
    if seen is None:
        return None
    has_space = ' ' in seen
    scheme, _, params = seen.partition(' ')
    basic = scheme.lower() == 'basic'
    asc = params.isascii()
    b64, colon, ok = '-', False, False
    if has_space and basic and asc:
        try:
            raw = base64.b64decode(params.encode('ascii'))
            try:
                text = raw.decode('utf-8')
            except UnicodeDecodeError:
                text = raw.decode('latin-1')
            text = unicodedata.normalize('NFC', text)
            colon = ':' in text
            if colon:
                user, pw = text.split(':', 1)
                ok = app.USERS.get(user) == pw
        except Exception as e:     # noqa: the class is the decoder's outcome
            b64 = c07._cls_name(e)
    bits = ''.join('1' if b else '0' for b in (True, has_space, basic, asc, colon, ok))
    return 'bflow %s %s' % (bits, b64)


class BasicFlow(object):
    def __init__(self):
        self.items = []

    def observe(self, case, obs):
        if obs.get('skipped'):
            return
        sent = obs.get('sent') or case
        if sent['path'] not in ('/basic', '/d/basic') or sent.get('qs') or sent.get('body'):
            return
        hs = sent.get('headers') or []
        names = [h[0].lower() for h in hs]
        if any(n not in ('host', 'authorization', 'content-type', 'content-length') for n in names) or names.count('host') != 1:
            return
        hd = dict((h[0].lower(), h[1]) for h in hs)
        if sent['method'].upper() in ('POST', 'PUT', 'PATCH') and hd.get('content-length') != '0':
            return
        if hd.get('host') != 'localhost:8080' or names.count('authorization') > 1 or hd.get('content-length', '0') != '0' \
                or hd.get('content-type', 'application/x-www-form-urlencoded') != 'application/x-www-form-urlencoded':
            return
        if obs['status'] >= 598:
            return
        header = hd.get('authorization')
        line = bflow_line(header.strip() if header is not None else None)
        if line is None:
            return
        self.items.append((case, 500 if obs['status'] >= 500 else obs['status'], line))

    def flush(self, ctx):
        if not self.items:
            return
        out = ctx.model([it[2] for it in self.items])
        for (case, status, line), m in zip(self.items, out or []):
            ctx.compared()
            ctx.count('bflow:%s' % status)
            if m != str(status):
                ctx.disagree(dict(case, line=line), status, m, 'basic_auth: status differs from the model')
        self.items = []


def dinit_stream(ctx, n):
    """HttpDigestAuthorization.__init__ alone: generated parameter dictionaries, outcome class vs model."""
    try:
        from cherrypy.lib import auth_digest
        auth_digest.HttpDigestAuthorization
    except (ImportError, AttributeError) as e:
        return _moved(ctx, 'digest-init', e)
    rng = ctx.rng
    cases = []
    vals = {'realm': ['realm', '', 'x'], 'username': ['user', '', 'jos\xe9'], 'nonce': ['1:x', ''], 'uri': ['/', ''],
            'response': ['abc', ''], 'algorithm': ['MD5', 'md5', 'MD5-sess', 'md5-SESS', 'SHA-256', '', 'MD5 ', 'x'],
            'cnonce': ['c', ''], 'qop': ['auth', 'auth-int', 'AUTH', '', 'x', 'auth,auth-int'], 'nc': ['00000001', '']}
    for _ in range(n):
        d = {}
        for k in ('realm', 'username', 'nonce', 'uri', 'response'):
            if rng.random() < 0.96:
                d[k] = vals[k][0] if rng.random() < 0.93 else gen.pick(rng, vals[k])
        if rng.random() < 0.6:
            d['algorithm'] = gen.pick(rng, vals['algorithm'][:4] * 3 + vals['algorithm'])
        if rng.random() < 0.6:
            d['qop'] = gen.pick(rng, ['auth', 'auth', 'auth-int'] * 2 + vals['qop'])
            for k in ('cnonce', 'nc'):
                if rng.random() < 0.9:
                    d[k] = vals[k][0] if rng.random() < 0.9 else ''
        else:
            for k in ('cnonce', 'nc'):
                if rng.random() < 0.15:
                    d[k] = gen.pick(rng, vals[k])
        hdr = 'Digest ' + ', '.join('%s="%s"' % (k, v) for k, v in d.items())
        cases.append((d, hdr))
    out = ctx.model([('dinit ' + fields_of(d)).strip() for d, _ in cases])
    for i, (d, hdr) in enumerate(cases):
        def one(hdr=hdr):
            try:
                auth_digest.HttpDigestAuthorization(hdr, 'GET')
                return 'ok'
            except Exception as e:      # noqa
                from . import c07
                return 'err:' + c07._cls_name(e)
        real = app.guarded(one)
        if real == app.SKIPPED:
            continue
        ctx.case({'dinit': d}, nontrivial=True, key='dinit ' + json.dumps(d, sort_keys=True))
        ctx.count('dinit:' + real)
        if out is None:
            continue
        ctx.compared()
        if out[i] != real:
            ctx.disagree({'dinit': d, 'header': hdr}, real, out[i], 'HttpDigestAuthorization.__init__: outcome differs')


# ----------------------------------------------------------------------------------------------
# response header values
# ----------------------------------------------------------------------------------------------
def respenc_stream(ctx, n):
    from . import c07
    rng = ctx.rng
    pool = ['', 'abc', 'h\xe9llo', '€', '\U0001f600', 'a\r\nb', '\x00', 'a\xe9€', '€.example', '\x7f', '\t',
            'http://ключ/x?q=1', 'session_id=日本', ' ', '﻿', 'a' * 300, '\xff' * 40,
            '=?utf-8?b?4oKs?=', '\u0130', 'x\u0301']
    cases = []
    for i in range(n):
        s = gen.pick(rng, pool)
        if rng.random() < 0.5:
            s = ''.join(gen.pick(rng, ['a', ' ', '\xe9', '€', '\U0001f600', '\r', '\n', '\x00', '\x7f', ';', '=', 'к'])
                        for _ in range(rng.choice([0, 1, 2, 3, 5, 9])))
        if any(0xD800 <= ord(c) <= 0xDFFF for c in s):
            continue
        cases.append((bool(i & 1), s))
    out = ctx.model(['respenc %d %s' % (1 if p else 0, T(s)) for p, s in cases])
    cls_out = ctx.model(['respcls %s' % T(s) for _, s in cases])
    for i, (p11, s) in enumerate(cases):
        r = c07.resp_encode_real(p11, s)
        if r == app.SKIPPED:
            continue
        kind, val = r
        real = 'ok ' + (val.hex() or '-') if kind == 'ok' else 'err:' + val
        ctx.case({'respenc': [p11, s]}, nontrivial=True, key='respenc %s %s' % (p11, T(s)))
        ctx.count('respenc:%s:%s' % ('1.1' if p11 else '1.0', kind))
        if kind != 'ok':
            # a response header value that cannot be put on the wire ends as a 5xx: not allowed whatever the text
            ctx.oracle_fail({'respenc': [p11, s]}, 'HeaderMap.output() with protocol %s raised %s for the value %r'
                            % ('(1, 1)' if p11 else '(1, 0)', val, s), 'respenc:' + val)
            continue
        if out is None:
            continue
        ctx.compared()
        if out[i] != real:
            ctx.disagree({'respenc': [p11, s]}, real, out[i], 'HeaderMap.encode_header_item: result differs')
        if cls_out is not None:
            want = resp_cls(s)
            if cls_out[i].split('.')[-1] != want:
                raise common.HarnessError('respcls of %r: harness %s, driver %s' % (s, want, cls_out[i]))


def resp_cls(s):
    if not s:
        return 'empty'
    if any(ord(c) < 32 or ord(c) == 127 for c in s):
        return 'control'
    if all(ord(c) < 128 for c in s):
        return 'ascii'
    if all(ord(c) < 256 for c in s):
        return 'latin1'
    if any(ord(c) >= 65536 for c in s):
        return 'astral'
    if all(ord(c) >= 256 for c in s):
        return 'wide'
    return 'mixed'


def replay_case(ctx, case):
    """Re-run one tok / dinit / respenc case: (real, model)."""
    from cherrypy.lib import httputil, auth_digest
    from cherrypy._private_api.compat.headers import parse_header
    from . import c07
    if 'tok' in case:
        desc = case['tok']
        if desc[0] == 'phdr':
            line = 'phdr %s' % T(desc[1])
            key, d = parse_header(desc[1])
            real = (T(key) + ' ' + canon_params(d)).strip()
        elif desc[0] == 'hsplit':
            line = 'hsplit %s' % T(desc[1])
            real = ' '.join(T(x) for x in httputil.RE_HEADER_SPLIT.split(desc[1]))
        else:
            line = 'helems %s %s' % (T(desc[1]), T(desc[2]))
            real = real_helems(desc[1], desc[2])
        out = ctx.model([line])
        model = out[0] if out else None
        if model is not None and desc[0] == 'helems':
            model = canon_model_helems(model)
    elif 'dinit' in case:
        d = case['dinit']
        hdr = case.get('header') or 'Digest ' + ', '.join('%s="%s"' % (k, v) for k, v in d.items())
        try:
            auth_digest.HttpDigestAuthorization(hdr, 'GET')
            real = 'ok'
        except Exception as e:      # noqa
            real = 'err:' + c07._cls_name(e)
        out = ctx.model([('dinit ' + fields_of(d)).strip()])
        model = out[0] if out else None
    elif 'trailers' in case:
        ls = [l.encode('latin-1') for l in case['trailers']]
        real = real_trailers(ls)
        out = ctx.model(['trailers %s' % (','.join(l.hex() for l in ls) or '_')])
        model = out[0] if out else None
        if real.startswith('err:'):
            ctx.oracle_fail(case, 'SizedReader.finish raised %s' % real[4:], '_cpreqbody:finish:' + real[4:])
    elif 'bind' in case:
        real, model = case.get('bind'), (ctx.model([case['bind']]) or [None])[0]
    elif 'unq' in case:
        from cherrypy._cpreqbody import unquote_plus
        b = case['unq'].encode('latin-1')
        real = unquote_plus(b).hex() or '-'
        model = (ctx.model(['unq %s' % (b.hex() or '-')]) or [None])[0]
    elif 'respenc' in case:
        p11, s = case['respenc']
        kind, val = c07.resp_encode_real(p11, s)
        real = 'ok ' + (val.hex() or '-') if kind == 'ok' else 'err:' + val
        out = ctx.model(['respenc %d %s' % (1 if p11 else 0, T(s))])
        model = out[0] if out else None
        if kind != 'ok':
            ctx.oracle_fail(case, 'HeaderMap.output() raised %s' % val, 'respenc:' + val)
    else:
        raise common.HarnessError('not a tok case: %r' % (sorted(case),))
    ctx.case(case, key=json.dumps(case, sort_keys=True))
    if model is not None:
        ctx.compared()
        if model != real and not real.startswith('err:'):
            ctx.disagree(case, real, model, 'replayed case differs')
    return real, model


# ----------------------------------------------------------------------------------------------
# page handler call: Python's binding + test_callable_spec
# ----------------------------------------------------------------------------------------------
class _Handlers(object):
    def h0(self):
        return b''

    def h1(self, a):
        return b''

    def h2(self, a, b='x'):
        return b''

    def h4(self, a, b, c=1, d=2):
        return b''

    def hv(self, *args):
        return b''

    def hk(self, **kw):
        return b''

    def hvk(self, *args, **kw):
        return b''

    def h2v(self, a, b='x', *rest):
        return b''

    def h2k(self, a, b='x', **kw):
        return b''

    def h1vk(self, a, *args, **kw):
        return b''

    def hd(self, a=1, b=2):
        return b''

    def odd(this, a, **kw):
        return b''


KEY_POOL = ['a', 'b', 'c', 'd', 'zz', 'self', 'this', 'args', 'kw', 'rest', '', 'A', 'a ', '\xe9']


def _tl(xs):
    return ','.join(T(x) for x in xs) or '_'


def bind_line(spec4, npos, kwargs):
    args, varargs, varkw, defaults = spec4
    return 'bind %s %s %d %d%d %d %s' % (T(args[0]), _tl(args[1:]), len(defaults or ()), 1 if varargs else 0, 1 if varkw else 0,
                                       npos, ','.join('%s:%d' % (T(k), 1 if b else 0) for k, b in kwargs) or '_')


def bind_stream(ctx, n):
    import inspect
    import types
    import cherrypy
    try:
        from cherrypy import _cpdispatch
        _cpdispatch.test_callable_spec
    except (ImportError, AttributeError) as e:
        return _moved(ctx, 'callable-spec', e)
    rng = ctx.rng
    hs = _Handlers()
    names = [k for k in vars(_Handlers) if not k.startswith('_')]
    cases = []
    for _ in range(n):
        h = getattr(hs, gen.pick(rng, names))
        npos = rng.choice([0, 0, 1, 1, 2, 3, 5])
        keys = []
        for _i in range(rng.choice([0, 1, 1, 2, 3])):
            k = gen.pick(rng, KEY_POOL)
            if k not in [x[0] for x in keys]:
                keys.append((k, rng.random() < 0.4))
        cases.append((h, npos, keys))
    lines = [bind_line(inspect.getfullargspec(h)[:4], npos, keys) for h, npos, keys in cases]
    out = ctx.model(lines)
    saved = cherrypy.serving.request
    try:
        for i, (h, npos, keys) in enumerate(cases):
            pos = ['p'] * npos
            kw = {k: 'v' for k, _b in keys}
            try:
                h(*pos, **kw)
                fails = 0
            except TypeError:
                fails = 1
            cherrypy.serving.request = types.SimpleNamespace(
                body=types.SimpleNamespace(params={k: 'v' for k, b in keys if b}), show_mismatched_params=True)

            def one(h=h, pos=pos, kw=kw):
                try:
                    _cpdispatch.test_callable_spec(h, pos, kw)
                    return 'reraise'
                except cherrypy.HTTPError as e:
                    return 'http:%d' % e.status
                except Exception as e:      # noqa: the class is the observation
                    return 'exc:' + type(e).__name__
            spec = app.guarded(one, 'exc:Hang')
            if spec == app.SKIPPED:
                continue
            status = 200 if not fails else (500 if spec == 'reraise' else int(spec[5:]) if spec.startswith('http:') else 500)
            real = '%d %s %d' % (fails, spec, status)
            ctx.case({'bind': lines[i]}, nontrivial=True, key=lines[i])
            ctx.count('bind:%s' % real)
            if spec.startswith('exc:'):
                ctx.oracle_fail({'bind': lines[i], 'handler': h.__name__}, 'test_callable_spec raised %s for %s(%d positional, %r)'
                                % (spec[4:], h.__name__, npos, keys), 'callable-spec:' + spec[4:])
                continue
            if out is None:
                continue
            ctx.compared()
            if out[i] != real:
                ctx.disagree({'bind': lines[i], 'handler': h.__name__, 'npos': npos, 'kwargs': keys}, real, out[i],
                             'handler call: binding / test_callable_spec outcome differs')
    finally:
        cherrypy.serving.request = saved


E2E_HANDLERS = {   # path -> (bound, args, ndefaults, varargs, varkw)
    '/args': ('self', ['a', 'b'], 1, False, False), '/noargs': ('self', [], 0, False, False),
    '/obj': ('self', ['a', 'b'], 1, False, False), '/plain': ('self', [], 0, True, True),
    '/form': ('self', [], 0, True, True),
}


def dispatch_e2e(ctx, n):
    """The same through whole requests: path atoms -> positional arguments, query / body keys -> keywords."""
    from . import c07
    rng = ctx.rng
    cases = []
    for _ in range(n):
        path = gen.pick(rng, sorted(E2E_HANDLERS))
        npos = rng.choice([0, 0, 1, 1, 2, 3])
        qkeys, bkeys = [], []
        method = gen.pick(rng, ['GET', 'GET', 'HEAD', 'POST', 'POST', 'PUT', 'DELETE'])
        for _i in range(rng.choice([0, 1, 1, 2])):
            k = gen.pick(rng, ['a', 'b', 'c', 'zz', 'self', 'args', 'kw'])
            if k not in qkeys:
                qkeys.append(k)
        if method in ('POST', 'PUT'):
            for _i in range(rng.choice([0, 1, 1, 2])):
                k = gen.pick(rng, ['a', 'b', 'c', 'zz', 'self', 'args', 'kw'])
                if k not in bkeys:
                    bkeys.append(k)
        req = gen._base('dispatch-e2e', method, path + '/1' * npos, gen.pick(rng, gen.PROTOS),
                        qs='&'.join('%s=1' % k for k in qkeys), body='&'.join('%s=2' % k for k in bkeys))
        kwargs = [(k, True) for k in bkeys] + [(k, False) for k in qkeys if k not in bkeys]
        bound, args, nd, va, vk = E2E_HANDLERS[path]
        line = bind_line(([bound] + args, va, vk, (0,) * nd), npos, kwargs)
        cases.append((req, line))
    out = ctx.model([l for _, l in cases])
    for i, (req, line) in enumerate(cases):
        obs = c07.check_request(ctx, req)
        if out is None or obs['status'] >= 598 or obs.get('skipped'):
            continue
        ctx.compared()
        want = out[i].split(' ')[-1]
        got = 500 if obs['status'] >= 500 else obs['status']
        if str(got) != want:
            ctx.disagree(dict(req, line=line), got, out[i], 'handler call through a request: status differs from the model')


# ----------------------------------------------------------------------------------------------
# SizedReader.finish: trailer lines
# ----------------------------------------------------------------------------------------------
class _TrailerFp(object):
    def __init__(self, lines):
        self.lines = lines

    def read_trailer_lines(self):
        for l in self.lines:
            yield l


def real_trailers(lines):
    import cherrypy
    from cherrypy import _cpreqbody
    from . import c07
    def one():
        r = _cpreqbody.SizedReader(_TrailerFp(lines), None, 0, has_trailers=True)
        try:
            r.finish()
            return 'ok'
        except cherrypy.HTTPError as e:
            return 'http:%d' % e.status
        except Exception as e:      # noqa: the class is the observation
            return 'err:' + c07._cls_name(e)
    return app.guarded(one)


def trailer_stream(ctx, n):
    try:
        from cherrypy import _cpreqbody
        _cpreqbody.SizedReader.finish
    except (ImportError, AttributeError) as e:
        return _moved(ctx, 'trailers', e)
    rng = ctx.rng
    pool = [b'X-T: v\r\n', b'X-T: v\r\n', b'Accept: a\r\n', b'Accept: b\r\n', b'nocolon\r\n', b' continued\r\n', b'\tc\r\n',
            b':\r\n', b'a:b:c\r\n', b'\xe9: \xff\r\n', b'x\r\n', b' \r\n', b'Content-Length: 5\r\n', b': v\r\n', b'X-T:\r\n']
    cases = []
    for _ in range(n):
        cases.append([gen.pick(rng, pool) for _i in range(rng.choice([0, 1, 1, 2, 3, 5]))])
    out = ctx.model(['trailers %s' % (','.join(l.hex() for l in ls) or '_') for ls in cases])
    for i, ls in enumerate(cases):
        real = real_trailers(ls)
        if real == app.SKIPPED:
            continue
        ctx.case({'trailers': [l.decode('latin-1') for l in ls]}, nontrivial=True, key='trailers ' + repr(ls))
        ctx.count('trailers:' + real)
        if real.startswith('err:'):
            ctx.oracle_fail({'trailers': [l.decode('latin-1') for l in ls]},
                            'SizedReader.finish raised %s for the trailer lines %r' % (real[4:], ls),
                            '_cpreqbody:finish:' + real[4:])
        if out is None:
            continue
        ctx.compared()
        if out[i] != real:
            ctx.disagree({'trailers': [l.decode('latin-1') for l in ls]}, real, out[i], 'SizedReader.finish: outcome differs')


# ----------------------------------------------------------------------------------------------
# _cpreqbody.unquote_plus (bytes)
# ----------------------------------------------------------------------------------------------
UNQ_ALPHABET = [b'0', b'9', b'a', b'f', b'A', b'F', b'g', b'G', b' ', b'\t', b'\n', b'\x0b', b'+', b'-', b'_', b'x', b'%',
                b'\xe9', b'\x00', b'\xff', b'1', b'c', b'3']


def unq_stream(ctx, n):
    try:
        from cherrypy._cpreqbody import unquote_plus
    except (ImportError, AttributeError) as e:
        return _moved(ctx, 'unquote_plus', e)
    rng = ctx.rng
    cases = []
    for a in UNQ_ALPHABET:
        cases.append(b'%' + a)
        for b in UNQ_ALPHABET:
            cases.append(b'%' + a + b)
            if rng.random() < 0.3:
                cases.append(b'k' + b'%' + a + b + b'v%' + b + a)
    for _ in range(n):
        cases.append(b''.join(gen.pick(rng, UNQ_ALPHABET + [b'%', b'%', b'%c3', b'%a9']) for _i in range(rng.choice([0, 1, 2, 3, 5, 9]))))
    out = ctx.model(['unq %s' % (c.hex() or '-') for c in cases])
    for i, c in enumerate(cases):
        def one(c=c):
            try:
                return unquote_plus(c).hex() or '-'
            except Exception as e:      # noqa
                return 'err:' + type(e).__name__
        real = app.guarded(one)
        if real == app.SKIPPED:
            continue
        ctx.case({'unq': c.decode('latin-1')}, nontrivial=True, key='unq ' + c.hex())
        ctx.count('unq:' + ('err' if real.startswith('err:') else 'ok'))
        if real.startswith('err:'):
            ctx.oracle_fail({'unq': c.decode('latin-1')}, 'unquote_plus(%r) raised %s' % (c, real[4:]), '_cpreqbody:unquote_plus:' + real[4:])
            continue
        if out is None:
            continue
        ctx.compared()
        if out[i] != real:
            ctx.disagree({'unq': c.decode('latin-1')}, real, out[i], '_cpreqbody.unquote_plus: result differs')


# ----------------------------------------------------------------------------------------------
# size limit (request.body.maxbytes = 1000 on /limit) and the Host rule, through whole requests
# ----------------------------------------------------------------------------------------------
def limit_stream(ctx, n):
    from . import c07
    rng = ctx.rng
    cases = []
    sizes = [0, 1, 2, 997, 998, 999, 1000, 1001, 1002, 1003, 2000, 8192, 8193, 70000]
    for _ in range(n):
        arrived = gen.pick(rng, sizes)
        body = ('a=' + 'x' * max(0, arrived - 2))[:arrived]
        ctype = None
        if rng.random() < 0.3 and arrived >= 80:
            # the same sizes as one multipart field (read line by line: the limit is also checked on buffered bytes)
            head = '--B\r\nContent-Disposition: form-data; name="a"\r\n\r\n'
            tail = '\r\n--B--\r\n'
            body = head + ('x' * 60 + '\r\n') * ((arrived - len(head) - len(tail)) // 62)
            body = body + 'y' * (arrived - len(body) - len(tail)) + tail
            ctype = 'multipart/form-data; boundary=B'
        kind = gen.pick(rng, ['plain', 'plain', 'known', 'chunked'])
        declared = None if kind == 'chunked' else gen.pick(rng, [arrived, arrived, arrived + 5, max(0, arrived - 1), 1000, 1001, 0])
        req = gen._base('limit-e2e', gen.pick(rng, ['POST', 'PUT']), gen.pick(rng, ['/limit', '/d/limit']), gen.pick(rng, gen.PROTOS), [])
        req['headers'] = [h for h in req['headers'] if h[0] != 'Content-Length']
        if ctype:
            req['headers'] = [h for h in req['headers'] if h[0] != 'Content-Type'] + [['Content-Type', ctype]]
            if declared is not None and declared < arrived:
                declared = arrived          # (a multipart body cut short is a 400 of its own)
        if kind == 'chunked':
            req['headers'].append(['Transfer-Encoding', 'chunked'])
            req['rfile'] = 'chunked'
            req['body'] = (b''.join(gen.chunk_encode(rng, body.encode('latin-1'))) + b'0\r\n\r\n').decode('latin-1')
        else:
            req['headers'].append(['Content-Length', str(declared)])
            req['body'] = body
            if kind == 'known':
                req['rfile'] = 'known'
        cases.append((req, 'limit 1000 %s %d' % ('N' if declared is None else declared, arrived)))
    out = ctx.model([l for _, l in cases])
    for i, (req, line) in enumerate(cases):
        obs = c07.check_request(ctx, req)
        if out is None or obs['status'] >= 500 or obs.get('skipped'):
            continue
        ctx.compared()
        ctx.count('limit:%s' % obs['status'])
        if 'st:%d' % obs['status'] != out[i]:
            ctx.disagree(dict(req, line=line), 'st:%d' % obs['status'], out[i], 'SizedReader size limit: status differs from the model')


def host_stream(ctx, n):
    from . import c07
    rng = ctx.rng
    cases = []
    for _ in range(n):
        p11 = rng.random() < 0.5
        has = rng.random() < 0.5
        path = gen.pick(rng, ['/plain', '/d/plain', '/etag', '/file', '/form', '/json', '/stream', '/rest'])
        req = gen._base('host-e2e', gen.pick(rng, ['GET', 'HEAD', 'DELETE']), path, 'HTTP/1.1' if p11 else 'HTTP/1.0', [])
        if not has:
            req['headers'] = [h for h in req['headers'] if h[0] != 'Host']
        cases.append((req, 'host %d %d' % (1 if p11 else 0, 1 if has else 0)))
    out = ctx.model([l for _, l in cases])
    for i, (req, line) in enumerate(cases):
        obs = c07.check_request(ctx, req)
        if out is None or obs['status'] >= 500 or obs.get('skipped'):
            continue
        ctx.compared()
        ctx.count('host:%s' % obs['status'])
        if ('st:400' == out[i]) != (obs['status'] == 400):
            ctx.disagree(dict(req, line=line), 'st:%d' % obs['status'], out[i], 'Host rule: status differs from the model')
