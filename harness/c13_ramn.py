"""C13 (a'): real lock-table session threads (RamSession, MemcachedSession) + real clean_up sweepers
under the deterministic scheduler — several session ids, several sweepers, handler scripts — compared
with the Lean model by TRACE INCLUSION MODULO STUTTERING.

A *case* is
    {'kind': 'ramn', 'ids': [[cache|None, tbl], …], 'thrs': [[id index, script], …], 'nsw': k,
     'sched': [tok…], 'backend': 'ram' | 'memcached'}
  cache  = [counter, exp]             the session is stored at the start (exp in clock units)
  tbl    = bool                       a (free) lock object is in the lock table at the start
  script = string over  m  read-modify-write of the counter (`v = s.get('n', 0)` … `s['n'] = v + 1`)
                        d  `s.delete()`        c  `s.clear()`        g  `s.regenerate()`
  tokens = '<i>' request thread i | 'S<k>' sweeper k ('S' = 'S0') | 'K<d>' the clock advances d units

Yield points are SHARED-STATE ACCESSES only: every operation on the `cache` / `locks` dicts (proxy),
every acquire / release of a lock object (shim), and two yields of the harness' own handler code
(between the handler's read and its write; before `clear`).  Clock reads do not yield.  After every
turn the *observation* is recorded — the content of both tables for every id, owner and count of every
lock object ever put into the table, the lost-update flag, the status of every request thread, crashed
flag and number of started sweeps of every sweeper — never a program counter, a line number or the
name of the operation that ran.  The Lean driver decides whether the model admits the recorded
sequence of observations (`CpModel/SessionAdmit.lean`); the oracle is evaluated independently here.
"""
from __future__ import annotations

import datetime as _dt

from . import common
from . import c13_sched as S
from .c13_ram import FakeDatetimeModule, BASE, UNIT

FUEL = 8
DEBUG = False          # tools.sessions.debug for the session objects of the scheduled threads (coverage pass)


def sid_of(x):
    return 'c13%02d' % x + '0' * 35


class _OsShim:
    """`sessions.os` for the lock-table backends: `urandom` is deterministic (generate_id)."""

    def __init__(self, run, real):
        self._run = run
        self._real = real

    def urandom(self, n):
        self._run.gen_counter += 1
        out = (b'\xee' * n)[:max(0, n - 4)] + self._run.gen_counter.to_bytes(4, 'big')[-min(4, n):]
        # what Session.generate_id makes of it: number the new id in generation order right away (the
        # session object may still be under construction); `_discover_ids` covers any other spelling
        import binascii
        self._run._register_id(binascii.hexlify(out).decode('ascii'))
        return out

    def __getattr__(self, name):
        return getattr(self._real, name)


class FakeMemcacheModule:
    """A stand-in for the `memcache` client module: `Client(servers)` with get / set / delete on a
    store shared by all clients of one run; values are pickled (a client never hands out the stored
    object itself).  Every call is a yield point for managed threads."""

    def __init__(self, run):
        import pickle
        mod = self
        self.store = {}
        self._pickle = pickle

        class Client:
            def __init__(self, servers=None, *a, **k):
                self.servers = servers

            def get(self, key):
                run.sched.yield_point(('cache.get', key))
                v = mod.store.get(key)
                return None if v is None else pickle.loads(v)

            def set(self, key, value, time=0, *a, **k):
                run.sched.yield_point(('cache.setitem', key))
                mod.store[key] = pickle.dumps(value)
                return True

            def delete(self, key, *a, **k):
                run.sched.yield_point(('cache.pop', key))
                mod.store.pop(key, None)
                return 1
        self.Client = Client


class RamNRun:
    def __init__(self, ids, thrs, nsw=1, backend='ram'):
        from cherrypy.lib import sessions
        self.sessions = sessions
        self.backend = backend
        self.ids = ids
        self.thrs = thrs
        self.n = len(thrs)
        self.nsw = nsw
        self.sched = S.Sched()
        self.gen_counter = 0
        self.clock = FakeDatetimeModule()
        self.idnum = {}                 # session id string -> model id number
        self.idlist = []
        for x in range(len(ids)):
            self._register_id(sid_of(x))
        self.lock_index = {}
        self.locks_seen = []
        self.appear = [sid_of(x) for x in range(len(ids))]   # ids in the order they first showed up in a table
        # --- rebind what the session module looks up ---------------------------------------------
        self.saved_mod = {k: sessions.__dict__.get(k, _MISSING) for k in ('threading', 'datetime', 'os', 'time')}
        sessions.threading = S.Shim(self.sched)
        sessions.datetime = self.clock
        sessions.os = _OsShim(self, self.saved_mod['os'])
        if backend == 'ram':
            self.cls = sessions.RamSession
            self.saved_cls = (self.cls.cache, self.cls.locks)
            self.cls.cache = S.InstrDict(self.sched, 'cache')
            self.cls.locks = S.InstrDict(self.sched, 'locks')
        else:
            self.cls = sessions.MemcachedSession
            self.saved_cls = (self.cls.__dict__.get('cache', _MISSING), self.cls.locks, self.cls.mc_lock,
                              self.cls.__dict__.get('servers', _MISSING))
            self.mc = FakeMemcacheModule(self)
            # what sessions.init does for this storage class: `MemcachedSession.setup()` imports `memcache`
            # and makes the client; the harness puts its fake module where the import finds it
            import sys as _sys
            saved_mod = _sys.modules.get('memcache', _MISSING)
            _sys.modules['memcache'] = self.mc
            try:
                self.cls.setup(servers=['fake:0'])
            finally:
                if saved_mod is _MISSING:
                    _sys.modules.pop('memcache', None)
                else:
                    _sys.modules['memcache'] = saved_mod
            self.cls.locks = S.InstrDict(self.sched, 'locks')
            self.cls.mc_lock = S.InstrRLock(self.sched)    # protects the client, not a session: scheduled, not observed
        for x, (c, tbl) in enumerate(ids):
            if c is not None:
                self._store(sid_of(x), {'n': c[0]}, BASE + _dt.timedelta(seconds=UNIT * c[1]))
            if tbl:
                dict.__setitem__(self.cls.locks, sid_of(x), S.InstrRLock(self.sched))
        self._index_locks()
        # --- oracle bookkeeping ---------------------------------------------------------------------
        self.phase = {}
        self.sess = {}
        self.occ = {}                   # session id -> threads between acquire_lock and release_lock
        self.max_occ = 0
        self.version = {}
        self.seen = {}
        self.lost = False
        self.writes = {}                # id number -> number of handler increments
        self.orphan_acquire = False
        self.foreign_pop = False
        self.sweeper_orphan_acquire = False
        self.livelock = []
        self.errors = {}
        self.sweeps = [0] * nsw
        self.regen_trace = []           # (thread, old id, new id, old lock owner after, new lock owner after)
        self.frame_violations = []
        for i in range(self.n):
            self.sched.spawn('r%d' % i, self._worker(i))
            self.sched.step('r%d' % i)      # thread-local prologue: park in front of the first shared op
        for k in range(nsw):
            self.sched.spawn('S%d' % k, self._sweeper(k))
            self.sched.step('S%d' % k)

    # ---- storage access for the controller (no yields) -------------------------------------------
    def _store(self, sid, data, exp):
        if self.backend == 'ram':
            dict.__setitem__(self.cls.cache, sid, (data, exp))
        else:
            self.mc.store[sid] = self.mc._pickle.dumps((data, exp))

    def _stored(self, sid):
        if self.backend == 'ram':
            return dict.get(self.cls.cache, sid)
        v = self.mc.store.get(sid)
        return None if v is None else self.mc._pickle.loads(v)

    def _stored_ids(self):
        return list(dict.keys(self.cls.cache)) if self.backend == 'ram' else list(self.mc.store)

    def _register_id(self, sid):
        if sid not in self.idnum:
            self.idnum[sid] = len(self.idlist)
            self.idlist.append(sid)

    def _note_appearances(self):
        for sid in self._stored_ids() + list(dict.keys(self.cls.locks)):
            if sid not in self.appear:
                self.appear.append(sid)

    def _index_locks(self):
        for sid in list(dict.keys(self.cls.locks)):
            l = dict.get(self.cls.locks, sid)
            if l is not None and l not in self.lock_index:
                self.lock_index[l] = len(self.locks_seen)
                self.locks_seen.append(l)

    def _discover_ids(self):
        """Ids are numbered in the order `generate_id` produced them (= the order the threads'
        session objects took them), then anything else that shows up in a table."""
        for i in range(self.n):
            s = self.sess.get('r%d' % i)
            sid = getattr(s, 'id', None) if s is not None else None
            if isinstance(sid, str):
                self._register_id(sid)
        for sid in self._stored_ids() + list(dict.keys(self.cls.locks)):
            self._register_id(sid)

    # ---- the real code the threads run ---------------------------------------------------------
    def _worker(self, i):
        name = 'r%d' % i
        x, script = self.thrs[i]
        cls = self.cls

        def body():
            self.phase[name] = 'init'
            s = cls(id=sid_of(x), timeout=1, clean_freq=0, debug=DEBUG)    # Session.__init__ (what sessions.init does)
            self.sess[name] = s
            if s.id != sid_of(x):
                return 'gone'
            real_release = s.release_lock

            def release_lock():                              # probe: occupancy ends when release starts
                if self.phase.get(name) == 'cs':
                    self._leave(name, s.id)
                return real_release()
            s.release_lock = release_lock
            self.phase[name] = 'acquire'
            s.acquire_lock()                                 # SessionTool._lock_session
            self._enter(name, s.id)
            for op in script:
                if op == 'm':
                    v = s.get('n', 0)                        # page handler: read-modify-write
                    self.seen[name] = self.version.get(s.id, 0)
                    self.sched.yield_point(('data.write', s.id))      # the handler is not atomic
                    if self.seen[name] != self.version.get(s.id, 0):
                        self.lost = True
                    self.version[s.id] = self.version.get(s.id, 0) + 1
                    num = self.idnum.get(s.id)
                    self.writes[num] = self.writes.get(num, 0) + 1
                    s['n'] = v + 1
                elif op == 'd':
                    s.delete()
                elif op == 'c':
                    if not s.loaded:
                        s.load()
                    self.sched.yield_point(('data.clear', s.id))
                    self.version[s.id] = self.version.get(s.id, 0) + 1
                    s.clear()
                elif op == 'g':
                    old = s.id
                    self.phase[name] = 'regen'
                    self._leave(name, old)
                    s.regenerate()
                    self._register_id(s.id)
                    self._enter(name, s.id)
                    self.regen_trace.append((name, old, s.id, self._owner_of(old), self._owner_of(s.id)))
            s.save()                                         # sessions.save -> Session.save (finally: release)
            self.phase[name] = 'end'
            return 'done'
        return body

    def _owner_of(self, sid):
        l = dict.get(self.cls.locks, sid)
        return None if l is None else l.owner

    def _enter(self, name, sid):
        self.phase[name] = 'cs'
        self.occ.setdefault(sid, set()).add(name)
        self.max_occ = max(self.max_occ, len(self.occ[sid]))

    def _leave(self, name, sid):
        self.occ.get(sid, set()).discard(name)
        if self.phase.get(name) == 'cs':
            self.phase[name] = 'release'

    def _sweeper(self, k):
        def body():
            s = self.cls.__new__(self.cls)
            s.id_observers = []
            while True:
                self.sched.yield_point(('sweep.start', None))
                self.sweeps[k] += 1
                s.clean_up()
        return body

    # ---- controller ------------------------------------------------------------------------------
    def actor_name(self, tok):
        if tok == 'S':
            return 'S0'
        return tok if tok.startswith('S') else 'r' + tok

    def label(self, op):
        """WHAT the operation accesses: (0, id+1 | 0) the cache, (1, id+1 | 0) the lock table, (2, lock+1) a
        lock object, (3, 0) the handler's data — independent of HOW the source spells the access."""
        if op is None:
            return '-'
        k = op[0]
        if k.startswith('lock.'):
            return '2.%d' % (self.lock_index[op[1]] + 1) if op[1] in self.lock_index else '-'
        if k.startswith('data.'):
            return '3.0'
        if k.startswith('cache.') or k.startswith('locks.'):
            t = 0 if k.startswith('cache.') else 1
            if op[1] is None:
                return '%d.0' % t
            return '%d.%d' % (t, self.appear.index(op[1]) + 1 if op[1] in self.appear else 9999)
        return '-'

    def step(self, tok):
        """One turn.  Returns the label of the shared access that was executed ('-' for none)."""
        sched = self.sched
        if tok.startswith('K'):
            self.clock.units += int(tok[1:])
            return '-'
        name = self.actor_name(tok)
        st = sched.threads[name]
        if name.startswith('S') and st.status != 'done' and st.pending[0] == 'sweep.start':
            sched.step(name)
        op = sched.pending(name) if sched.enabled(name) else None
        before = None
        if op is not None:
            if name.startswith('r') and op[0] == 'lock.acquire' and op[3] and self.phase.get(name) in ('acquire', 'regen'):
                if not any(dict.get(self.cls.locks, k) is op[1] for k in dict.keys(self.cls.locks)):
                    self.orphan_acquire = True
            if name.startswith('S') and op[0] == 'lock.acquire' and op[1].owner is None:
                # a sweep is about to take a lock object that another sweep has already discarded
                if not any(dict.get(self.cls.locks, k) is op[1] for k in dict.keys(self.cls.locks)):
                    self.sweeper_orphan_acquire = True
            before = self._table_snapshot()
        lab = self.label(op)
        sched.step(name)
        self._discover_ids()
        self._note_appearances()
        self._index_locks()
        if op is not None:
            self._frame_check(name, op, before)
        if st.status == 'done' and st.exc is not None and name not in self.errors:
            self.errors[name] = type(st.exc).__name__
            if isinstance(st.exc, (common.HarnessError, S._Abandoned)):
                raise common.HarnessError('managed thread %s: %r' % (name, st.exc))
        return lab

    def _table_snapshot(self):
        return ({k: dict.get(self.cls.locks, k) for k in dict.keys(self.cls.locks)},
                {k: self._cache_row(k) for k in self._stored_ids()})

    def _cache_row(self, sid):
        c = self._stored(sid)
        if c is None:
            return None
        exp = (c[1] - BASE).total_seconds() / UNIT
        return (c[0].get('n') or 0, int(exp) if exp == int(exp) else exp)

    def _frame_check(self, name, op, before):
        """Independence, evaluated on the real execution: an operation keyed by id A changes nothing
        that belongs to another id; a sweeper removes only lock objects it owns at that moment."""
        locks0, cache0 = before
        locks1, cache1 = self._table_snapshot()
        key = op[1] if not op[0].startswith('lock.') else None
        for sid in set(locks0) | set(locks1) | set(cache0) | set(cache1):
            changed = locks0.get(sid) is not locks1.get(sid) or cache0.get(sid) != cache1.get(sid)
            if changed and isinstance(key, str) and key != sid:
                self.frame_violations.append('%s: %s(%s) changed the entries of session %s'
                                             % (name, op[0], self.idnum.get(key, key), self.idnum.get(sid, sid)))
            if name.startswith('S') and sid in locks0 and locks1.get(sid) is not locks0[sid]:
                if locks0[sid].owner != name:
                    self.foreign_pop = True

    def observation(self):
        rows = []
        for idx, sid in enumerate(self.appear):      # an id is named by when it first showed up in a table
            c = self._cache_row(sid)
            l = dict.get(self.cls.locks, sid)
            if c is None and l is None:
                continue
            rows.append([idx] + ([1, c[0], c[1]] if c is not None else [0])
                        + [self.lock_index[l] + 1 if l is not None else 0])
        out = [len(rows)]
        for r in rows:
            out += r
        out.append(len(self.locks_seen))
        for l in self.locks_seen:
            o = l.owner
            if o is None:
                code = 0
            elif isinstance(o, str) and o.startswith('r'):
                code = 1 + int(o[1:])
            elif isinstance(o, str) and o.startswith('S'):
                code = 1001 + int(o[1:])
            else:
                code = 999
            out += [code, l.count]
        out.append(1 if self.lost else 0)
        for i in range(self.n):
            st = self.sched.threads['r%d' % i]
            if st.status != 'done':
                out.append(0)
            elif st.exc is not None:
                out.append(3)
            else:
                out.append(2 if st.result == 'gone' else 1)
        for k in range(self.nsw):
            st = self.sched.threads['S%d' % k]
            out += [1 if st.status == 'done' else 0, self.sweeps[k]]
        return out

    def final(self):
        sched = self.sched
        return [1 if (not sched.done('r%d' % i) and not sched.enabled('r%d' % i)) else 0 for i in range(self.n)]

    def sweeper_idle(self, k):
        st = self.sched.threads['S%d' % k]
        return st.status == 'done' or st.pending[0] == 'sweep.start'

    def finish(self, trace=None):
        """Let every sweeper end its sweep and every request thread that can still run finish.
        Returns the tokens executed.  An actor that keeps taking turns without ever finishing is recorded
        as a livelock of the code under test (an observation for the oracle, not a harness error)."""
        extra = []

        def do(tok):
            lab = self.step(tok)
            extra.append(tok)
            if trace is not None:
                trace.append((self.observation(), lab))

        def drive(tok, cond, limit):
            n = 0
            while cond():
                if n >= limit:
                    if tok not in self.livelock:
                        self.livelock.append(tok)
                    return False
                do(tok)
                n += 1
            return n > 0
        for k in range(self.nsw):
            drive('S%d' % k, lambda k=k: not self.sweeper_idle(k) and self.sched.enabled('S%d' % k),
                  60 + 40 * len(self.idlist))
        while True:
            progressed = False
            for i in range(self.n):
                if str(i) not in self.livelock:
                    progressed |= bool(drive(str(i), lambda i=i: self.sched.enabled('r%d' % i), 300))
            if not progressed:
                break
        return extra

    def observations(self):
        sched = self.sched
        reqs = ['r%d' % i for i in range(self.n)]
        held = [str(l.owner) for l in self.locks_seen if l.owner is not None]
        counters = {}
        for sid in self.idlist:
            c = self._cache_row(sid)
            counters[self.idnum[sid]] = None if c is None else c[0]
        return {'max_occ': self.max_occ, 'lost': self.lost, 'writes': dict(self.writes),
                'errors': dict(self.errors), 'held_by': held,
                'blocked': [r for r in reqs if not sched.done(r) and not sched.enabled(r)],
                'unfinished': [r for r in reqs if not sched.done(r)],
                'results': {r: (sched.threads[r].result if sched.done(r) else None) for r in reqs},
                'counters': counters, 'orphan_acquire': self.orphan_acquire, 'foreign_pop': self.foreign_pop,
                'sweeper_orphan_acquire': self.sweeper_orphan_acquire, 'livelock': list(self.livelock),
                'frame': list(self.frame_violations),
                'regen': [(n, self.idnum.get(o, o), self.idnum.get(w, w), str(oo), str(wo))
                          for n, o, w, oo, wo in self.regen_trace],
                'table_size': len(dict.keys(self.cls.locks))}

    def close(self):
        try:
            self.sched.close()
        finally:
            sessions = self.sessions
            for k, v in self.saved_mod.items():
                if v is _MISSING:
                    sessions.__dict__.pop(k, None)
                else:
                    setattr(sessions, k, v)
            if self.backend == 'ram':
                self.cls.cache, self.cls.locks = self.saved_cls
            else:
                c, self.cls.locks, self.cls.mc_lock, srv = self.saved_cls
                for name, v in (('cache', c), ('servers', srv)):
                    if v is _MISSING:
                        try:
                            delattr(self.cls, name)
                        except AttributeError:
                            pass
                    else:
                        setattr(self.cls, name, v)


_MISSING = object()


def norm_tok(t):
    return 'S0' if t == 'S' else t


def run_case(case, finish=True):
    """Execute one schedule.  Returns (o0, [(tok, observation, label)…], final, observations)."""
    run = RamNRun(case['ids'], case['thrs'], case.get('nsw', 1), case.get('backend', 'ram'))
    try:
        o0 = run.observation()
        obs = []
        toks = [norm_tok(t) for t in case['sched']]
        for tok in toks:
            lab = run.step(tok)
            obs.append((run.observation(), lab))
        if finish:
            toks = toks + run.finish(obs)
        o = run.observations()
        return o0, [(t, ob, lab) for t, (ob, lab) in zip(toks, obs)], run.final(), o
    finally:
        run.close()


def run_policy(case, order, preempt, sweeps=1, limit=300):
    """Adaptive schedule: run actors in `order`, each until it finishes / blocks (a free switch),
    except that at global step index k in `preempt` control moves to preempt[k] (a pre-emption).
    A sweeper counts as finished after `sweeps` complete sweeps."""
    run = RamNRun(case['ids'], case['thrs'], case.get('nsw', 1), case.get('backend', 'ram'))
    try:
        o0 = run.observation()
        toks, obs = [], []

        def finished(a):
            if a.startswith('S'):
                k = int(a[1:])
                return run.sched.done(a) or (run.sweeps[k] >= sweeps and run.sweeper_idle(k))
            return run.sched.done('r' + a)

        def runnable(a):
            return not finished(a) and run.sched.enabled(run.actor_name(a))
        cur = None
        k = 0
        while k < limit:
            if k in preempt and runnable(preempt[k]):
                cur = preempt[k]
            if cur is None or not runnable(cur):
                cands = [a for a in order if runnable(a)]
                if not cands:
                    break
                cur = cands[0]
            lab = run.step(cur)
            toks.append(cur)
            obs.append((run.observation(), lab))
            k += 1
        toks += run.finish(obs)
        return o0, [(t, ob, lab) for t, (ob, lab) in zip(toks, obs)], run.final(), run.observations()
    finally:
        run.close()


def nats(l):
    return '.'.join(str(int(x)) for x in l) if l else '-'


def model_line(case, o0, trace, final, rv, sv, fuel=FUEL):
    ids = ';'.join(('N' if c is None else '%d:%d' % tuple(c)) + ('+' if tbl else '') for c, tbl in case['ids'])
    thrs = ';'.join('%d:%s' % (x, script or '-') for x, script in case['thrs'])
    tr = '|'.join('%s@%s@%s' % (t, nats(o), lab) for t, o, lab in trace) or '-'
    alias = '1' if case.get('backend', 'ram') == 'ram' else '0'
    return 'ramN %s %s %s %s %s %d %d %s %s %s' % (rv, sv, alias, ids, thrs, case.get('nsw', 1), fuel,
                                                   nats(o0), tr, nats(final))
