"""C06 - response framing is self-consistent for every handler and tool mix.

Model: lean/CpModel/Finalize.lean (+ generated lean/CpModel/Gen/C06Tables.lean), theorems:
lean/CpProofs/C06.lean, driver: lean/Drv/C06.lean.  Real code: harness/c06_real.py drives a real
cherrypy.Application in-process through its WSGI callable and counts the bytes that cross the WSGI
boundary (PEP 3333 server emulation).  The oracle below is written from the property statement only.
"""
import itertools
import json
import os

from . import common
from . import c06_real as R
from . import c06_tables as T
from . import c06_cov

PROPERTY = 'C06'
LEAN_TARGETS = ['CpProofs.C06', 'drv_c06']
DRIVER = 'drv_c06'
THEOREMS = [
    # tables regenerated from the live code say what the statement says
    'CpProofs.C06.legal_table_spec',
    'CpProofs.C06.noBody_table_spec',
    'CpProofs.C06.noBodyStream_table_spec',
    'CpProofs.C06.ie_table_spec',
    'CpProofs.C06.redirect_table_spec',
    # the framing invariant: one lemma per step, every sequence of steps
    'CpProofs.C06.expires_CLok',
    'CpProofs.C06.flatten_CLok',
    'CpProofs.C06.etags_CLok',
    'CpProofs.C06.gzip_CLok',
    'CpProofs.C06.tee_CLok',
    'CpProofs.C06.probe_CLok',
    'CpProofs.C06.sessions_CLok',
    'CpProofs.C06.autovary_CLok',
    'CpProofs.C06.runFailsafe_CLok',
    'CpProofs.C06.setError_CLok',
    'CpProofs.C06.setRedirect_CLok',
    'CpProofs.C06.encodeStage_CLok',
    'CpProofs.C06.serveFile_CLok',
    'CpProofs.C06.handlerStage_CLok',
    'CpProofs.C06.encodeStage_drops',
    'CpProofs.C06.xmlrpcSet_CLok',
    'CpProofs.C06.handlerXmlrpc_CLok',
    'CpProofs.C06.staticToolStage_ok',
    'CpProofs.C06.beforeHandlerTools_ok',
    'CpProofs.C06.runHandler_CLok',
    'CpProofs.C06.errorResponse_CLok',
    'CpProofs.C06.handleError_ok',
    'CpProofs.C06.hit_CLok',
    'CpProofs.C06.applyStep_CLok',
    'CpProofs.C06.runSteps_CLok',
    'CpProofs.C06.builtin_StepOk',
    'CpProofs.C06.rewrite_and_delete_StepOk',
    'CpProofs.C06.runAny_CLok',
    'CpProofs.C06.forgetful_step_breaks',
    'CpProofs.C06.finalize_ok',
    'CpProofs.C06.respond_ok',
    # the statement at the WSGI boundary
    'CpProofs.C06.serve_framed',
    'CpProofs.C06.C06_nobody_all',
    'CpProofs.C06.C06_nonstream',
    'CpProofs.C06.C06_stream_partial',
    'CpProofs.C06.C06_cache_consistent',
    'CpProofs.C06.C06_history',
    'CpProofs.C06.C06_history_from_empty',
    'CpProofs.C06.respond_head_eq_get',
    'CpProofs.C06.C06_head',
    'CpProofs.C06.C06_head_nonstream',
    # what is false on the unchanged code / what the statement does not claim
    'CpProofs.C06.C06_stream_full_false',
    'CpProofs.C06.stream_204_stripped',
    'CpProofs.C06.F1_witness_iff',
    'CpProofs.C06.handlerOk_witness_of_repaired',
    'CpProofs.C06.xmlrpc_length_false_of_chars',
    'CpProofs.C06.xmlOk_of_repaired',
    'CpProofs.C06.xmlOk_of_same_length',
    'CpProofs.C06.F2_witness_iff',
    'CpProofs.C06.handlerOk_xmlrpc',
    'CpProofs.C06.endOf_never_nonBytes',
    'CpProofs.C06.nonbytes_first_item_iff',
    # round 2: nested iterators of any depth, HTTP/1.0, the stages before the page handler
    'CpProofs.C06.flatten_nested_leaves',
    'CpProofs.C06.deliver_nested',
    'CpProofs.C06.flatten_bytes_leaves',
    'CpProofs.C06.http10_ignores_ranges',
    'CpProofs.C06.redirectCode_spec',
    'CpProofs.C06.early_refusal_skips_handler',
    'CpProofs.C06.static_tool_skips_handler',
    'CpProofs.C06.missing_slash_redirects',
    'CpProofs.C06.stale_copy_ignored_with_its_headers',
    'CpProofs.C06.handlerOk_of_no_own_length',
    'CpProofs.C06.bare_error_framed',
    'CpProofs.C06.none_length_resolved',
    'CpProofs.C06.handlerFileObj_CLok',
]
LEVEL = 'proof'
TECHNIQUE = ('Lean 4 proof: a framing invariant (Content-Length absent, or the body is clean bytes of exactly that length) '
             'is preserved by every built-in tool step and by every sequence of steps (induction over the hook list, '
             'failsafe hooks included), established by set_response / error_response / finalize, and carried across '
             'requests by a cache-consistency invariant; status tables and two repair flags regenerated from the live '
             'code; model tied to the real request pipeline by a bounded-exhaustive differential run with a '
             'byte-counting oracle at the WSGI boundary')
LEVEL_TEXT = ('Proved in Lean over the model, for every page text / gzip function, every request (method, HTTP/1.0 or 1.1, '
              'Accept-Encoding, conditions incl. If-Modified-Since, charsets, ranges, Accept, request entity, missing '
              'trailing slash), every handler (body shape incl. str / nested iterators of any depth with str or failing '
              'leaves / file / static file / XML-RPC result, status action incl. HTTPError / HTTPRedirect / unexpected '
              'exception / illegal status, own Content-Length, stream flag), every tool mix of encode, gzip, etags, caching, '
              'expires (4 configurations), flatten, stream, json_out, json_in, accept, response_headers, trailing_slash, '
              'staticfile, sessions, autovary, xmlrpc, a custom / failing / redirecting error_response, and every request '
              'history (the cache content is part of the induction): a 1xx/204/205/304 response (table generated from '
              'Response.finalize, buffered and streamed) has neither body bytes nor Content-Length whether or not it is '
              'streamed; any other non-streamed response has Content-Length = delivered bytes with a clean end; HEAD yields '
              'byte-for-byte the finalized response of the GET (status, Content-Type, Content-Length) with zero body bytes; '
              'a streamed response that carries a Content-Length delivers exactly that many bytes. Partial: the hypothesis '
              'HandlerOk says that the application does not itself declare a length that is wrong for its own value '
              '(handler or tools.response_headers; XML-RPC texts declared with their encoded length); without it the '
              'streamed statement is proved false (C06_stream_full_false), and the two classes where the *framework* '
              'produces the wrong length are recorded findings with iff-theorems on flags read from the live code: C06-F1 '
              '(str body + own Content-Length + streaming encode) and C06-F2 (xmlrpcutil counts characters; fix proposed). '
              'zlib, md5, the Range parser and every text the framework generates (error / redirect pages, bare_error, '
              'multipart/byteranges boundaries and part headers, XML-RPC faults) are parameters.')
LEVEL_NOTE = ('Trusted: Lean kernel (propext, Quot.sound only), the hand model lean/CpModel/Finalize.lean as validated by the '
              'differential run (status, Content-Length presence and value, delivered byte count, end of iteration, stream / '
              'cache-hit flags, Content-Encoding, Content-Type base and charset per request), the PEP 3333 server emulation '
              'that counts the bytes (an exception out of close() counts as an unclean end), the harness. zlib, md5 (entity '
              'tag = injective function of the body), page texts, get_ranges, the XML-RPC marshaller and charset codecs '
              'other than UTF-8/Latin-1/ASCII are parameters.')
TRUSTED_BASE = [
    'zlib / gzip framing is an arbitrary function z : bytes -> bytes in the theorems (a stand-in in the driver; compressed '
    'sizes are compared only through the Content-Length = delivered relation)',
    'md5 is injective on the bodies of one case (model: entity tag = the collapsed body)',
    'httputil.get_ranges (property C16) is an input of the model: the harness calls the real function and passes its result',
    'every text the framework generates (default error template, redirect notes, bare_error, multipart/byteranges '
    'boundaries and part headers, XML-RPC faults) is a parameter (stand-ins in the driver): for those only the relations '
    'Content-Length = delivered and delivered = 0 are compared, so rewording them cannot trip the check; numbers are compared '
    'only for texts the harness supplies (handler bodies, custom error pages, custom error_response, XML-RPC results)',
    'xmlrpc.client.dumps (the marshaller) is an input: the harness passes the marshalled text to the model',
    'PEP 3333 server emulation in harness/c06_real.py (headers leave with the first non-empty chunk; start_response with '
    'exc_info re-raises once they left; close() is always called and an exception out of it is an unclean end)',
]
ASSUMPTIONS = [
    'the application does not declare a Content-Length that is wrong for the value it returns (HandlerOk: handler, '
    'tools.response_headers, XML-RPC texts with their encoded length); the complementary classes are exercised through '
    'the recorded witnesses of C06-F1 / C06-F2 (and every generated XML-RPC case with non-ASCII text)',
    'HEAD is compared with the status line and headers the corresponding GET first passes to start_response: a producer '
    'that fails during body iteration after that point is the handler\'s failure (the less demanding reading)',
    'file length and modification time do not change under a static response; sizes below the cache limits; one URI and, '
    'under tools.autovary, one set of request headers per history (= one cache variant, as in the model)',
    'tools.sessions + tools.autovary together answer every request with a (well-framed) 500 on the unchanged code '
    '(autovary records the header name None that sessions looks up): that combination is left out of the lattice',
    'XML-RPC resources are called by POST; tools.accept / json_in / staticfile / response_headers are not combined with them',
]
RULE = ('a case = handler (body shape - possibly a different value, of a different length, on every invocation -, status '
        'action, Content-Type, optional own Content-Length / stream) x tool subset x extension tools (accept, json_in, '
        'response_headers, trailing_slash, staticfile, sessions, autovary, expires configuration, error_response kind, '
        'tracebacks, forced charset, gzip level, serve_fileobj variant) x error-page kind x optional user hook '
        'x a history of 1-5 requests (method, protocol 1.0/1.1, Accept-Encoding, If-None-Match, If-Match, '
        'If-Modified-Since, Accept-Charset, Accept, Range, request entity, missing / extra trailing slash, cache '
        'directive max-age / no-cache / Pragma / no-store, logical-clock advance); quick = systematic blocks (every status '
        'action x every body shape; every tool subset x representative handlers; caching histories; the stages before the '
        'handler x tool mixes; static tool x ranges x protocol; sessions x bodies x failing hooks; XML-RPC) + seeded '
        'weighted sample; thorough = the whole core lattice + hook, regeneration and pre-handler lattices. '
        'Non-trivial = at least one tool, error/redirect path, non-200 status or non-bytes body is involved; '
        'distinct = distinct driver line')

# ----------------------------------------------------------------------------------------------
# the lattice
# ----------------------------------------------------------------------------------------------
H = lambda b: b.hex()   # noqa: E731
BODIES = {
    'bytes': 'B:b' + H(b'hello world'),
    'empty': 'B:',
    'none': 'N:',
    'list': 'L:b' + H(b'ab') + ',b,b' + H(b'cde'),
    'elist': 'L:',
    'gen': 'G:b' + H(b'one') + ',b' + H(b'two2') + ',b',
    'egen': 'G:',
    'nested': 'G:b' + H(b'aa') + ',n' + H(b'bb') + '/' + H(b'cc') + '/' + H(b'dd') + ',b' + H(b'e'),
    'deep': 'G:n' + '/'.join(H(bytes([97 + i])) for i in range(6)) + ',b' + H(b'-') + ',n' + H(b'x') + '/' + H(b'yz'),
    'ntext': 'G:b' + H(b'aa') + ',n' + H(b'bb') + '/T233.8364/' + H(b'cc'),      # a str leaf two levels down
    'nraise': 'G:b' + H(b'aa') + ',n' + H(b'bb') + '/' + H(b'cc') + '/R/' + H(b'dd'),   # a producer failing 3 levels down
    'nraise0': 'G:nR',
    'lnested': 'L:b' + H(b'aa') + ',n' + H(b'bb') + '/' + H(b'cc'),
    'file': 'F:b' + H(b'file content here'),
    'efile': 'F:',
    'text': 'S:t104.233.8364',                      # 'h\xe9€'  (1, 2, 3 bytes in UTF-8)
    'latin': 'S:t104.233',                          # encodable in latin-1, not ascii
    'tlist': 'L:t97,b' + H(b'-'),
    'tgen': 'G:t97.98,t233.8364,b' + H(b'z'),
    'tgen2': 'G:b' + H(b'k') + ',t8364,t97',        # fails latin-1 after consuming a chunk
    'graise': 'G:b' + H(b'aa') + ',r',
    'raise0': 'G:r',
    'raise1': 'G:b,r',
    'static': 'X:b' + H(b'0123456789abcdefghij'),
    'fileobj': 'Y:b' + H(b'unknown length'),
    'efileobj': 'Y:',
    'estatic': 'X:',
    'static1': 'X:b' + H(b'Z'),                                       # static files of several sizes
    'static785': 'X:b' + H((b'0123456789abcdefghijklmnopqrstuvwxyz\n' * 22)[:785]),
    'json': 'J:b' + H(b'aa') + ',b' + H(b'b'),
    'big': 'B:b' + H(b'x' * 700),
    'kclose': 'K:b' + H(b'it') + ',b' + H(b'erator'),      # iterator object whose close() raises
    'xrpc': 'R:t' + '.'.join(str(ord(ch)) for ch in 'plain ascii result'),      # an XML-RPC method result
    'xrpcu': 'R:t' + '.'.join(str(ord(ch)) for ch in 'r\xe9sultat \u20ac'),   # ... with non-ASCII characters
}
# handlers whose value changes from invocation to invocation (length grows / shrinks / becomes empty)
BODIES.update({
    'gbytes': 'B:b' + H(b'v0') + '|B:b' + H(b'version-1') + '|B:b' + H(b'the third version is longer'),
    'gshrink': 'B:b' + H(b'a long first version of it') + '|B:b' + H(b'short') + '|B:b' + H(b's'),
    'ggen': 'G:b' + H(b'g0') + '|G:b' + H(b'g1') + ',b' + H(b'more') + '|G:b' + H(b'g2') + ',b' + H(b'more') + ',b' + H(b'again'),
    'gempty': 'B:b' + H(b'something') + '|B:|B:b' + H(b'back again, longer'),
    'gtext': 'S:t104.233|S:t104.233.8364.8364|S:t104',
    'gjson': 'J:b' + H(b'a') + '|J:b' + H(b'a') + ',b' + H(b'bcd') + '|J:b' + H(b'a') + ',b' + H(b'bcd') + ',b' + H(b'efghij'),
    'gstatic': 'X:b' + H(b'0123456789') + '|X:b' + H(b'0123456789abcdefghij') + '|X:b' + H(b'01234'),
})
GROWING = ['gbytes', 'gshrink', 'ggen', 'gempty', 'gtext', 'gjson', 'gstatic']
CCS = ['-', 'maxage0', 'maxage10', 'maxage1000', 'nocache', 'pragma', 'nostore', 'badmaxage']
DTS = [0, 0, 1, 5, 20, 700]
ALLBYTES = {'bytes', 'empty', 'none', 'list', 'elist', 'gen', 'egen', 'file', 'efile', 'big', 'fileobj', 'efileobj',
            'kclose'}
TEXTY = {'text', 'latin', 'tlist', 'tgen', 'tgen2', 'gtext'}
STATUSES = ['-', 's201', 's204', 's205', 's304', 's100', 's206', 's404', 'i',
            'e404', 'e402', 'e500', 'e410', 'r303', 'r301', 'r304', 'r305', 'r306', 'x', 'r0']
XRPC = ('xrpc', 'xrpcu')
TOOLS = ['encode', 'gzip', 'etags', 'caching', 'expires', 'flatten', 'stream']
TOOL_LETTER = {'encode': 'e', 'gzip': 'g', 'etags': 't', 'caching': 'c', 'expires': 'x', 'flatten': 'f',
               'stream': 's', 'errfails': 'b'}
METHODS = ['GET', 'HEAD', 'POST']
AES = ['-', 'gzip', 'identity', 'gzipq0', 'other', 'idq0']
CONDS = ['-', 'star', 'match', 'other']
ACS = ['-', 'utf8', 'latin1', 'ascii', 'star', 'ascii2', 'l1u8']
RANGES = ['-', 'bytes=2-5', 'bytes=2-5,7-9', 'bytes=50-', 'bytes=0-', 'bytes=-3', 'bytes=3-2', 'bytes=0-0,19-',
          # a last-byte-pos at or beyond the end of the entity, suffixes longer than it, one satisfiable range of two
          'bytes=5-99999', 'bytes=0-1048575', 'bytes=700-99999', 'bytes=775-785', 'bytes=19-20', 'bytes=0-20',
          'bytes=53-54', 'bytes=-500', 'bytes=-0', 'bytes=20-', 'bytes=10-99999,300000-400000', 'bytes=0-10,5-99999',
          'bytes=0-0', 'bytes=0-1', 'bytes=1-']
STATICS = ('static', 'estatic', 'static1', 'static785')


def boundary_ranges(n):
    """Range header texts around the boundaries of an entity of n bytes: single / multiple, open-ended, suffix, a
    last-byte-pos at and beyond the end, a first-byte-pos at the end, overlapping, one satisfiable range of two"""
    m = max(n - 1, 0)
    specs = ['%d-%d' % (m, m), '%d-%d' % (m, n), '%d-%d' % (m, n + 5), '0-%d' % m, '0-%d' % n, '0-%d' % (10 * n + 7),
             '%d-' % n, '%d-%d' % (n, n + 3), '%d-' % m, '%d-99999' % (n // 2), '-%d' % max(n, 1), '-%d' % (n + 1),
             '-%d' % (10 * n + 3), '-1', '%d-%d,%d-%d' % (n // 2, n + 9, n, n + 4), '0-%d,1-2' % (n + 3),
             '%d-,0-0' % m, '0-%d,%d-%d' % (n // 2, n // 3, n + 50), '%d-%d,%d-' % (n + 1, n + 2, n + 3)]
    return ['bytes=' + x for x in specs]
PAGES = ['tmpl', 'short', 'empty', 'long', 'str', 'iter', 'raise', 'int', 'file']
CTS = ['html', 'plain', 'json', 'octet', 'xml']
EXT_KEYS = ('rh', 'acc', 'jin', 'noslash', 'sess', 'av', 'sf', 'er', 'xp', 'tb', 'encu', 'te', 'emsg', 'fo', 'gzl',
            'u8', 'throw', 'md')
ERS = ['-', 'c503', 'c204', 'c999', 'r303', 'r304', 'r306']
ENTS = ['-', 'ok', 'bad', 'nolen']
KEY_CODES = {100, 200, 201, 204, 205, 206, 301, 303, 304, 305, 402, 404, 406, 410, 412, 416, 500}
ALL_SUBSETS = [[t for i, t in enumerate(TOOLS) if m >> i & 1] for m in range(1 << len(TOOLS))]


HOOK_PRIOS = [40, 60, 77, 90, 110]
HOOK_ACTS = ['e402', 'e404', 'e412', 'r303', 'r304', 'r306', 'x', 's204', 's201', 'w' + H(b'REWRITTEN'), 'w']


def mk(body='bytes', st='-', tools=(), reqs=None, page='tmpl', ct='html', hcl=0, hstream=0, hook='-', ext=None):
    return {'body': BODIES[body], 'bname': body, 'st': st, 'tools': sorted(tools), 'page': page, 'ct': ct,
            'hcl': hcl, 'hstream': hstream, 'hook': hook, 'reqs': reqs or [{'m': 'GET'}], 'ext': dict(ext or {})}


def req(m='GET', ae='-', inm='-', im='-', ac='-', rng='-', cc='-', dt=0, proto='11', ims=0, acc=1, ns=0, ent='-'):
    """dt = seconds the logical clock advances before this request; proto = 10 | 11; ims = If-Modified-Since equal
    to the static file's Last-Modified; acc = 1 no Accept header / 2 a matching media range / 0 none matches;
    ns = the index resource is requested without its trailing slash; ent = the entity of a POST"""
    return {'m': m, 'ae': ae, 'inm': inm, 'im': im, 'ac': ac, 'range': rng, 'cc': cc, 'dt': dt,
            'proto': proto, 'ims': ims, 'acc': acc, 'ns': ns, 'ent': ent}


def normalise(case):
    """Keep a case inside the claimed domain (the application itself never sets a wrong Content-Length) and inside
    what the model distinguishes (one cache key per history)."""
    c = dict(case)
    b = c['bname']
    tools = set(c['tools'])
    ext = {k: v for k, v in (c.get('ext') or {}).items() if v and v != '-'}
    c['reqs'] = [dict(req(), **r) for r in c['reqs']]
    streaming = 'stream' in tools or c.get('hstream')
    kind = c['body'][0]
    multi = '|' in c['body']
    own_ok = (b in ALLBYTES or b in STATICS or
              (b in ('text', 'latin', 'tlist') and 'encode' in tools and not streaming
               and c.get('ct') in ('html', 'plain', 'xml'))) and not multi
    if c.get('hcl') == 'u':
        pass      # only used by the recorded finding's witness (handler length assumes UTF-8)
    elif c.get('hcl') and not own_ok:
        c['hcl'] = 0
    if ext.get('rh') and not own_ok:
        ext.pop('rh')
    if multi:
        c['hcl'] = 0       # (a fixed own length cannot be right for every generation)
        if b == 'gstatic':
            for r in c['reqs']:
                r['range'] = '-'
    if kind == 'R':
        # an XML-RPC controller: tools.xmlrpc owns request.error_response; plain exceptions from elsewhere would
        # be reported in a fault whose text the model does not know
        c['hcl'] = 0
        for k in ('rh', 'sf', 'er', 'noslash', 'jin', 'acc'):
            ext.pop(k, None)      # (acc: a refusal before the handler + a failing hook = a fault with another text)
        tools.discard('errfails')
        if c['st'] in ('r306', 'i') or (c['st'][0] == 'r' and c['st'] not in ('r0', 'r301', 'r303', 'r304', 'r305')):
            c['st'] = '-'
        if c.get('hook', '-') != '-' and c['hook'].split(':')[1] in ('x', 'r306'):
            c['hook'] = '-'
        if c.get('page') in ('raise', 'int'):
            c['page'] = 'tmpl'
        for r in c['reqs']:
            r['ns'] = 0
            r['m'] = 'POST'      # (XML-RPC calls are POSTs: the controller reads the call from the request entity)
    t = 0
    for r in c['reqs']:
        t += int(r.get('dt', 0))
        r['t'] = t
    if b in ('fileobj', 'efileobj') and c['st'][0] not in '-si':
        c['st'] = '-'      # (the model's serve_fileobj handler sets a status or none; it does not raise)
    if b in STATICS or b == 'gstatic':
        c['hcl'] = 1 if (c.get('hcl') and b != 'gstatic') else 0
        if c['st'][0] not in '-s':
            c['st'] = '-'
        ext.pop('sf', None)         # (one static entity per case: the Range parser's result is one input)
    elif not ext.get('sf'):
        for r in c['reqs']:
            r['range'] = '-'
            r['ims'] = 0
    if kind == 'R':
        ext.pop('throw', None)
    if ext.get('throw'):
        # request.throw_errors: unexpected errors leave Request.run and are answered by the WSGI exception trapper's
        # own bare 500 - for the model the same as an error_response that fails.  (Not combined with HEAD: the trapper's
        # answer is not passed through the HEAD body removal - a debugging switch, reported separately.)
        for r in c['reqs']:
            if r['m'] == 'HEAD':
                r['m'] = 'GET'
    if 'errfails' in tools or ext.get('throw'):
        ext.pop('er', None)
    if 'expires' not in tools:
        ext.pop('xp', None)
    if 'encode' not in tools:
        ext.pop('encu', None)
    # one URI per history (the cache is keyed by it)
    ns = max(int(r.get('ns', 0)) for r in c['reqs']) if kind != 'R' else 0
    if ns == 2 and ext.get('noslash'):
        ns = 1        # (without the tool a path with a slash too many is simply another resource)
    if ns == 3:
        # a path nothing is mounted at: the dispatcher installs NotFound() as the page handler, i.e. a handler that
        # raises HTTPError(404) without touching the response (default Content-Type, no own length, no stream flag)
        c['bname'], c['body'], c['st'], c['hcl'], c['hstream'], c['ct'] = 'bytes', BODIES['bytes'], 'e404', 0, 0, 'html'
        ext.pop('sf', None)
        ext.pop('rh', None)
    if ext.get('md') and (kind == 'R' or ns != 0):
        ext.pop('md')      # (ext md: the resource at /md, reached through the MethodDispatcher; one URI per history)
    for r in c['reqs']:
        r['ns'] = ns
        if r['m'] != 'POST' or not ext.get('jin'):
            if r.get('ent') == 'nolen':
                r['ent'] = '-'
        if r['m'] != 'POST':
            r['ent'] = '-'
    if ext.get('av') and ext.get('sess'):
        # tools.sessions looks up request.headers.get(None) (no path_header), tools.autovary records the None and its
        # hook fails in ', '.join: every such request is a (well-framed) 500 - not a framing matter, left out
        ext.pop('av')
    if ext.get('av'):
        # tools.autovary lists every request header some tool looked at in Vary, and the cache selects its variant
        # by all of them: keep them constant over the history, so that there is one variant as in the model
        first = c['reqs'][0]
        for k in ('inm', 'im'):
            if first[k] == 'match':
                first[k] = 'star'      # ('match' is resolved per request to the tag then current)
        for r in c['reqs'][1:]:
            for k in ('ae', 'inm', 'im', 'ac', 'range', 'ims', 'acc', 'proto'):
                r[k] = first[k]
        for r in c['reqs']:
            r['cc'] = '-'
    c['tools'] = sorted(tools)
    c['ext'] = ext
    c.setdefault('hook', '-')
    return c


def _cps(text):
    return '.'.join(str(ord(ch)) for ch in text)


def model_ext(case):
    """the extension field of the driver line"""
    ext = case.get('ext') or {}
    out = []
    if ext.get('rh'):
        out.append('rh%d' % R.own_length(case, R.parse_body(case['body'].split('|')[0])[1]))
    for k in ('acc', 'jin', 'noslash', 'sess', 'av'):
        if ext.get(k):
            out.append(k)
    if ext.get('sf'):
        out.append('sf' + R.sf_data(case).hex())
    er = str(ext.get('er', '-'))
    if er[0] == 'c':
        out.append('erc%s:%s' % (er[1:], R.ER_BODY.hex()))
    elif er[0] == 'r':
        out.append('err' + er[1:])
    if ext.get('xp'):
        out.append('xp%d' % int(ext['xp']))
    if case['body'].startswith('R:'):
        kind, chunks = R.parse_body(case['body'])
        text = chunks[0][1] if chunks else ''
        # the fault tools.xmlrpc answers with: the handler's own exception carries `text`; whatever else fails
        # here has an ASCII message (its exact wording is not compared)
        out.append('erx' + _cps(R.xmlrpc_texts(text if case['st'] == 'x' else 'some ascii message')[1]))
    size = None
    if ext.get('sf'):
        size = len(R.sf_data(case))
    elif case['body'].startswith('X:'):
        size = R.byte_len(R.parse_body(case['body'].split('|')[0])[1])
    if size is not None:
        try:
            from cherrypy.lib.static import make_boundary
            blen = len(make_boundary())
        except Exception:
            blen = 36
        out.append('mp%d:%d:%d' % (blen, len(R.CTS[case['ct']]), size))
    return ','.join(out) or '-'


def model_ac(case, ac):
    """Accept-Charset class -> what the model's request carries (the ordered list of charsets tried is C17's)"""
    if ac == 'ascii2':
        ac = 'ascii'
    if (case.get('ext') or {}).get('encu'):
        # tools.encode.encoding = 'utf-8': tried only when the client admits it, never the 500 of the default path
        return 'utf8' if ac in ('-', 'utf8', 'star', 'l1u8') else 'none'
    return ac


def model_line(case):
    tools = ''.join(TOOL_LETTER[t] for t in case['tools']) + ('j' if case['body'].startswith('J:') else '')
    if (case.get('ext') or {}).get('throw') and 'errfails' not in case['tools']:
        tools += 'b'        # (errors reach the trapper's bare 500: for the model an error_response that fails)
    tools = tools or '-'
    if case['page'] in R.TMPL_PAGES:
        page = 'pt'
    elif case['page'] == 'iter':
        page = 'pi:' + '/'.join(x.hex() for x in R.PAGES['iter'])
    else:
        page = 'pc:' + (R.PAGES[case['page']].hex() or '-')
    alts = []
    for body in case['body'].split('|'):
        if body.startswith('J:'):
            kind, chunks = R.parse_body(body)
            val = R.make_body(kind, chunks)
            try:
                from cherrypy import _json
                enc = [bytes(x) for x in _json.encode(val)]
            except Exception:           # the encoder is a parameter of the model; a broken one shows as a disagreement
                enc = []
            body = 'G:' + ','.join('b' + x.hex() for x in enc)
        if body.startswith('K:'):
            body = 'G:' + body[2:]        # an iterator object is a one-shot iterator for the model
        if body.startswith('R:'):
            kind, chunks = R.parse_body(body)
            body = 'R:t' + _cps(R.xmlrpc_texts(chunks[0][1] if chunks else '')[0])
        alts.append(body)
    body = '|'.join(alts)
    static = (case['body'].startswith('X:') and '|' not in case['body']) or (case.get('ext') or {}).get('sf')
    reqs = []
    for r in case['reqs']:
        rg = 'N'
        if static and r.get('range', '-') != '-':
            try:
                rs = R.ranges_for(case, r)
                rg = 'N' if rs is None else ('E' if rs == [] else '/'.join('%d-%d' % p for p in rs))
            except Exception:           # get_ranges (C16) is a parameter; if it breaks the request is modelled unranged
                rg = 'N'
        inm = 'match' if r['inm'].startswith('"') else r['inm']
        im = 'match' if r['im'].startswith('"') else r['im']
        reqs.append(','.join([r['m'], r['ae'], inm, im, model_ac(case, r['ac']), rg, r.get('cc', '-'),
                              str(r.get('t', 0)), str(r.get('proto', '11')), str(int(r.get('ims', 0))),
                              str(int(bool(int(r.get('acc', 1))))), str(int(int(r.get('ns', 0)) in (1, 2))),
                              r.get('ent', '-')]))
    hcl = 'N'
    if case['hcl']:
        hcl = str(R.own_length(case, R.parse_body(case['body'].split('|')[0])[1]))
    return ' '.join([tools, page, case['ct'], hcl, str(int(bool(case['hstream']))),
                     case['st'], body, case.get('hook', '-'), model_ext(case), ';'.join(reqs)])


# ----------------------------------------------------------------------------------------------
# oracle: the property statement on what crossed the WSGI boundary
# ----------------------------------------------------------------------------------------------
NOBODY = lambda code: code < 200 or code in (204, 205, 304)   # noqa: E731  (from the statement)


def cl_value(o):
    """(ok, value|None)"""
    cl = o['cl']
    if cl is None:
        return True, None
    if len(set(cl)) != 1 or not cl[0].isdigit():
        return False, None
    return True, int(cl[0])


def ct_canon(ct):
    if ct is None:
        return None
    base = ct.split(';')[0].strip().lower()
    if base.startswith('multipart/byteranges'):
        return 'multipart/byteranges'
    return ct.replace(' ', '').lower()


def f2_signature(case, o, cl):
    """finding C06-F2: an XML-RPC result / fault with non-ASCII characters is declared with its length in
    characters (xmlrpcutil._set_response), so fewer bytes are announced than the UTF-8 body has"""
    if case['body'].startswith('R:') and not o['aborted'] and not o['ce'] and cl is not None and o['delivered'] > cl:
        try:
            case['body'].encode('ascii')
            text = ''.join(chr(int(x)) for x in case['body'][3:].split('.') if x)
            text.encode('ascii')
        except (UnicodeError, ValueError):
            return 'C06-F2:xmlrpc_content_length_counts_characters'
    return None


def oracle_one(case, i, o, get_twin):
    """Failures of the statement for request i of the case.  Returns [(what, signature)]."""
    bad = []
    m = case['reqs'][i]['m']
    code = o['status']
    ok, cl = cl_value(o)
    if o.get('hang'):
        return [('no response within %d s (the request hangs)' % R.REQUEST_TIMEOUT, 'hang')]
    if code is None:
        return [('no (parsable) response status at the WSGI boundary', 'no_status')]
    if not ok:
        return [('malformed or contradictory Content-Length headers %r' % (o['cl'],), 'malformed_cl')]
    # (a response whose stream flag could not be observed is held to the streamed clauses only: they demand less)
    streamed = o['stream'] is None or o['stream']
    if NOBODY(code):
        # "1xx, 204, 205 and 304 responses carry neither body bytes nor Content-Length": every response, streamed or
        # not, whoever chose the status (finalize tests these statuses first and discards what was assigned before)
        if cl is not None or o['delivered'] != 0:
            bad.append(('%s %d response carries Content-Length=%r and %d body bytes'
                        % ('streamed' if streamed else 'non-streamed', code, cl, o['delivered']),
                        'nobody_status_framed'))
    elif not streamed:
        if cl is None:
            bad.append(('non-streamed %d response (%s) has no Content-Length' % (code, m), 'missing_cl'))
        elif m == 'HEAD':
            if o['delivered'] != 0:
                bad.append(('HEAD response delivered %d body bytes' % o['delivered'], 'head_has_body'))
        elif o['aborted'] or o['delivered'] != cl:
            bad.append(('non-streamed %d response: Content-Length=%d but %d bytes delivered%s'
                        % (code, cl, o['delivered'], ' (aborted: %s)' % o['aborted'] if o['aborted'] else ''),
                        f2_signature(case, o, cl) or 'cl_mismatch'))
    else:
        if m == 'HEAD':
            if o['delivered'] != 0:
                bad.append(('HEAD response delivered %d body bytes' % o['delivered'], 'head_has_body'))
        elif cl is not None and (o['aborted'] or o['delivered'] != cl):
            sig = f2_signature(case, o, cl) or 'stream_cl_mismatch'
            if case.get('hcl') and case['bname'] in TEXTY and 'encode' in case['tools'] and not o['aborted'] \
                    and o['status'] == 200 and not o['ce']:
                # the handler's own length on a str body under the streaming encode branch (finding C06-F1)
                sig = 'C06-F1:own_cl_text_body_streaming_encode'
            bad.append(('streamed %d response: Content-Length=%d but %d bytes produced%s'
                        % (code, cl, o['delivered'], ' (aborted: %s)' % o['aborted'] if o['aborted'] else ''), sig))
    if m == 'HEAD':
        # the GET's status line and headers as the application first committed to them: a producer that
        # fails during body iteration (after that point) is the handler's failure, and HEAD cannot see it
        g = get_twin()['first']
        gok, gcl = cl_value(g)
        if (g['status'], ct_canon(g['ct']), gcl) != (code, ct_canon(o['ct']), cl):
            bad.append(('HEAD answered status=%r Content-Type=%r Content-Length=%r but the corresponding GET '
                        'status=%r Content-Type=%r Content-Length=%r'
                        % (code, o['ct'], cl, g['status'], g['ct'], gcl), 'head_get_divergence'))
    return bad


CTMAP = {'text/html': 'html', 'text/plain': 'plain', 'application/json': 'json',
         'application/octet-stream': 'octet', 'multipart/byteranges': 'multipart', 'text/xml': 'xml'}
CSMAP = {'utf-8': 'utf8', 'iso-8859-1': 'latin1', 'us-ascii': 'ascii'}


def canon_impl(o):
    ok, cl = cl_value(o)
    ct = o['ct']
    if ct is None:
        cts = 'N'
    else:
        parts = [p.strip() for p in ct.split(';')]
        base = CTMAP.get(parts[0].lower(), '?')
        cs = '-'
        for p in parts[1:]:
            if p.lower().startswith('charset='):
                cs = CSMAP.get(p[8:].lower(), '?')
        cts = base + '/' + cs
    e = 'clean' if not o['aborted'] else ('nonbytes' if o['aborted'] == 'nonbytes' else 'raised')
    if o.get('status') is None:
        return {'S': None, 'CL': 'N', 'D': o['delivered'], 'E': e, 'ST': -1, 'CA': 0, 'CE': 0, 'CT': 'N'}
    return {'S': o['status'], 'CL': 'N' if cl is None else cl, 'D': o['delivered'], 'E': e,
            'ST': -1 if o['stream'] is None else int(bool(o['stream'])), 'CA': int(bool(o['cached'])), 'CE': int(o['ce'] == 'gzip'), 'CT': cts}


def canon_model(rec):
    d = dict(p.split('=', 1) for p in rec.strip().split(' '))
    cl = d['CL']
    return {'S': int(d['S']), 'CL': 'N' if cl == 'N' else (int(cl) if cl.isdigit() else cl), 'D': int(d['D']),
            'E': d['E'], 'ST': int(d['ST']), 'CA': int(d['CA']), 'CE': int(d['CE']), 'CT': d['CT'],
            'SRC': d['SRC'], 'GZ': int(d['GZ'])}


# Sources of the current body whose byte count the model knows as a number: only texts the *harness* supplies (handler
# values, custom error pages, the custom error_response, the marshalled XML-RPC result) and the empty body.  Every text
# the framework generates (error template, redirect note, bare_error, multipart/byteranges boundaries and part headers,
# XML-RPC faults, gzip framing) is a parameter: for those only the relations Content-Length = delivered bytes and
# delivered = 0 are compared, so rewording them cannot trip the comparison.
EXACT_SOURCES = ('handler', 'custom', 'none')


def compare(impl, model, tb=False):
    """List of observables on which the two sides differ (after canonicalisation)."""
    diff = []
    for k in ('S', 'E', 'ST', 'CA', 'CE', 'CT'):
        if impl[k] != model[k]:
            diff.append(k)
    if (impl['CL'] == 'N') != (model['CL'] == 'N'):
        diff.append('CL-presence')
    elif model['SRC'] in EXACT_SOURCES and not model['GZ']:
        if impl['CL'] != model['CL']:
            diff.append('CL')
        if impl['D'] != model['D']:
            diff.append('D')
    else:
        # page text / compressed size unknown to the model: compare the framing relation only
        if (impl['CL'] != 'N' and impl['CL'] == impl['D']) != (model['CL'] != 'N' and model['CL'] == model['D']):
            diff.append('CL=D')
        if (impl['D'] == 0) != (model['D'] == 0):
            diff.append('D=0')
    return diff


# ----------------------------------------------------------------------------------------------
# evaluation of cases (worker side: no ctx)
# ----------------------------------------------------------------------------------------------
def slim(o):
    return {k: v for k, v in o.items() if k != 'body'}


def eval_case(case):
    """Run one case on the real code.  Returns (obs list, oracle failures, model line)."""
    obs = R.run_case(case)
    bad = []
    for i, o in enumerate(obs):
        def twin(i=i):
            return R.run_case(case, upto=i + 1, override_last_method='GET')[-1]
        bad += oracle_one(case, i, o, twin)
    return [slim(o) for o in obs], bad, model_line(case)


def eval_chunk(cases):
    """-> ([(obs, oracle failures, model line)], lines of the anchored functions executed in this process)"""
    c06_cov.ensure()
    out = [eval_case(c) for c in cases]
    return out, c06_cov.take_hits()


_HITS = set()


def nontrivial(case):
    return bool(case['tools']) or bool(case.get('ext')) or case['st'] != '-' or '|' in case['body'] or case.get('hook', '-') != '-' or case['bname'] not in ('bytes',) or len(case['reqs']) > 1 \
        or any(r['m'] != 'GET' or r['ae'] != '-' or r['inm'] != '-' or r['im'] != '-' for r in case['reqs'])


def still_fails(case, sig):
    try:
        return any(s == sig for _, s in eval_case(normalise(case))[1])
    except common.HarnessError:
        return False


def shrink_case(case, sig):
    """Greedy minimisation of a failing case: fewer requests, fewer tools, default headers / page / flags."""
    cur = json.loads(json.dumps(case))
    changed = True
    rounds = 0
    while changed and rounds < 14:
        changed = False
        rounds += 1
        cands = []
        for i in range(len(cur['reqs'])):
            if len(cur['reqs']) > 1:
                c = json.loads(json.dumps(cur))
                del c['reqs'][i]
                cands.append(c)
        for t in cur['tools']:
            c = json.loads(json.dumps(cur))
            c['tools'] = [x for x in c['tools'] if x != t]
            cands.append(c)
        for i, r in enumerate(cur['reqs']):
            for k, dflt in (('ae', '-'), ('inm', '-'), ('im', '-'), ('ac', '-'), ('range', '-'), ('m', 'GET'),
                            ('cc', '-'), ('proto', '11'), ('ims', 0), ('acc', 1), ('ns', 0), ('ent', '-')):
                if r.get(k, dflt) != dflt:
                    c = json.loads(json.dumps(cur))
                    c['reqs'][i][k] = dflt
                    cands.append(c)
        for k, dflt in (('page', 'tmpl'), ('hcl', 0), ('hstream', 0), ('ct', 'html'), ('st', '-'), ('hook', '-')):
            if cur.get(k, dflt) != dflt:
                c = json.loads(json.dumps(cur))
                c[k] = dflt
                cands.append(c)
        for k in list(cur.get('ext') or {}):
            c = json.loads(json.dumps(cur))
            del c['ext'][k]
            cands.append(c)
        for simple in ('bytes', 'gbytes'):
            if cur['bname'] not in ('bytes', simple):
                c = json.loads(json.dumps(cur))
                c['bname'], c['body'] = simple, BODIES[simple]
                cands.append(c)
        for c in cands:
            if still_fails(c, sig):
                cur = normalise(c)
                changed = True
                break
    return cur


def real_only(case):
    """the dimensions of a case that only the real side sees (texts, tracebacks, levels, paths), for keys and reports"""
    only = ','.join('%s=%s' % (k, v) for k, v in sorted((case.get('ext') or {}).items())
                    if k in ('tb', 'te', 'emsg', 'fo', 'gzl', 'u8', 'throw', 'encu', 'md'))
    ns3 = any(int(r.get('ns', 0)) == 3 for r in case['reqs'])
    return (' #' + only if only else '') + (' #path-not-found' if ns3 else '')


def process(ctx, cases, compare_model=True, procs=1):
    if not cases:
        return
    # initialise in the parent: forked workers inherit its temp directory (removed by the parent's atexit
    # hook; pool workers never run atexit hooks, so they must not create directories of their own)
    R.init()
    if procs > 1 and len(cases) > 200:
        n = max(1, len(cases) // (procs * 4))
        chunks = [cases[i:i + n] for i in range(0, len(cases), n)]
        results = []
        for part, hits in common.parallel_map(eval_chunk, chunks, procs):
            results += part
            _HITS.update(tuple(h) for h in hits)
    else:
        results, hits = eval_chunk(cases)
        _HITS.update(tuple(h) for h in hits)
    lines = [r[2] for r in results]
    model = ctx.model(lines) if compare_model else None
    for idx, (case, (obs, bad, line)) in enumerate(zip(cases, results)):
        # (distinct = distinct driver line + the dimensions only the real side sees: texts, tracebacks, levels ...)
        line_full = line + real_only(case)
        ctx.case(case, nontrivial=nontrivial(case), key=line_full)
        ctx.count('body:' + case['bname'])
        ctx.count('status-action:' + case['st'])
        ctx.count('ntools:%d' % len(case['tools']))
        for t in case['tools']:
            ctx.count('tool:' + t)
        for k, v in (case.get('ext') or {}).items():
            ctx.count('ext:%s%s' % (k, '' if v in (1, True) else '=%s' % v))
        for r in case['reqs']:
            for k, dflt in (('proto', '11'), ('ims', 0), ('acc', 1), ('ns', 0), ('ent', '-')):
                if str(r.get(k, dflt)) != str(dflt):
                    ctx.count('req:%s=%s' % (k, r[k]))
        ctx.count('history:' + '+'.join(r['m'] for r in case['reqs']))
        for r in case['reqs']:
            if r.get('cc', '-') != '-' or r.get('dt'):
                ctx.count('cache-directive:%s/dt%s' % (r.get('cc', '-'), r.get('dt', 0)))
        if case.get('hook', '-') != '-':
            ctx.count('hook:' + case['hook'].split(':')[1][:1] + '@' + case['hook'].split(':')[0])
        for o in obs:
            ctx.count('resp:%s' % (o['status'] if (o['status'] in KEY_CODES or o['status'] is None)
                                   else '%dxx' % (o['status'] // 100)))
            ctx.count('framing:' + ('stream' if o['stream'] else 'buffered') + '/' +
                      ('cl' if o['cl'] else 'nocl') + ('/aborted' if o['aborted'] else ''))
            if o['cached']:
                ctx.count('cache-hit')
            if o['ce']:
                ctx.count('gzipped')
        for what, sig in bad:
            if ctx.match_known(sig) is None and len(ctx.oracle_failures) < 3:
                small = shrink_case(case, sig)
                if small != case:
                    again = [w for w, s2 in eval_case(small)[1] if s2 == sig]
                    if again:
                        ctx.oracle_fail(small, again[0] + ' :: ' + model_line(small) + real_only(small) +
                                        '  (shrunk from: ' + line_full + ')', sig)
                        continue
            ctx.oracle_fail(case, what + ' :: ' + line_full, sig)
        if model is not None and not bad:
            ctx.compared()
            recs = model[idx].split(' | ')
            if len(recs) != len(obs):
                raise common.HarnessError('driver returned %d records for %d requests' % (len(recs), len(obs)))
            for i, (o, rec) in enumerate(zip(obs, recs)):
                ci, cm = canon_impl(o), canon_model(rec)
                d = compare(ci, cm, tb=bool((case.get('ext') or {}).get('tb')))
                if d:
                    ctx.disagree(case, ci, cm, 'request %d differs in %s :: %s' % (i, d, line_full))
                    break


# ----------------------------------------------------------------------------------------------
# generators
# ----------------------------------------------------------------------------------------------
def regen_patterns():
    """request histories that force a URI with a stored copy to be regenerated, then hit it"""
    return [
        [req('GET'), req('GET', cc='maxage10', dt=20), req('HEAD'), req('GET')],
        [req('GET'), req('GET', cc='nocache'), req('GET'), req('HEAD', dt=5)],
        [req('GET'), req('HEAD', cc='pragma', dt=1), req('GET', cc='pragma'), req('HEAD')],
        [req('GET'), req('GET', dt=700), req('GET', dt=1), req('HEAD')],
        [req('HEAD'), req('GET', cc='maxage0', dt=1), req('HEAD'), req('GET', cc='maxage0')],
        [req('GET'), req('GET', cc='badmaxage'), req('HEAD', cc='maxage1000', dt=20), req('GET')],
        [req('GET', cc='nostore'), req('GET'), req('GET', cc='nostore', dt=5), req('HEAD', cc='maxage0', dt=5),
         req('GET')],
        [req('GET'), req('POST'), req('GET'), req('GET', cc='maxage10', dt=20), req('HEAD')],
    ]


def systematic_quick():
    out = []
    # every status action x every body shape, plain GET and HEAD
    for b in BODIES:
        for st in STATUSES:
            out.append(mk(b, st))
    for b in ('bytes', 'gen', 'text', 'static', 'graise'):
        for st in STATUSES:
            out.append(mk(b, st, tools=['encode'], reqs=[req('HEAD')]))
    # every tool subset x representative handlers, with the request headers that activate the tools
    reps = [('bytes', '-', 0), ('bytes', '-', 1), ('tgen', '-', 0), ('nested', '-', 0), ('static', '-', 0),
            ('bytes', 'e404', 0), ('bytes', 's204', 0)]
    for tools in ALL_SUBSETS:
        for b, st, hcl in reps:
            out.append(mk(b, st, tools, [req('GET', ae='gzip')], hcl=hcl,
                          page='short' if st == 'e404' else 'tmpl'))
    # error pages: every error-page kind x statuses in / out of the IE table x gzip
    for page in PAGES:
        for st in ('e404', 'e403', 'e402', 'e500', 'x', 'i', 'e410', 'e416'):
            for tools in ([], ['gzip'], ['gzip', 'stream'], ['stream'], ['caching'], ['etags', 'gzip', 'encode']):
                for m in ('GET', 'HEAD'):
                    out.append(mk('bytes', st, tools, [req(m, ae='gzip')], page=page))
        # the 406 that tools.gzip installs itself (set_response without raising)
        for b in ('bytes', 'gen', 'static', 'big'):
            for tools in (['gzip'], ['gzip', 'stream'], ['gzip', 'caching'], ['gzip', 'etags', 'flatten']):
                for m in ('GET', 'HEAD'):
                    for hcl in (0, 1):
                        out.append(mk(b, '-', tools, [req(m, ae='idq0')], page=page, hcl=hcl))
    # error_response itself fails -> bare_error from Request.run, for every way to get into handle_error
    for b, st, hook in (('bytes', 'x', '-'), ('tgen', '-', '-'), ('nested', '-', '-'), ('graise', '-', '-'),
                        ('bytes', 'r306', '-'), ('bytes', '-', '60:x:0'), ('bytes', 'e404', '90:e402:0'),
                        ('static', '-', '77:x:1'), ('bytes', 's204', '-')):
        for tools in (['errfails'], ['errfails', 'stream'], ['errfails', 'gzip', 'caching'], ['errfails', 'etags']):
            for m in METHODS:
                out.append(mk(b, st, tools, [req(m, ae='gzip')], hook=hook, hcl=1))
    # caching histories
    for tools in (['caching'], ['caching', 'gzip'], ['caching', 'etags'], ['caching', 'stream'],
                  ['caching', 'gzip', 'etags', 'encode', 'expires', 'flatten'], ['caching', 'encode', 'stream']):
        for b in ('bytes', 'gen', 'text', 'static', 'empty', 'big'):
            for st in ('-', 's204', 'e404', 's201'):
                for m1, m2 in (('GET', 'GET'), ('HEAD', 'GET'), ('GET', 'HEAD'), ('POST', 'GET'), ('GET', 'POST')):
                    for ae in ('-', 'gzip'):
                        out.append(mk(b, st, tools, [req(m1, ae=ae), req(m2, ae=ae)], page='short'))
    # a URI that already has a stored copy is regenerated (copy too old for the request's max-age / for the
    # cache's delay, no-cache, Pragma, POST) with a body of a *different length*, then hit by GET / HEAD;
    # text and non-text entities (json_out, octet-stream: the encode tool leaves Content-Length alone)
    patterns = regen_patterns()
    for b, ct in (('gbytes', 'html'), ('gbytes', 'octet'), ('gshrink', 'octet'), ('gshrink', 'plain'),
                  ('ggen', 'json'), ('gjson', 'json'), ('gjson', 'html'), ('gempty', 'octet'), ('gtext', 'html'),
                  ('gstatic', 'octet'), ('gstatic', 'plain')):
        for enc in ([], ['encode']):
            for gz in ([], ['gzip']):
                for extra in ([], ['etags'], ['stream']):
                    for pat in patterns:
                        reqs = [dict(r, ae='gzip' if gz else '-') for r in pat]
                        out.append(mk(b, '-', ['caching'] + enc + gz + extra, reqs, ct=ct, page='short'))
    # a cached copy answered with 304 / 412 (conditions evaluated against the stored entity tag)
    for tools in (['caching', 'etags'], ['caching', 'etags', 'gzip'], ['caching', 'etags', 'gzip', 'encode', 'stream']):
        for b in ('bytes', 'gen', 'text', 'static'):
            for cond in ('star', 'match', 'other'):
                for m in METHODS:
                    out.append(mk(b, '-', tools, [req('GET', ae='gzip'), req(m, ae='gzip', inm=cond)]))
                    out.append(mk(b, '-', tools, [req('GET', ae='gzip'), req(m, ae='gzip', im=cond)]))
    # conditional requests against automatic entity tags
    for b in ('bytes', 'gen', 'static', 'text'):
        for m in METHODS:
            for inm in CONDS:
                for im in CONDS:
                    out.append(mk(b, '-', ['etags', 'gzip', 'encode'], [req(m, ae='gzip', inm=inm, im=im)]))
    # static ranges
    for rg in RANGES:
        for tools in ([], ['gzip'], ['encode'], ['etags'], ['stream'], ['caching']):
            for m in ('GET', 'HEAD'):
                for hcl in (0, 1):
                    out.append(mk('static', '-', tools, [req(m, ae='gzip', rng=rg)], hcl=hcl))
    # Range header texts around the boundaries of entities of several sizes, through serve_file / serve_fileobj (handler)
    # and tools.staticfile: 206 / 416 / 200 must all have Content-Length = delivered bytes
    for b, n in (('static1', 1), ('static', 20), ('static785', 785), ('estatic', 0)):
        for rg in boundary_ranges(n) + RANGES[8:]:
            for tools in ([], ['stream'], ['gzip', 'etags'], ['caching']):
                for m in ('GET', 'HEAD'):
                    rq = req(m, ae='gzip', rng=rg)
                    out.append(mk(b, '-', tools, [rq, dict(rq)] if 'caching' in tools else [rq],
                                  ext={'fo': int(m == 'HEAD')}))
    for n in (7, 54, 785):
        for rg in boundary_ranges(n) + RANGES[8:]:
            for tools in ([], ['stream'], ['encode', 'gzip']):
                out.append(mk('gen', '-', tools, [req('GET', ae='gzip', rng=rg)], ct='plain', ext={'sf': n}))
    # the same entity through serve_fileobj on a file object with fileno() whose read() returns at most 97 bytes at a
    # time (ext fo = 2): whole entity, single ranges longer than one read, multipart/byteranges
    for rg in ['-', 'bytes=0-', 'bytes=2-500', 'bytes=100-784', 'bytes=1-97', 'bytes=1-98', 'bytes=0-193',
               'bytes=-300', 'bytes=0-120,300-700', 'bytes=5-99999'] + boundary_ranges(785)[:6]:
        for tools in ([], ['stream'], ['gzip', 'etags'], ['caching']):
            for m, proto in (('GET', '11'), ('HEAD', '11'), ('GET', '10')):
                rq = req(m, ae='gzip', rng=rg, proto=proto)
                out.append(mk('static785', '-', tools, [rq, dict(rq)] if 'caching' in tools else [rq], ext={'fo': 2}))
    # a MethodDispatcher resource (GET and POST, no HEAD of its own) with the tools switched on in the verb methods'
    # own _cp_config (ext md): GET, HEAD (answered through GET) and POST must be framed like the path-configured twin
    for b in ('bytes', 'gen', 'text', 'json', 'big', 'static', 'file', 'empty'):
        for tools in ([], ['gzip'], ['encode'], ['etags'], ['encode', 'gzip'], ['gzip', 'etags'], ['caching'],
                      ['encode', 'gzip', 'etags', 'caching'], ['stream'], ['expires'], ['flatten']):
            if b in TEXTY and 'encode' not in tools:
                continue
            for m in ('GET', 'HEAD', 'POST'):
                for ac in ('-', 'latin1') if b in TEXTY else ('-',):
                    rq = req(m, ae='gzip', ac=ac)
                    out.append(mk(b, '-', tools, [rq, dict(rq)] if 'caching' in tools else [rq], ext={'md': 1}))
    for st in ('s204', 's304', 'e404', 'r303', 'x'):
        for m in ('GET', 'HEAD'):
            out.append(mk('bytes', st, ['gzip', 'etags'], [req(m, ae='gzip')], ext={'md': 1}))
    # a user hook raising / rewriting / re-statusing at every position of the before_finalize chain
    for prio in HOOK_PRIOS:
        for act in HOOK_ACTS:
            for once in (0, 1):
                hook = '%d:%s:%d' % (prio, act, once)
                for b, tools, rq in (('bytes', ['gzip', 'etags', 'caching'], req('GET', ae='gzip')),
                                     ('static', ['gzip', 'etags'], req('GET', ae='gzip', rng='bytes=2-5')),
                                     ('static', ['stream'], req('HEAD', rng='bytes=2-5')),
                                     ('gen', ['flatten', 'stream', 'gzip'], req('GET', ae='gzip')),
                                     ('big', ['caching', 'expires'], req('HEAD'))):
                    out.append(mk(b, '-', tools, [rq, dict(rq)] if 'caching' in tools else [rq], hook=hook,
                                  hcl=1, page='short'))
    # charsets
    for b in TEXTY:
        for ac in ACS:
            for tools in (['encode'], ['encode', 'stream'], ['encode', 'gzip']):
                for hcl in (0, 1):
                    out.append(mk(b, '-', tools, [req('GET', ac=ac, ae='gzip')], hcl=hcl))
    out += systematic_round2()
    return [normalise(c) for c in out]


def systematic_round2():
    """the stages before the page handler, the other built-in tools, HTTP/1.0, XML-RPC, deep nesting"""
    out = []
    mixes = ([], ['gzip'], ['stream'], ['caching'], ['etags', 'gzip'], ['encode', 'stream', 'gzip'],
             ['caching', 'gzip', 'etags', 'encode', 'expires', 'flatten'])
    # XML-RPC results and faults (ASCII / non-ASCII) x tool mixes x methods
    for b in XRPC:
        for st in ('-', 'x', 'e404', 's204', 'r0', 'r304'):
            for tools in mixes + (['encode'], ['encode', 'stream'], ['encode', 'gzip'], ['etags']):
                for m in METHODS:
                    for hs in (0, 1):
                        rq = req(m, ae='gzip')
                        out.append(mk(b, st, tools, [rq, dict(rq)] if 'caching' in tools else [rq], hstream=hs,
                                      page='short'))
        for hook in ('40:e402:0', '77:w' + H(b'REWRITTEN') + ':1', '90:s204:0', '60:r303:1'):
            for tools in ([], ['encode'], ['gzip', 'stream']):
                out.append(mk(b, '-', tools, [req('POST', ae='gzip')], hook=hook))
    # tools.accept / tools.json_in / tools.trailing_slash refuse or redirect before the page handler runs
    for b, st, hcl in (('bytes', '-', 1), ('tgen', '-', 0), ('bytes', 'e404', 0), ('json', '-', 0), ('static', '-', 1),
                       ('gbytes', '-', 0)):
        for tools in mixes:
            for page in ('tmpl', 'short', 'iter'):
                hist = 'caching' in tools
                for acc in (0, 2):
                    for m in ('GET', 'HEAD'):
                        rq = req(m, ae='gzip', acc=acc)
                        out.append(mk(b, st, tools, [req('GET', ae='gzip'), rq] if hist else [rq], page=page, hcl=hcl,
                                      ext={'acc': 1, 'rh': hcl}))
                for ent in ENTS:
                    rq = req('POST', ae='gzip', ent=ent)
                    out.append(mk(b, st, tools, [req('GET', ae='gzip'), rq, req('GET', ae='gzip')] if hist else [rq],
                                  page=page, hcl=hcl, ext={'jin': 1}))
                for noslash in (0, 1, 2):
                    for m in METHODS:
                        rq = req(m, ae='gzip', ns=2 if noslash == 2 else 1)
                        noslash = noslash % 2
                        out.append(mk(b, st, tools, [rq, dict(rq)] if hist else [rq], page=page, hcl=hcl,
                                      ext={'noslash': noslash, 'sf': int(b == 'tgen')}))
    # tools.staticfile in front of the page handler: ranges, If-Modified-Since, methods, HTTP/1.0
    for rg in RANGES:
        for tools in ([], ['gzip'], ['encode'], ['etags'], ['stream'], ['caching'], ['encode', 'gzip', 'stream']):
            for m in METHODS:
                for proto in ('11', '10'):
                    for ims in (0, 1):
                        rq = req(m, ae='gzip', rng=rg, proto=proto, ims=ims)
                        out.append(mk('tgen', '-', tools, [rq, dict(rq)] if 'caching' in tools else [rq],
                                      ct='plain', ext={'sf': 1}))
    for rg in ('-', 'bytes=2-5', 'bytes=2-5,7-9', 'bytes=50-'):
        for tools in ([], ['gzip', 'stream'], ['etags'], ['caching']):
            for m in METHODS:
                for st in ('-', 's201', 's404', 's304'):
                    for ims in (0, 1):
                        for proto in ('11', '10'):
                            rq = req(m, ae='gzip', rng=rg, proto=proto, ims=ims)
                            out.append(mk('static', st, tools, [rq, dict(rq)] if 'caching' in tools else [rq],
                                          hcl=1, ext={'fo': int(proto == '11'), 'gzl': 9 if ims else 1}))
    for b in ('fileobj', 'efileobj'):
        for tools in ([], ['gzip'], ['stream'], ['caching', 'gzip'], ['encode', 'etags']):
            for m in METHODS:
                rq = req(m, ae='gzip', rng='bytes=2-5')
                out.append(mk(b, '-', tools, [rq, dict(rq)] if 'caching' in tools else [rq], ext={'fo': 1, 'gzl': 9}))
    # HTTP/1.0: the status of a redirect without one
    for st in ('r0', 'r303', 'e404', '-'):
        for tools in ([], ['gzip'], ['stream'], ['caching', 'expires']):
            for m in METHODS:
                out.append(mk('bytes', st, tools, [req(m, ae='gzip', proto='10')], hcl=1))
    # tools.sessions: sessions.save collapses an iterator body (failsafe: also after an earlier hook failed)
    for b in ('gen', 'nested', 'deep', 'tgen', 'graise', 'bytes', 'static', 'file', 'ntext', 'kclose', 'fileobj'):
        for tools in ([], ['flatten'], ['stream'], ['gzip'], ['caching'], ['etags', 'gzip', 'flatten'],
                      ['encode', 'flatten'], ['expires', 'flatten', 'caching']):
            for hook in ('-', '40:e402:0', '40:x:0', '60:r303:1', '60:w' + H(b'REWRITTEN') + ':0', '40:s204:0'):
                for m in ('GET', 'HEAD'):
                    rq = req(m, ae='gzip')
                    out.append(mk(b, '-', tools, [rq, dict(rq)] if 'caching' in tools else [rq], hook=hook,
                                  page='short', ext={'sess': 1}))
    # tools.autovary (+ caching: one variant per history)
    for b in ('bytes', 'gen', 'text', 'static', 'gbytes'):
        for tools in (['caching'], ['caching', 'gzip'], ['caching', 'etags', 'encode'], ['gzip'], ['stream', 'gzip']):
            for m1, m2 in (('GET', 'GET'), ('GET', 'HEAD'), ('HEAD', 'GET'), ('GET', 'POST')):
                for inm in ('-', 'star'):
                    out.append(mk(b, '-', tools, [req(m1, ae='gzip', inm=inm), req(m2, dt=5), req('GET', dt=700)],
                                  ext={'av': 1}))
    # request.error_response overrides x every way into handle_error
    for er in ERS[1:]:
        for b, st, hook in (('bytes', 'x', '-'), ('tgen', '-', '-'), ('nested', '-', '-'), ('bytes', 'r306', '-'),
                            ('bytes', '-', '60:x:0'), ('bytes', 'e404', '90:x:1'), ('static', '-', '77:x:1'),
                            ('bytes', 'i', '-'), ('ntext', '-', '-')):
            for tools in ([], ['stream'], ['gzip', 'caching'], ['etags'], ['flatten', 'gzip']):
                for m in METHODS:
                    rq = req(m, ae='gzip')
                    out.append(mk(b, st, tools, [rq, dict(rq)] if 'caching' in tools else [rq], hook=hook, hcl=1,
                                  ext={'er': er, 'sess': int(er == 'c503')}))
    # tools.expires variants (secs=0 marks the response Pragma: no-cache, which tee_output honours)
    for xp in (1, 2, 3):
        for b in ('bytes', 'static', 'gbytes', 'gen'):
            for tools in (['expires', 'caching'], ['expires', 'caching', 'etags'], ['expires', 'caching', 'gzip'],
                          ['expires']):
                for pat in ([req('GET'), req('GET'), req('HEAD')], [req('HEAD'), req('GET', dt=20), req('POST')],
                            [req('GET', proto='10'), req('GET', inm='star'), req('GET', dt=700)]):
                    out.append(mk(b, '-', tools, [dict(r, ae='gzip') for r in pat], ext={'xp': xp}))
    # nested iterators of any depth, with str leaves and failing producers, with / without flatten
    for b in ('deep', 'ntext', 'nraise', 'nraise0', 'lnested', 'nested'):
        for tools in ALL_SUBSETS:
            if 'caching' in tools and 'expires' in tools:
                continue
            rq = req('GET', ae='gzip', ac='latin1')
            out.append(mk(b, '-', tools, [rq, req('HEAD', ae='gzip')] if 'caching' in tools else [rq]))
    # tools.response_headers configures the Content-Length; a Transfer-Encoding set by the handler is just a header
    for b in ('bytes', 'gen', 'empty', 'text', 'static', 'fileobj', 'list'):
        for st in ('-', 's204', 'e404', 'r303', 'x', 's201'):
            for tools in mixes:
                for m in ('GET', 'HEAD'):
                    rq = req(m, ae='gzip')
                    out.append(mk(b, st, tools, [rq, dict(rq)] if 'caching' in tools else [rq], hcl=0,
                                  ext={'rh': 1, 'te': 1}))
    # error texts: HTTPError with its own message, tracebacks in the page, a template file, forced charset
    for st in ('e404', 'e402', 'e500', 'x'):
        for page in ('tmpl', 'file', 'short'):
            for tools in ([], ['gzip'], ['stream'], ['encode', 'gzip']):
                for m in ('GET', 'HEAD'):
                    out.append(mk('bytes', st, tools, [req(m, ae='gzip')], page=page,
                                  ext={'emsg': 1, 'tb': 1}))
    # multi-byte characters in every text the framework builds a page around: exception messages (shown in the
    # traceback of the error page, of bare_error and of the trapper's 500), the note of a failing custom page, the
    # message of an HTTPError, redirect targets, a path echoed by the 404 page - on the ordinary, the double-fault
    # (error_response fails) and the trapper (throw_errors) paths
    for b, st, hook in (('bytes', 'x', '-'), ('bytes', 'e404', '-'), ('bytes', 'e500', '-'), ('tgen', '-', '-'),
                        ('graise', '-', '-'), ('nraise', '-', '-'), ('bytes', 'r303', '-'), ('bytes', 'r0', '-'),
                        ('bytes', 'r306', '-'), ('bytes', 'i', '-'), ('bytes', '-', '60:x:0'), ('bytes', 'e404', '90:x:1'),
                        ('static', '-', '77:x:1'), ('kclose', '-', '-'), ('xrpcu', 'x', '-')):
        for path in ([], ['errfails'], ['throw']):
            for tb in (0, 1):
                for page in ('tmpl', 'raise', 'file', 'short'):
                    for tools in ([], ['stream'], ['gzip'], ['caching', 'gzip'], ['encode', 'etags']):
                        for m in ('GET', 'HEAD', 'POST'):
                            rq = req(m, ae='gzip')
                            ext = {'u8': 1, 'tb': tb, 'emsg': 1, 'throw': int('throw' in path)}
                            out.append(mk(b, st, tools + [t for t in path if t == 'errfails'],
                                          [rq, dict(rq)] if 'caching' in tools else [rq], page=page, hcl=1, ext=ext))
    for tb in (0, 1):
        for path in ([], ['errfails'], ['throw']):
            for tools in ([], ['stream'], ['gzip'], ['caching'], ['encode', 'gzip', 'etags']):
                for m in METHODS:
                    for page in ('tmpl', 'raise', 'short'):
                        rq = req(m, ae='gzip', ns=3)
                        out.append(mk('bytes', '-', tools + [t for t in path if t == 'errfails'],
                                      [rq, dict(rq)] if 'caching' in tools else [rq], page=page,
                                      ext={'u8': 1, 'tb': tb, 'throw': int('throw' in path)}))
    for b in TEXTY:
        for ac in ACS:
            for tools in (['encode'], ['encode', 'stream']):
                for ct in ('html', 'xml'):
                    out.append(mk(b, '-', tools, [req('GET', ac=ac)], ct=ct, ext={'encu': 1}))
                    out.append(mk(b, '-', tools + ['gzip'], [req('GET', ac=ac, ae='gzip')], ct='xml', hcl=1))
    return out


def random_ext(rng, tools):
    ext = {}
    if rng.random() < 0.35:
        for k, p in (('rh', 0.2), ('acc', 0.12), ('jin', 0.12), ('noslash', 0.1), ('sess', 0.2), ('av', 0.08),
                     ('sf', 0.12), ('tb', 0.25), ('encu', 0.1), ('te', 0.1), ('emsg', 0.1), ('fo', 0.15),
                     ('u8', 0.5), ('throw', 0.08)):
            if rng.random() < p:
                ext[k] = 1
        if ext.get('sf') and rng.random() < 0.5:
            ext['sf'] = rng.choice([1, 7, 785, 20])
        if ext.get('fo'):
            ext['fo'] = rng.choice([1, 2])        # 2: the open file read through an object whose reads come back short
        if rng.random() < 0.3:
            ext['md'] = 1                         # MethodDispatcher resource, tools in the verb methods' _cp_config
        if rng.random() < 0.15:
            ext['er'] = rng.choice(ERS[1:])
        if 'expires' in tools and rng.random() < 0.5:
            ext['xp'] = rng.choice([1, 2, 3])
        if 'gzip' in tools and rng.random() < 0.3:
            ext['gzl'] = rng.choice([1, 9])
    return ext


def random_case(rng):
    tools = [t for t in TOOLS if rng.random() < 0.4]
    b = rng.choice(list(BODIES))
    if 'caching' in tools and rng.random() < 0.5:
        b = rng.choice(GROWING)
    rpool = RANGES
    if rng.random() < 0.5:
        rpool = boundary_ranges(rng.choice([0, 1, 20, 54, 785]))
    st = rng.choice(STATUSES) if rng.random() < 0.6 else '-'
    if rng.random() < 0.08:
        tools.append('errfails')
    nreq = 1
    if 'caching' in tools:
        nreq = rng.choice([1, 2, 3, 3, 4, 5])
    elif rng.random() < 0.1:
        nreq = 2
    reqs = []
    ae0 = rng.choice(AES) if rng.random() < 0.3 else ('gzip' if 'gzip' in tools else '-')
    ext = random_ext(rng, tools)
    ns = rng.choice([1, 2, 3]) if rng.random() < 0.08 else 0
    proto0 = '10' if rng.random() < 0.08 else '11'
    for _ in range(nreq):
        reqs.append(req(rng.choice(['GET', 'GET', 'HEAD', 'POST']),
                        ae=ae0 if rng.random() < 0.8 else rng.choice(AES),
                        inm=rng.choice(CONDS) if rng.random() < 0.35 else '-',
                        im=rng.choice(CONDS) if rng.random() < 0.2 else '-',
                        ac=rng.choice(ACS) if rng.random() < 0.4 else '-',
                        rng=rng.choice(rpool) if rng.random() < 0.5 else '-',
                        cc=rng.choice(CCS) if ('caching' in tools and rng.random() < 0.45) else '-',
                        dt=rng.choice(DTS) if 'caching' in tools else 0,
                        proto=proto0 if rng.random() < 0.9 else rng.choice(['10', '11']),
                        ims=int(rng.random() < 0.15),
                        acc=rng.choice([0, 2]) if (ext.get('acc') and rng.random() < 0.6) else 1,
                        ns=ns,
                        ent=rng.choice(ENTS) if rng.random() < (0.7 if ext.get('jin') else 0.05) else '-'))
    hook = '-'
    if rng.random() < 0.25:
        hook = '%d:%s:%d' % (rng.choice(HOOK_PRIOS), rng.choice(HOOK_ACTS), rng.choice([0, 1, 1]))
    return normalise(mk(b, st, tools, reqs, page=rng.choice(PAGES),
                        ct=rng.choice(['html', 'html', 'plain', 'json', 'octet', 'xml']),
                        hcl=int(rng.random() < 0.35), hstream=int(rng.random() < 0.15), hook=hook, ext=ext))


def core_lattice():
    """body shapes x status actions x all tool subsets x methods (Accept-Encoding: gzip)."""
    for b in BODIES:
        for st in STATUSES:
            for tools in ALL_SUBSETS:
                for m in METHODS:
                    if 'caching' in tools:
                        yield normalise(mk(b, st, tools, [req('GET', ae='gzip'), req(m, ae='gzip')], page='short'))
                    else:
                        yield normalise(mk(b, st, tools, [req(m, ae='gzip')], page='short'))


def hook_lattice():
    """every probe hook (position x action x once) x every tool subset x three handlers"""
    for prio in HOOK_PRIOS:
        for act in HOOK_ACTS:
            for once in (0, 1):
                hook = '%d:%s:%d' % (prio, act, once)
                for tools in ALL_SUBSETS:
                    for b, m in (('bytes', 'GET'), ('static', 'GET'), ('tgen', 'HEAD')):
                        rq = req(m, ae='gzip', rng='bytes=2-5')
                        yield normalise(mk(b, '-', tools, [rq, dict(rq)] if 'caching' in tools else [rq],
                                           hook=hook, hcl=1, page='short'))


def regen_lattice():
    """every regeneration history x every changing body x content type x every tool subset with caching"""
    for pat in regen_patterns():
        for b in GROWING:
            for ct in ('html', 'json', 'octet'):
                for tools in ALL_SUBSETS:
                    if 'caching' in tools:
                        reqs = [dict(r, ae='gzip' if 'gzip' in tools else '-') for r in pat]
                        yield normalise(mk(b, '-', tools, reqs, ct=ct, page='short'))


def pre_lattice():
    """the stages before the page handler / the other tools x every tool subset x three handlers x methods"""
    kinds = [({'acc': 1}, dict(acc=0), '-'), ({'jin': 1}, dict(ent='bad'), '-'), ({}, dict(ns=1), '-'),
             ({'sf': 1}, dict(rng='bytes=2-5', ims=0), '-'), ({'sf': 1}, dict(ims=1), '-'), ({'sess': 1}, {}, '-'),
             ({'rh': 1}, {}, '-'), ({'er': 'c503'}, {}, 'x'), ({'er': 'r303'}, {}, 'x'), ({'xp': 1}, {}, '-'),
             ({'av': 1}, {}, '-'), ({}, dict(proto='10', rng='bytes=2-5'), 'r0')]
    for ext, rq, st in kinds:
        for tools in ALL_SUBSETS:
            for b in ('bytes', 'tgen', 'static', 'deep'):
                for m in METHODS:
                    r1 = req(m, ae='gzip', **rq)
                    yield normalise(mk(b, st, tools, [req('GET', ae='gzip'), r1] if 'caching' in tools else [r1],
                                       page='short', hcl=int(b == 'bytes'), ext=ext))
    for b in XRPC:
        for st in ('-', 'x', 'e404'):
            for tools in ALL_SUBSETS:
                for hs in (0, 1):
                    r1 = req('POST', ae='gzip')
                    yield normalise(mk(b, st, tools, [r1, dict(r1)] if 'caching' in tools else [r1], hstream=hs))


def range_lattice():
    """Range header texts around the boundaries of static entities of three sizes x every tool subset"""
    for b, n in (('static1', 1), ('static', 20), ('static785', 785)):
        for rg in boundary_ranges(n):
            for tools in ALL_SUBSETS:
                rq = req('GET', ae='gzip', rng=rg)
                yield normalise(mk(b, '-', tools, [rq, req('HEAD', ae='gzip', rng=rg)] if 'caching' in tools else [rq]))


def corpus_cases():
    d = os.path.join(common.CORPUS, PROPERTY)
    out = []
    if os.path.isdir(d):
        for f in sorted(os.listdir(d)):
            if f.endswith('.json'):
                c = json.load(open(os.path.join(d, f)))
                out.append(normalise(c.get('case', c)))
    return out


def tables(ctx):
    return {'CpModel/Gen/C06Tables.lean': T.lean_source()}


def run(ctx):
    for e in ctx.known:
        if e.get('status') in ('known', 'fixed') and e.get('witness'):      # (a repaired finding's witness: regression)
            process(ctx, [normalise(e['witness'])])
    process(ctx, corpus_cases())
    procs = ctx.budget(4, 16)
    sysq = systematic_quick()
    process(ctx, sysq, procs=procs)
    n = ctx.budget(10000, 100000)
    process(ctx, [random_case(ctx.rng) for _ in range(n)], procs=procs)
    if not ctx.quick():
        core = list(core_lattice())
        process(ctx, core, procs=procs)
        hooks = list(hook_lattice())
        process(ctx, hooks, procs=procs)
        ctx.extra['exhaustive'] = True
        ctx.extra['exhaustive_core_lattice'] = len(core)
        ctx.extra['exhaustive_hook_lattice'] = len(hooks)
        regen = list(regen_lattice())
        process(ctx, regen, procs=procs)
        ctx.extra['exhaustive_regeneration_lattice'] = len(regen)
        pre = list(pre_lattice())
        process(ctx, pre, procs=procs)
        ctx.extra['exhaustive_pre_handler_lattice'] = len(pre)
        rl = list(range_lattice())
        process(ctx, rl, procs=procs)
        ctx.extra['exhaustive_range_lattice'] = len(rl)
    ctx.extra['systematic_block'] = len(sysq)
    report_coverage(ctx)


def report_coverage(ctx):
    """which lines of the anchored functions the whole run (all worker processes) executed"""
    try:
        cov = c06_cov.Coverage()
        cov.add_hits(_HITS)
        cov.report(ctx)
    except Exception as e:          # introspection of a changed tree failed: evidence only, never a verdict
        ctx.note('coverage report failed: %r' % (e,))
    finally:
        c06_cov.stop()


def status_sweep():
    """Table-targeted probe: every status 100..599 set by the handler / raised as HTTPError / HTTPRedirect."""
    out = []
    for code in range(100, 600):
        for b in ('bytes', 'gen'):
            for m in ('GET', 'HEAD'):
                c = mk(b, '-', [], [req(m)])
                c['st'] = 's%d' % code
                out.append(normalise(c))
        if 400 <= code:
            for page in ('short', 'tmpl'):
                c = mk('bytes', '-', [], [req('GET')], page=page)
                c['st'] = 'e%d' % code
                out.append(normalise(c))
        if 300 <= code < 400:
            c = mk('bytes', '-', [], [req('GET')], hcl=1)
            c['st'] = 'r%d' % code
            out.append(normalise(c))
    return out


def search(ctx, around=None):
    """Deeper oracle-only hunt (called when a proof or the correspondence broke)."""
    process(ctx, status_sweep(), compare_model=False, procs=8)
    if ctx.oracle_failures:
        return
    if around is not None:
        near = []
        base = normalise(around)
        for tools in ALL_SUBSETS:
            for m in METHODS:
                c = json.loads(json.dumps(base))
                c['tools'] = sorted(set(tools))
                c['reqs'][-1]['m'] = m
                near.append(normalise(c))
        process(ctx, near, compare_model=False, procs=8)
        if ctx.oracle_failures:
            return
    process(ctx, [random_case(ctx.rng) for _ in range(40000)], compare_model=False, procs=8)
    if not ctx.oracle_failures:
        process(ctx, list(core_lattice()), compare_model=False, procs=16)


def replay(ctx, case):
    case = normalise(case)
    obs, bad, line = eval_case(case)
    print('case   :', json.dumps(case, sort_keys=True))
    print('line   :', line)
    m = ctx.model([line])
    recs = m[0].split(' | ') if m else [None] * len(obs)
    for i, o in enumerate(obs):
        print('request %d impl : %s' % (i, json.dumps(canon_impl(o), sort_keys=True)))
        if recs[i]:
            print('request %d model: %s' % (i, json.dumps(canon_model(recs[i]), sort_keys=True)))
    process(ctx, [case])
