"""C11: traversal-grammar generators.  Cases are JSON dicts; `{TOP}` stands for the sandbox top."""
import itertools

ROOTS = ['root', 'r', 'static.d', 'r+t', 'ro[o]t']
# a sibling directory whose name the root's name MATCHES when it is (mis)read as a pattern (regex / glob)
TWINS = {'static.d': 'static-d', 'r+t': 'rrt', 'ro[o]t': 'root'}
STORES = ['sess', 'sess2']
WSGI_VARIANTS = ['std', 'std', 'std', 'noindex', 'rootmount', 'nested', 'slashdir', 'unnorm', 'match',
                 'norootrel', 'script', 'dblslash', 'file', 'file-rel', 'debug', 'ctypes', 'regexsec', 'relroot',
                 'rootdd', 'indexsub', 'indexdot', 'matchhead', 'file-norel', 'file-debug', 'file-dbg-missing',
                 'file-dbg-dir', 'file-dbg-match', 'file-dbg-norel', 'file-dbg-relroot']
MOUNT = {'std': '/static', 'noindex': '/static', 'rootmount': '', 'nested': '/s/t', 'slashdir': '/static',
         'unnorm': '/static', 'match': '/static', 'norootrel': '/static', 'script': '/static',
         'dblslash': '/static', 'file': '/sf', 'file-rel': '/sf', 'debug': '/static', 'ctypes': '/static',
         'regexsec': '/st.t(c+', 'relroot': '/static', 'rootdd': '/static', 'indexsub': '/static',
         'indexdot': '/static', 'matchhead': '/static', 'file-norel': '/sf', 'file-debug': '/sf',
         'file-dbg-missing': '/sf', 'file-dbg-dir': '/sf', 'file-dbg-match': '/sf', 'file-dbg-norel': '/sf', 'file-dbg-relroot': '/sf'}
SPELLINGS = ['abs', 'abs', 'slash', 'unnorm', 'dotslash', 'rel+root', 'rel+root/', 'dblslash', 'rel-noroot',
             'dotdot', 'slashes', 'rel+relroot', 'rel+root-dd', 'relcwd']
S_SPELLINGS = ['abs', 'abs', 'slash', 'unnorm', 'dotslash', 'dblslash', 'relcwd', 'dotdot', 'slashes']
SECTIONS = ['/static', '/static', '/static', '/', 'global', '/static/', '/s/t', '', '/static\\', '/sta', '/static//',
            'static', '/st.t(c+', '/[a-z]*', '/static\\/\\', '/stat?c', '/s|t', '/static/../static', '/%73tatic']

UPS = ['..', '..', '..', '..', '%2e%2e', '%2E%2e', '.%2e', '%2e.', '%252e%252e', '...', '%c0%ae%c0%ae',
       '‥', '%e2%80%a5', '. .', '..;', '..%00', '.', '%2e']
SEPS = ['/', '/', '/', '/', '%2f', '%2F', '//', '\\', '%5c', '/./', '%252f', '%c0%af', '%ef%bc%8f', '%2f%2f']
INSIDE = ['f.txt', 'index.html', 'sub', 'sub/', 'sub/g.txt', 'sub/deep/h.txt', 'sub/deep', 'a', 'a/', '',
          'sp%20ace.txt', 'sp ace.txt', '%66.txt', 'sub%2fg.txt', 'b%5cc.txt', '%c3%a9.txt', 'nope.txt',
          'sub/nope', 'F.TXT']
DIRS_IN = ['sub', 'sub/deep', 'a', 'nope', 'f.txt', 'sub/.', 'a//']


def depth_of(d):
    return len([c for c in d.split('/') if c not in ('', '.')])


def enc_some(rng, s):
    """Percent-encode a few characters of s."""
    out = []
    for c in s:
        r = rng.random()
        if r < 0.08 and ord(c) < 128:
            out.append('%%%02x' % ord(c))
        elif r < 0.1 and ord(c) < 128:
            out.append('%%25%02x' % ord(c))
        else:
            out.append(c)
    return ''.join(out)


def outside_targets(rn):
    t = [rn + '-evil/secret.txt', rn + 'x/secret.txt', 'other/secret.txt', 'canary.txt', 'sess/session-real',
         rn + '-evil', rn + 'x', rn + '-evil/', '']
    for o in ROOTS:
        if o != rn:
            t.append(o + '/f.txt')
    if rn in TWINS:
        t += [TWINS[rn] + '/secret.txt'] * 4 + [TWINS[rn], TWINS[rn] + '/']
    return t


def rel_path(rng, rn):
    """(url part below the mount point, template name)."""
    t = rng.choices(['benign', 'sibling', 'absolute', 'prefixext', 'inner', 'special', 'soup', 'outback',
                     'winpath', 'params', 'long', 'nul', 'order'],
                    weights=[12, 30, 12, 14, 10, 10, 12, 5, 5, 4, 2, 4, 5])[0]
    if t == 'benign':
        p = rng.choice(INSIDE)
    elif t == 'sibling':
        down = rng.choice(['', '', '', 'sub', 'sub/deep', 'a', 'sub', 'nope', 'f.txt'])
        k = depth_of(down) + 1 + rng.choice([0, 0, 0, 0, 1, -1, 2])
        k = max(k, 1)
        same = rng.random() < 0.6
        up, sep = rng.choice(UPS), rng.choice(SEPS)
        parts = [down] if down else []
        for _ in range(k):
            parts.append(up if same else rng.choice(UPS))
        tgt = rng.choice(outside_targets(rn))
        parts += [x for x in tgt.split('/')] if tgt else []
        if same:
            p = sep.join(parts)
        else:
            p = ''
            for i, x in enumerate(parts):
                p += x + (rng.choice(SEPS) if i < len(parts) - 1 else '')
    elif t == 'absolute':
        lead = rng.choice(['%2f', '%2F', '/', '//', '%2f%2f', '\\', '%5c', '/%2f', '%252f', '', '\\/', '%5c%2f',
                           '/\\', '%2f/', './/', '%00/'])
        tgt = rng.choice(['{TOP}/canary.txt', '{TOP}/' + rn + '-evil/secret.txt', '/etc/passwd', '{TOP}/' + rn + 'x',
                          '{TOP}/' + rn + '/f.txt', '{TOP}', '/', 'etc/passwd'])
        tgt = tgt.lstrip('/') if lead and rng.random() < 0.7 else tgt
        p = lead + tgt
    elif t == 'prefixext':
        up, sep = rng.choice(UPS[:8]), rng.choice(SEPS[:6])
        name = rng.choice([rn + 'x', rn + '-evil', rn + 'x', rn + '-evil', rn, rn + '.', rn + '%00', rn + ' ',
                           rn.upper(), rn + '/', rn[:-1] if len(rn) > 1 else rn + 'y'])
        tail = rng.choice(['secret.txt', 'secret.txt', 'f.txt', '', 'sub/g.txt'])
        parts = [up, name] + ([tail] if tail else [])
        if rng.random() < 0.25:
            parts = parts[1:]
        p = sep.join(parts)
    elif t == 'inner':
        p = rng.choice(['sub/../f.txt', 'sub/deep/../../f.txt', 'nope/../f.txt', 'a/./../sub/g.txt',
                        'f.txt/../f.txt', 'sub/deep/..', 'sub/..', 'a/..', 'sub/../', 'sub/../..', 'a/../../',
                        'sub/%2e%2e/f.txt', 'sub%2f..%2ff.txt', 'sub/deep/../g.txt', './f.txt', 'sub/./g.txt',
                        'sub//g.txt', 'a/../a/../f.txt', '../' + rn + '/f.txt', '..%2f' + rn + '%2ff.txt',
                        'sub/../../' + rn + '/sub/g.txt', '../' + rn, '../' + rn + '/'])
    elif t == 'outback':
        # leaves the root through an (existing or missing) outside directory and comes back in
        out = rng.choice([rn + '-evil', rn + 'x', 'other', 'nonexistent', 'canary.txt', 'sess', 'sess/session-'])
        ups = '/'.join(['..'] * len(out.split('/')))
        back = rng.choice([rn + '/f.txt', rn + '/sub/g.txt', rn, rn + '/', rn + '-evil/secret.txt', 'canary.txt'])
        p = rng.choice(UPS[:5]) + '/' + out + '/' + ups + '/' + back
    elif t == 'winpath':
        # Windows separators / drive letters / UNC: on POSIX every one of them is an ordinary character
        tgt = rng.choice(['canary.txt', rn + '-evil\\secret.txt', rn + '-evil/secret.txt', 'Windows\\win.ini', 'f.txt'])
        p = rng.choice(['..\\..\\' + tgt, '..\\' + tgt, 'C:\\' + tgt, 'C:/' + tgt, 'c:' + tgt, 'C:..\\' + tgt,
                        '\\\\host\\share\\' + tgt, '\\\\?\\C:\\' + tgt, '%5c..%5c..%5c' + tgt, '..%5c' + tgt,
                        '..%255c' + tgt, 'sub\\..\\..\\' + tgt, 'sub\\g.txt', 'b\\c.txt', 'b%5cc.txt', 'b/c.txt',
                        '..\\/' + tgt, '..\\/..\\/' + tgt, '\\../' + tgt, '/\\../..\\/../' + tgt, 'C:%5c..%2f..%2f' + tgt,
                        '{TOP}\\canary.txt', 'C:{TOP}/canary.txt'])
    elif t == 'params':
        tgt = rng.choice(['canary.txt', rn + '-evil/secret.txt', 'f.txt'])
        p = rng.choice(['..;/' + tgt, '..;/..;/' + tgt, '..;x=y/' + tgt, ';/../' + tgt, 'sub;v=1/../../' + tgt,
                        'f.txt;v=1', 'f.txt;', ';f.txt', 'sub;/g.txt', 'sub/g.txt;type=a', '..%3b/' + tgt,
                        ';..;/;..;/' + tgt, '.;/.;/' + tgt, '..;/..;/..;/' + tgt, 'sub/..;/..;/../' + tgt,
                        ';/;/;', '..;..;/' + tgt, '../;/' + tgt, 'sub/;/../../../' + tgt])
    elif t == 'long':
        tgt = rng.choice(['canary.txt', rn + '-evil/secret.txt', rn + '/f.txt'])
        p = rng.choice(['a/' * 2100 + '../' * 2100 + '../' + tgt, 'A' * 5000, '../' * 1500 + tgt,
                        'sub/' + '../' * 3000 + tgt, './' * 3000 + 'f.txt', '/' * 5000 + 'f.txt',
                        'sub/../' * 800 + 'f.txt', 'sub/deep/../../' * 700 + '../' + tgt, 'B' * 255 + '/../f.txt',
                        'B' * 256 + '/../f.txt', '%2e%2e%2f' * 1400 + tgt, 'x' * 4090 + '/../../' + tgt,
                        '..%2f' * 300 + '{TOP}/' + tgt])
    elif t == 'nul':
        tgt = rng.choice(['canary.txt', rn + '-evil/secret.txt', 'f.txt'])
        p = rng.choice(['%00', 'f.txt%00', 'f.txt%00.html', '..%00/' + tgt, '%00/../' + tgt, 'f.txt%00/../../' + tgt,
                        '..%2f%00', '../' + tgt + '%00', '../' + tgt + '%00.txt', '%00../' + tgt, '.%00./' + tgt,
                        '..%00/..%00/' + tgt, 'sub/%00/../../../' + tgt, '%2500', '%c0%80', '../%c0%80/../' + tgt,
                        '\x00', 'a\x00b', '..\x00/' + tgt, 'index.html%00', 'sub/%00', '%00%00%00'])
    elif t == 'order':
        # percent-decoding happens exactly once, before the test, and the tested string is the one used
        tgt = rng.choice(['canary.txt', rn + '-evil/secret.txt', 'f.txt'])
        up = rng.choice(['%252e%252e', '%25%32%65%25%32%65', '%%32%65%%32%65', '%2%65%2%65', '%u002e%u002e', '%c0%2e%c0%2e',
                         '%e0%80%ae%e0%80%ae', '%252E%252E', '%25252e%25252e', '.%252e', '%2e%252e', '%2e%2e', '%2E%2e',
                         '%2e%2E', '%2e.', '.%2E', '%f0%80%80%ae%f0%80%80%ae', '%2e%2e%', '%2e%2e%2', '%%2e%2e'])
        sep = rng.choice(['/', '%2f', '%252f', '%25%32%66', '%2F', '/', '%5c', '%255c'])
        p = sep.join([up] * rng.choice([1, 1, 2, 3]) + [tgt])
    elif t == 'special':
        p = rng.choice(['%00', 'f.txt%00', 'f.txt%00.html', '\x00', 'a\x00b', 'A' * 300, 'sub/' + 'B' * 260 + '/../../..',
                        '~', '~root', '~/x', ' ', '%20', '%0d%0a', 'f.txt/', 'f.txt/.', '.', './', '..', '../', '%2e',
                        'index.html/..', '%', '%%', '%2', '%zz', '%c0', '%e2%80', '%ff%fe', '?', '#', ';', '*',
                        '..%c0%af..%c0%af', '%uff0e%uff0e/', '..\\..\\', '..%5c..%5c', '\\..\\..', '/\\../',
                        '....//', '....//....//' + 'canary.txt', '.../...//', '..././', 'sub/....//f.txt'])
    else:
        atoms = UPS + SEPS + ['sub', 'a', 'f.txt', rn, rn + 'x', rn + '-evil', 'secret.txt', 'canary.txt',
                              '{TOP}', '%00', '~', 'nope']
        p = ''.join(rng.choice(atoms) for _ in range(rng.randint(1, 7)))
    if rng.random() < 0.12 and '{TOP}' not in p:
        p = enc_some(rng, p)
    if rng.random() < 0.06:
        p += rng.choice(['/', '//', '/.', '%2f', '\\'])
    return p, t


def static_case(rng):
    rn = rng.choice(ROOTS)
    rel, t = rel_path(rng, rn)
    method = rng.choices(['GET', 'HEAD', 'POST', 'PUT', 'get'], weights=[80, 10, 5, 3, 2])[0]
    if rng.random() < 0.55:
        v = rng.choice(WSGI_VARIANTS)
        mount = MOUNT[v]
        r = rng.random()
        if r < 0.85:
            path = mount + '/' + rel
        elif r < 0.92:
            path = mount + rel
        elif r < 0.96:
            path = mount + rng.choice(['//', '/./', '\\', '/%2f', '%2f']) + rel
        else:
            path = rng.choice(['/./', '//', '/x/..']) + mount.lstrip('/') + '/' + rel
        if not path.startswith('/'):
            path = '/' + path
        return {'k': 'static', 'mode': 'wsgi', 'rn': rn, 'variant': v, 'method': method, 'path': path, 'tmpl': t}
    section = rng.choice(SECTIONS)
    base = '/' if section == 'global' else section
    r = rng.random()
    if r < 0.7:
        prefix = base.rstrip('\\/') + '/'
    elif r < 0.8:
        prefix = base.rstrip('\\/') + rng.choice(['//', '\\', '/\\/', '', '/./'])
    elif r < 0.9:
        prefix = '/static/'
    else:
        prefix = rng.choice(['', '/', '/st', '/static/x/', '//static//'])
    c = {'k': 'static', 'mode': 'direct', 'rn': rn, 'section': section, 'spelling': rng.choice(SPELLINGS),
         'index': rng.choice(['', 'index.html', 'index.html', 'g.txt', 'sub/index.html', './index.html', 'index.html/',
                              'sub/', 'nope.html', 'a', 'b\\c.txt', 'sp ace.txt']),
         'match': rng.choice(['', '', '', r'\.txt$', r'^/static', r'(?i)\.TXT$', r'\.\.', r'^[^%]*$']),
         'method': method, 'path_info': prefix + rel, 'tmpl': t}
    if rng.random() < 0.02:
        c['index'] = rng.choice([['index.html'], ['index.html', 'index.htm'], ['../canary.txt']])   # not a string: TypeError
    if rng.random() < 0.15:
        c['debug'] = True
    if rng.random() < 0.15:
        c['content_types'] = rng.choice([{'txt': 'text/x-c11'}, {}, {'html': 'text/html', 'txt': 'x/y'}])
    return c


# ---- sessions -----------------------------------------------------------------------------------
def session_id(rng, store):
    t = rng.choices(['benign', 'escape', 'inside', 'special', 'lockish', 'soup', 'outback'],
                    weights=[10, 40, 18, 14, 6, 12, 6])[0]
    if t == 'benign':
        v = rng.choice(['real', 'real2', 'abc', 'nope', '0123456789abcdef0123456789abcdef01234567', 'a', 'A-b_c.d'])
    elif t == 'escape':
        first = rng.choice(['', '', '', 'a', 'a', 'nope', '..', 'real', '/inner', '.', '/.'])
        depth = 1 + len([c for c in first.split('/') if c not in ('', '.')]) if first.startswith('/') else 1
        k = depth + rng.choice([0, 0, 0, 1, 1, -1, 2])
        k = max(k, 1)
        tgt = rng.choice([store + '-evil/victim', store + 'x/victim', 'canary.txt', 'session-out', store,
                          store + '/session-real', 'sess2/session-real', 'root/f.txt', '', store + '-evil',
                          store + '-evil/new', store + 'x/victim', store + '-evil/victim', 'new-file',
                          store + '/../canary.txt'])
        sep = rng.choice(['/', '/', '/', '/', '//', '/./', '\\'])
        parts = [first] + ['..'] * k + ([tgt] if tgt else [])
        v = sep.join(parts)
        if sep != '/' and rng.random() < 0.5:
            v = v.replace(sep, '/', 1)
        if rng.random() < 0.15:
            # same id, padded with "./" pieces to the length of a generated id (32 / 40 / 64 / 128 characters)
            n = rng.choice([32, 40, 40, 64, 128])
            i = v.find('/')
            if i >= 0 and len(v) < n:
                pad = n - len(v)
                v = v[:i + 1] + './' * (pad // 2) + ('/' if pad % 2 else '') + v[i + 1:]
    elif t == 'outback':
        out = rng.choice([store + '-evil', store + 'x', 'other', 'nonexistent', 'canary.txt', 'root/sub'])
        ups = '/'.join(['..'] * len(out.split('/')))
        back = rng.choice([store + '/session-real', store + '/session-real2', store + '/session-new', store,
                           store + '-evil/victim', 'canary.txt'])
        v = rng.choice(['', 'a', 'nope']) + '/../../' + out + '/' + ups + '/' + back
    elif t == 'inside':
        v = rng.choice(['/../session-real', 'a/../session-real', '/inner', 'a/..', '/..', '/.', '/', 'a/', '',
                        '/../session-real.lock', '/../session-a/../session-real', 'a/../session-/inner', '/./inner',
                        '//inner', '/inner/', '/inner/..', '/inner/../inner', 'nope/../session-real',
                        'real/../session-real2', '/../session-real2', 'a/../session-new', '/../session-', 'a/.',
                        # aliases of a live session (a78b01e: never looked at, never adopted)
                        'real/', 'real//', 'real/.', 'real/./', 'real2/', 'x/../session-real', 'nope/../session-real2',
                        '/../session-real/', 'real/../session-real', '/inner/../../session-real', 'real\x00/../session-real'])
    elif t == 'special':
        v = rng.choice(['\x00', 'a\x00b', '/../\x00', 'A' * 300, '/' + 'B' * 260 + '/../../..', '..\\..\\x', '\\..\\',
                        '%2e%2e%2f', '%2e%2e/%2e%2e/canary.txt', '‥/', '∕..', ' ', ';', '"', ',', '\n',
                        '\r\nX: y', 'é', 'real;x', 'real x', '../..', '..', '.', '../canary.txt',
                        '/../../../../../../../../etc/passwd', '/../..//etc/passwd', '~', '~/x', '$HOME', '*', '?'])
    elif t == 'lockish':
        v = rng.choice(['real.lock', '/../x.lock', '.lock', '/...lock', '/../..lock', '/../../' + store + '.lock',
                        '/..', '/../.'])
    else:
        atoms = ['..', '..', '/', '/', '/', '.', 'a', store, store + '-evil', store + 'x', 'victim', 'real',
                 'session-real', '\\', '\x00', 'inner', 'canary.txt', '//', 'session-']
        v = ''.join(rng.choice(atoms) for _ in range(rng.randint(1, 8)))
    return v, t


CLASS_CPS = list(range(0, 256)) + [0x100, 0x2025, 0x2215, 0x2044, 0xFF0F, 0xFF0E, 0xFF3C, 0x29F8, 0xD7FF, 0xE000,
                                    0xFFFD, 0xFFFF, 0x10000, 0x1F600, 0x10FFFF]
CLASS_SHAPES = ['{c}', 'a{c}b', '..{c}..', '{c}..{c}', '..{c}', '{c}/../../{store}-evil/victim', '/..{c}/../{store}-evil/victim',
                '/..{c}..{c}{store}-evil{c}victim', 'real{c}', '{c}real', '/../..{c}', 'a/..{c}/..{c}/canary.txt']


def byte_class_id(rng, store, cp=None, shape=None):
    """An id built around ONE character of a given class (every byte value, os.sep, NUL, newline, a few
    non-latin-1 code points): only '/' separates, whatever else the id contains."""
    cp = rng.choice(CLASS_CPS) if cp is None else cp
    shape = rng.choice(CLASS_SHAPES) if shape is None else shape
    return shape.replace('{c}', chr(cp)).replace('{store}', store)


def sess_unit_case(rng):
    store = rng.choice(STORES)
    if rng.random() < 0.18:
        v, t = byte_class_id(rng, store), 'byteclass'
    else:
        v, t = session_id(rng, store)
    c = {'k': 'sess_unit', 'store': store, 'spelling': rng.choice(S_SPELLINGS), 'id': v,
         'op': rng.choice(['exists', 'load', 'save', 'delete', 'lock', 'exists', 'load', 'save', 'delete', 'lock',
                           'release', 'len']), 'tmpl': t}
    if rng.random() < 0.1:
        c['debug'] = True
    return c


def sess_config_cases():
    """Configuration corners of FileSession (a busy lock, a lock_timeout of the wrong type, debug logging)."""
    return [{'k': 'sess_unit', 'store': 'sess', 'spelling': 'abs', 'id': 'real', 'op': 'lock-busy', 'tmpl': 'config'},
            {'k': 'sess_unit', 'store': 'sess2', 'spelling': 'slash', 'id': 'busy-new', 'op': 'lock-busy', 'tmpl': 'config',
             'debug': True},
            {'k': 'sess_unit', 'store': 'sess', 'spelling': 'abs', 'id': 'x', 'op': 'bad-timeout', 'tmpl': 'config'},
            {'k': 'sess_unit', 'store': 'sess', 'spelling': 'abs', 'id': 'real', 'op': 'lock', 'tmpl': 'config', 'debug': True},
            {'k': 'sess_unit', 'store': 'sess', 'spelling': 'abs', 'id': '/inner/x', 'op': 'load', 'tmpl': 'config',
             'debug': True},
            {'k': 'cleanup', 'store': 'sess2', 'spelling': 'abs', 'files': [['session-abc', 'e'], ['session-u', 'u']],
             'debug': True}]


def byte_class_sweep(every):
    """Systematic: every code point of CLASS_CPS (every `every`-th in the quick tier, offset by the caller) as a
    whole id and inside a dot-dot shape, through each of the five methods in turn."""
    out = []
    ops = ['exists', 'load', 'save', 'delete', 'lock']
    for n, cp in enumerate(CLASS_CPS):
        if n % every[0] != every[1]:
            continue
        for j, shape in enumerate(['{c}', '..{c}..', '/..{c}/../{store}-evil/victim']):
            out.append({'k': 'sess_unit', 'store': 'sess', 'spelling': 'abs',
                        'id': shape.replace('{c}', chr(cp)).replace('{store}', 'sess'),
                        'op': ops[(n + j) % 5], 'tmpl': 'byteclass'})
    return out


def sess_wsgi_case(rng):
    store = rng.choice(STORES)
    v, t = session_id(rng, store)
    if rng.random() < 0.12:
        v, t = byte_class_id(rng, store, cp=rng.randrange(0, 256)), 'byteclass'
    if rng.random() < 0.04:
        v = None
    elif any(ord(c) > 255 for c in v):
        v = 'real'
        t = 'benign'
    return {'k': 'sess_wsgi', 'store': store, 'spelling': rng.choice(S_SPELLINGS), 'id': v,
            'action': rng.choice(['none', 'read', 'write', 'delete', 'regenerate']), 'tmpl': t,
            'cstyle': rng.choice(['auto', 'auto', 'octal', 'bslash', 'mixed'])}


def cleanup_case(rng):
    names = ['session-abc', 'session-abc.lock', 'other.txt', 'session-x y', 'sessionX', '.lock', 'session-.lock',
             'session-old', 'session-zz', 'session-d', 'Session-up', 'session-\\..\\x', 'session-', 'session-\n',
             'session-\u00e9', 'session-a.lock.lock', 'session-.lock.x', 'SESSION-abc', 'session-x.lockx', 'x.lock',
             'session-..', 'session-.', 'session-%2e%2e', 'session-\u2025', 'session', 'session-abc.LOCK',
             'session-' + 'L' * 200]
    files = []
    for n in rng.sample(names, rng.randint(0, 6)):
        st = rng.choice(['u', 'z', 'f', 'e', 'e'])
        if n == 'session-d':
            st = 'dir'
        files.append([n, st])
    c = {'k': 'cleanup', 'store': 'sess2', 'spelling': rng.choice(S_SPELLINGS), 'files': files}
    if rng.random() < 0.15:
        c['debug'] = True
    if rng.random() < 0.2:
        c['fl'] = 'links'       # the store also holds symbolic links named session-*
    return c


# ---- sandbox flavour with symbolic links ----------------------------------------------------------
L_ATOMS = ['..', '..', '..', 'other', 'lnk', 'lnk_rel', 'lnk_file', 'f.txt', 'only-in-x.txt', 'only-in-xy.txt', 'x', 'y', 'z',
           'l_out_dir', 'l_in', 'sub', 'l_up', 'l_out_file', 'l_abs', 'l_loop', 'l_dangling', 'secret.txt', 'canary.txt',
           '.', '', 'deep.txt', 'g.txt']


def links_rel(rng, rn):
    r = rng.random()
    if r < 0.3:       # links the operator put inside the root
        return rng.choice(['l_out_dir/secret.txt', 'l_out_dir', 'l_out_dir/', 'l_out_file', 'l_abs', 'l_in/g.txt', 'l_in',
                           'l_in/', 'l_loop', 'l_loop/x', 'l_dangling', 'sub/l_up/f.txt', 'sub/l_up/sub/l_up/index.html',
                           'l_in/../f.txt', 'l_out_dir/../canary.txt', 'l_out_dir/../' + rn + '/f.txt', 'l_in/l_up/l_abs',
                           'l_out_dir/lnk/deep.txt', 'l_out_dir/lnk/../../' + rn + '/only-in-x.txt']), 'l-inside'
    if r < 0.7:       # out of the root and back through a directory link that sits outside it
        lnk = rng.choice(['lnk', 'lnk', 'lnk_rel'])
        up = rng.choice(['..', '..', '..', '%2e%2e', '.%2e'])
        tail = rng.choice([rn + '/only-in-x.txt', rn + '/f.txt', rn + '/', rn, rn + '/nope.txt', rn + '-evil/secret.txt',
                           'canary.txt'])
        shape = rng.choice(['{u}/other/{l}/{u}/{u}/{t}', '{u}/other/{l}/{u}/{u}/{t}', '{u}/other/{l}/{u}/{t}',
                            '{u}/other/{l}/deep.txt/{u}/{u}/{u}/{t}', 'sub/{u}/{u}/other/{l}/{u}/{u}/{t}',
                            '{u}/other/{l}/{u}/{u}/{u}/{t}', '{u}/other/{l}/./{u}/{u}/{t}', '{u}/other/lnk_file/{u}/{t}',
                            '{u}/other/{l}/{u}/' + rn + '/{u}/{u}/{t}'])
        return shape.replace('{u}', up).replace('{l}', lnk).replace('{t}', tail), 'l-outback'
    return '/'.join(rng.choice(L_ATOMS + [rn]) for _ in range(rng.randint(1, 8))), 'l-soup'


def links_static_case(rng):
    rn = rng.choice(ROOTS[:2])
    rel, t = links_rel(rng, rn)
    if rng.random() < 0.6:
        v = rng.choice(['std', 'noindex', 'slashdir', 'unnorm'])
        return {'k': 'static', 'fl': 'links', 'mode': 'wsgi', 'rn': rn, 'variant': v, 'method': 'GET',
                'path': MOUNT[v] + '/' + rel, 'tmpl': t}
    return {'k': 'static', 'fl': 'links', 'mode': 'direct', 'rn': rn, 'section': '/static',
            'spelling': rng.choice(['abs', 'slash', 'rel+root', 'dotdot']), 'index': rng.choice(['', 'index.html']),
            'match': '', 'method': rng.choice(['GET', 'GET', 'HEAD']), 'path_info': '/static/' + rel, 'tmpl': t}


def links_sess_case(rng):
    store = rng.choice(STORES)
    first = {'sess': rng.choice(['', 'a']), 'sess2': 'b'}[store]      # session-<first> is a directory of the store
    r = rng.random()
    if r < 0.35:
        v, t = rng.choice(['l_out', 'l_in', 'l_dir', 'l_dir/secret.txt', 'l_dir/../canary.txt', 'l_out/..', 'l_in.lock',
                           first + '/../session-l_out', first + '/../session-l_dir/lnk/deep.txt']), 'l-inside'
    elif r < 0.8:
        lnk = rng.choice(['lnk', 'lnk', 'lnk_rel'])
        tail = rng.choice([store + '/session-v', store + '/session-real', store + '/session-new', store,
                           store + '-evil/victim', 'canary.txt'])
        shape = rng.choice(['{f}/../../other/{l}/../../{t}', '{f}/../../other/{l}/../../{t}', '{f}/../../other/{l}/../{t}',
                            '{f}/../../other/{l}/../../../{t}', '{f}/../../other/{l}/./../../{t}'])
        v, t = shape.replace('{f}', first).replace('{l}', lnk).replace('{t}', tail), 'l-outback'
    else:
        v = first + '/' + '/'.join(rng.choice(L_ATOMS + [store, 'session-v', 'session-real'])
                                   for _ in range(rng.randint(1, 7)))
        t = 'l-soup'
    if rng.random() < 0.5:
        return {'k': 'sess_unit', 'fl': 'links', 'store': store, 'spelling': rng.choice(['abs', 'slash', 'dotdot']), 'id': v,
                'op': rng.choice(['exists', 'load', 'save', 'delete', 'lock']), 'tmpl': t}
    return {'k': 'sess_wsgi', 'fl': 'links', 'store': store, 'spelling': rng.choice(['abs', 'slash']), 'id': v,
            'action': rng.choice(['none', 'read', 'write', 'delete', 'regenerate']), 'tmpl': t,
            'cstyle': rng.choice(['auto', 'octal'])}


L_TREE = {
    '': ['root', 'r', 'other', 'x', 'sess', 'sess2', 'canary.txt', 'sub0'],
    'root': ['f.txt', 'sub', 'a', 'l_out_dir', 'l_out_file', 'l_abs', 'l_in', 'l_loop', 'l_dangling', 'index.html'],
    'root/sub': ['g.txt', 'deep', 'l_up', 'index.html'], 'root/sub/deep': ['h.txt'],
    'other': ['secret.txt', 'lnk', 'lnk_rel', 'lnk_file'], 'x': ['y', 'root', 'r', 'sess'], 'x/y': ['z', 'root'],
    'x/y/z': ['deep.txt'], 'x/root': ['f.txt', 'only-in-x.txt'], 'sess': ['session-real', 'session-l_out', 'session-l_in',
                                                                         'session-l_dir', 'session-', 'session-a'],
}
L_LINKS = {'root/l_out_dir': 'other', 'root/l_in': 'root/sub', 'root/sub/l_up': 'root', 'other/lnk': 'x/y/z',
           'other/lnk_rel': 'x/y/z', 'sess/session-l_dir': 'other'}


def lres_case(rng):
    """A path through the sandbox with links, for `lresolve` against os.stat / os.lstat: mostly a walk along
    existing names (through links as well), with '..' after a link, detours and missing names."""
    cur, parts = '', []
    for _ in range(rng.randint(1, 9)):
        r = rng.random()
        if r < 0.62 and cur in L_TREE:
            c = rng.choice(L_TREE[cur])
            parts.append(c)
            cur = (cur + '/' + c) if cur else c
            cur = L_LINKS.get(cur, cur)
        elif r < 0.8:
            if cur in ('', '?'):
                continue            # never above the sandbox top: the model tree ends there
            parts.append('..')
            cur = cur.rpartition('/')[0]
        elif r < 0.9:
            parts.append(rng.choice(['.', '', '.']))
        else:
            parts.append(rng.choice(['nope', 'f.txt', 'l_loop', 'l_dangling', 'lnk']))
            cur = '?'
    return {'k': 'lres', 'fl': 'links', 'path': '{TOP}/' + '/'.join(parts) + rng.choice(['', '', '', '/', '/.']),
            'follow': rng.choice([1, 1, 0])}


# ---- path algebra / resolution ------------------------------------------------------------------
ALPHA = ['/', '/', '/', '.', '.', '..', 'a', 'b', '\\', '\x00', '%', '%2e', '%2f', '%c0%af', '%e2%80%a5', '%e2%80',
         '%f0%9f', 'é', '2', 'f', 'E', '%ff', '%80', '%ed%a0%80', '%f4%90%80%80', '%e0%80%af', '%25', '%f0%9f%98%80',
         '‥', ' ', '%C3%A9', '%c3', '%a9', '%', 'session-', '~']


def rand_str(rng, n=8):
    return ''.join(rng.choice(ALPHA) for _ in range(rng.randint(0, n)))


def alg_case(rng):
    op = rng.choice(['norm', 'norm', 'join', 'abs', 'unq', 'unq', 'comps'])
    if op in ('norm', 'comps'):
        return {'k': 'alg', 'op': op, 'args': [rand_str(rng)]}
    if op == 'unq':
        return {'k': 'alg', 'op': op, 'args': [rand_str(rng, 10)]}
    if op == 'join':
        return {'k': 'alg', 'op': op, 'args': [rand_str(rng), rand_str(rng)]}
    return {'k': 'alg', 'op': op, 'args': ['', rand_str(rng)]}


def resolve_case(rng):
    """A path below the sandbox top: mostly a walk that follows existing names, with detours."""
    tree = {'': ['root', 'root-evil', 'sub0', 'sess', 'canary.txt', 'other'], 'root': ['sub', 'a', 'f.txt', 'index.html'],
            'root/sub': ['deep', 'g.txt', 'index.html'], 'root/sub/deep': ['h.txt'], 'sess': ['session-', 'session-real'],
            'sess/session-': ['inner'], 'root-evil': ['secret.txt'], 'other': ['secret.txt']}
    cur, parts, depth = '', [], 0
    for _ in range(rng.randint(0, 7)):
        r = rng.random()
        if r < 0.55 and cur in tree:
            c = rng.choice(tree[cur])
            parts.append(c)
            depth += 1
            cur = (cur + '/' + c) if cur else c
        elif r < 0.7:
            if depth == 0:
                continue        # never climb above the sandbox top: the model tree ends there
            depth -= 1
            parts.append('..')
            cur = cur.rpartition('/')[0] if cur != '?' else '?'
        elif r < 0.85:
            parts.append(rng.choice(['.', '', '.']))
        else:
            parts.append(rng.choice(['nope', 'f.txt', 'sub', '...', 'root']))
            depth += 1
            cur = '?'
    return {'k': 'resolve', 'path': '{TOP}/' + '/'.join(parts) + rng.choice(['', '', '', '/', '/.'])}


# ---- exhaustive small scopes --------------------------------------------------------------------
def enum_small(n):
    """All sequences of <= n components over {.., ., root, rootx, a, ''} (static, direct mode, root `root`)
    and over {.., ., sess, sessx, a, ''} (session ids below the existing directory `session-`)."""
    out = []
    for k in range(1, n + 1):
        for comps in itertools.product(['..', '.', 'root', 'rootx', 'a', ''], repeat=k):
            out.append({'k': 'static', 'mode': 'direct', 'rn': 'root', 'section': '/static', 'spelling': 'abs',
                        'index': 'index.html', 'match': '', 'method': 'GET',
                        'path_info': '/static/' + '/'.join(comps), 'tmpl': 'enum'})
        for comps in itertools.product(['..', '.', 'sess', 'sessx', 'a', ''], repeat=k):
            out.append({'k': 'sess_unit', 'store': 'sess', 'spelling': 'abs', 'id': '/' + '/'.join(comps),
                        'op': 'lock' if k % 2 else 'save', 'tmpl': 'enum'})
    return out


def neighbours(rng, case, n):
    """Cases around a disagreeing one: same configuration, fresh paths / ids."""
    out = []
    for _ in range(n):
        if case['k'] == 'static':
            c = static_case(rng)
            for _t in range(12):
                if c['mode'] == case['mode'] and c.get('variant') == case.get('variant'):
                    break
                c = static_case(rng)
            out.append(c)
        elif case['k'] == 'sess_unit':
            c = sess_unit_case(rng)
            c['op'] = case['op'] if rng.random() < 0.7 else c['op']
            out.append(c)
        else:
            c = sess_wsgi_case(rng)
            c['action'] = case['action'] if rng.random() < 0.7 else c['action']
            out.append(c)
    return out


# ---- two-thread scenarios -----------------------------------------------------------------------------
FILES_IN = {'.': ['canary.txt', 'root-evil/secret.txt', 'other/secret.txt', 'root/f.txt', 'r/sub/g.txt'],
            'root': ['f.txt', 'sub/g.txt', 'sub/deep/h.txt'], 'r': ['f.txt', 'sub/g.txt'],
            'root-evil': ['secret.txt'], 'rootx': ['secret.txt'], 'other': ['secret.txt'],
            'static.d': ['f.txt', 'index.html']}


def conc_static_pair(rng, fixed=None):
    """Section /a must refuse a traversal whose target lies in section /b's directory while /b serves it."""
    if fixed is None:
        da = rng.choice(['root', 'r', 'root', 'static.d', 'other'])
        db = rng.choice([d for d in FILES_IN if d != da])
        f = rng.choice(FILES_IN[db])
        up = rng.choice(['..', '..', '%2e%2e', '.%2e', '..'])
        kind = rng.choice(['dotdot', 'dotdot', 'dotdot', 'absolute', 'benign'])
    else:
        da, db, f, up, kind = fixed
    below = f if db == '.' else db + '/' + f
    if kind == 'dotdot':
        pa = up + '/' + below
    elif kind == 'absolute':
        pa = '%2f{TOP}/' + below
    else:
        pa = FILES_IN[da][0]
    return {'k': 'conc', 'half': 'static', 'dirs': [da, db], 'reqs': [{'path': pa}, {'path': f}]}


CONC_STATIC_FIXED = [
    ('root', '.', 'canary.txt', '..', 'dotdot'),
    ('root', '.', 'root-evil/secret.txt', '%2e%2e', 'dotdot'),
    ('root', 'root-evil', 'secret.txt', '..', 'dotdot'),
    ('r', 'root', 'f.txt', '..', 'dotdot'),
    ('root', 'other', 'secret.txt', '..', 'absolute'),
    ('root', 'r', 'f.txt', '..', 'benign'),
]

CONC_SESSION_FIXED = [
    [{'sec': 'sa', 'id': '/../../sess2/session-real', 'action': 'write'}, {'sec': 'sb', 'id': 'real', 'action': 'read'}],
    [{'sec': 'sa', 'id': 'a/../../sess2/session-real2', 'action': 'delete', 'cstyle': 'octal'},
     {'sec': 'sb', 'id': 'real2', 'action': 'write'}],
    [{'sec': 'sb', 'id': 'b/../../sess/session-real', 'action': 'write'}, {'sec': 'sa', 'id': 'real', 'action': 'read'}],
    [{'sec': 'sa', 'id': 'real', 'action': 'write'}, {'sec': 'sb', 'id': 'real', 'action': 'regenerate'}],
    [{'sec': 'sa', 'id': None, 'action': 'write'}, {'sec': 'sb', 'id': '/../../sess/session-real2', 'action': 'none'}],
]


def conc_cases(rng, quick):
    out = []
    for fx in CONC_STATIC_FIXED:
        c = conc_static_pair(rng, fx)
        out.append(dict(c, mode='sweep1'))
        out.append(dict(c, mode='sweep2', samples=(60 if quick else None), seed=rng.randrange(1 << 30)))
    for _ in range(4 if quick else 40):
        c = conc_static_pair(rng)
        out.append(dict(c, mode='sweep1'))
        if not quick:
            out.append(dict(c, mode='sweep2', samples=600, seed=rng.randrange(1 << 30)))
    for reqs in CONC_SESSION_FIXED:
        c = {'k': 'conc', 'half': 'session', 'reqs': reqs}
        out.append(dict(c, mode='sweep1'))
        out.append(dict(c, mode='sweep2', samples=(25 if quick else 1500), seed=rng.randrange(1 << 30)))
    return out
