"""C14 - session ids are never adopted from clients; data persists until expiry.

Model: lean/CpModel/SessionStore.lean, theorems: lean/CpProofs/C14*.lean, driver: lean/Drv/C14.lean.

Real code: the unmodified `cherrypy.lib.sessions` (RamSession, FileSession, MemcachedSession over an in-memory
`memcache` stand-in) behind the sessions tool, driven through in-process WSGI calls; cookies are carried by the
harness.  See harness/c14_run.py (runner), c14_oracle.py (the statement), c14_gen.py (generators), c14_cov.py
(which anchored lines ran).
"""
import datetime as _datetime
import inspect
import json
import os as _os
import pickle
import shutil
import tempfile

from . import common
from . import c14_cov
from .c14_run import (BASE, UNKNOWN_BASE, VALS, run_history, run_monitor_scenario, model_timeout, make_val,  # noqa: F401
                      _classify_blob)
from .c14_oracle import oracle as _oracle
from .c14_gen import gen_case, torn_cases, enum_small, overlap_cases, monitor_scenarios, sweep_overlap_cases

PROPERTY = 'C14'
LEAN_TARGETS = ['CpProofs.C14', 'CpProofs.C14History', 'CpProofs.C14Ext', 'CpProofs.C14Conc', 'drv_c14']
DRIVER = 'drv_c14'
from .c14_meta import (THEOREMS, TRUSTED_BASE, ASSUMPTIONS, LEVEL, TECHNIQUE, LEVEL_TEXT,  # noqa: E402,F401
                       LEVEL_NOTE, RULE)


def oracle(case, events):
    return _oracle(case, events, model_timeout(case))


# ----------------------------------------------------------------------------------------------
# tables regenerated from the live module on every run (measured by executing the real code)
# ----------------------------------------------------------------------------------------------
OTHER_CLASSES = [ValueError, TypeError, AttributeError, ImportError, ModuleNotFoundError, IndexError, KeyError,
                 UnicodeDecodeError, OverflowError, MemoryError, RuntimeError, AssertionError]


def _load_catches(exc_factory):
    from cherrypy.lib import sessions

    class _P:
        UnpicklingError = pickle.UnpicklingError
        HIGHEST_PROTOCOL = pickle.HIGHEST_PROTOCOL

        @staticmethod
        def load(f):
            raise exc_factory()
    tmp = tempfile.mkdtemp(prefix='c14t-')
    saved = sessions.pickle
    sessions.pickle = _P
    try:
        path = _os.path.join(tmp, 'session-x')
        with open(path, 'wb') as f:
            f.write(b'x')
        inst = sessions.FileSession.__new__(sessions.FileSession)
        inst.locked = True
        inst.debug = False
        try:
            return inst._load(path) is None
        except Exception:
            return False
    finally:
        sessions.pickle = saved
        shutil.rmtree(tmp, ignore_errors=True)


def _regen_passes():
    """Which arguments does SessionTool.regenerate hand on to set_response_cookie?  Measured by calling it
    with a tool configuration that has every argument and a recording set_response_cookie."""
    import cherrypy
    from cherrypy import _cptools
    keys = ['path', 'path_header', 'name', 'timeout', 'domain', 'secure', 'httponly', 'persistent']
    got = {}

    class _S:
        def regenerate(self):
            pass
    tool = _cptools.SessionTool()
    tool._merged_args = lambda d=None: {k: 'v' for k in keys}
    mod = _cptools._sessions
    saved = mod.set_response_cookie
    had = hasattr(cherrypy.serving, 'session')
    old = getattr(cherrypy.serving, 'session', None)
    mod.set_response_cookie = lambda **kw: got.update(kw)
    cherrypy.serving.session = _S()
    try:
        tool.regenerate()
    finally:
        mod.set_response_cookie = saved
        if had:
            cherrypy.serving.session = old
        else:
            try:
                del cherrypy.serving.session
            except AttributeError:
                pass
    return {k: (k in got) for k in keys}


def tables(ctx):
    from cherrypy.lib import sessions
    eof = _load_catches(EOFError)
    unp = _load_catches(lambda: pickle.UnpicklingError('x'))
    oth = [c.__name__ for c in OTHER_CLASSES
           if _load_catches((lambda c=c: c('utf-8', b'x', 0, 1, 'x')) if c is UnicodeDecodeError else c)]
    missing_file = False
    try:
        inst = sessions.FileSession.__new__(sessions.FileSession)
        inst.locked = True
        inst.debug = False
        missing_file = inst._load('/nonexistent/c14/session-x') is None
    except Exception:
        missing_file = False
    drawn = []

    class _O:
        @staticmethod
        def urandom(n):
            drawn.append(n)
            return b'\x00' * n
    saved = sessions.os
    sessions.os = _O
    try:
        gid = sessions.Session.generate_id(sessions.Session.__new__(sessions.Session))
    finally:
        sessions.os = saved
    sig = inspect.signature(sessions.init).parameters
    sig2 = inspect.signature(sessions.set_response_cookie).parameters

    def dflt(name, params=sig):
        return params[name].default if name in params else 'MISSING'
    rp = _regen_passes()

    def b(x):
        return 'true' if x else 'false'

    def nat(x):
        return str(x) if isinstance(x, int) and not isinstance(x, bool) and x >= 0 else '999999'
    src = """/- GENERATED by harness/c14.py `tables` from the live cherrypy.lib.sessions - do not edit.
   Each entry is measured by executing / introspecting the real code (FileSession._load with a pickle whose
   load raises the class; Session.generate_id with a recording urandom; the signature of sessions.init;
   SessionTool.regenerate with a recording set_response_cookie). -/
import CpModel.SessionStore
namespace CpModel.Gen.C14
open CpModel.SessionStore

/-- does `FileSession._load` map an exception of this class from `pickle.load` to "no session"?
    `other` = every one of: %s -/
def loadCatches : PExc -> Bool
  | .eof => %s
  | .unpickling => %s
  | .other => %s

/-- a missing file (IOError from `open`) is "no session" -/
def missingFileIsNone : Bool := %s

/-- bytes drawn from `os.urandom` per id, and the length of the id text -/
def idBytes : Nat := %d
def idTextLen : Nat := %d

/-- defaults of `sessions.init` / `set_response_cookie` / the Session class -/
def defNameIsSessionId : Bool := %s
def defTimeout : Nat := %s
def defCleanFreq : Nat := %s
def defPersistent : Bool := %s
def defSecure : Bool := %s
def defHttponly : Bool := %s
def defPathNone : Bool := %s
def defPathHeaderNone : Bool := %s
def defDomainNone : Bool := %s
def classTimeout : Nat := %s
def classCleanFreq : Nat := %s
def cookieDefTimeout : Nat := %s

/-- which tool arguments `SessionTool.regenerate` passes on to `set_response_cookie` -/
def regenPassesPath : Bool := %s
def regenPassesPathHeader : Bool := %s
def regenPassesName : Bool := %s
def regenPassesTimeout : Bool := %s
def regenPassesDomain : Bool := %s
def regenPassesSecure : Bool := %s
def regenPassesHttponly : Bool := %s
def regenPassesPersistent : Bool := %s

end CpModel.Gen.C14
""" % (', '.join(c.__name__ for c in OTHER_CLASSES), b(eof), b(unp), b(len(oth) == len(OTHER_CLASSES)),
       b(missing_file), drawn[0] if drawn else 0, len(gid),
       b(dflt('name') == 'session_id' and dflt('name', sig2) == 'session_id'), nat(dflt('timeout')),
       nat(dflt('clean_freq')), b(dflt('persistent') is True), b(dflt('secure') is True),
       b(dflt('httponly') is True), b(dflt('path') is None), b(dflt('path_header') is None),
       b(dflt('domain') is None), nat(sessions.Session.timeout), nat(sessions.Session.clean_freq),
       nat(dflt('timeout', sig2)),
       b(rp['path']), b(rp['path_header']), b(rp['name']), b(rp['timeout']), b(rp['domain']), b(rp['secure']),
       b(rp['httponly']), b(rp['persistent']))
    if oth and len(oth) != len(OTHER_CLASSES):
        ctx.note('FileSession._load catches some but not all other classes: %s' % oth)
    return {'CpModel/Gen/C14Tables.lean': src}


# ----------------------------------------------------------------------------------------------
# comparison with the model
# ----------------------------------------------------------------------------------------------
def _parse_item(it):
    """-> (kind, [response field lists], listing entries, raw listing)"""
    out, _, ls = it.partition('@')
    ents = [] if ls in ('~', '') else [e.split(':', 1) for e in ls.split('!')]
    if out.startswith('R:'):
        return 'R', [out[2:].split(':')], ents, ls
    if out.startswith('O:'):
        return 'O', [r.split(':') for r in out[2:].split('|')], ents, ls
    return out, [], ents, ls


def compress_ids(items):
    """Ids are nominal: replace the numbers of source-drawn ids (< UNKNOWN_BASE) by their rank among the
    ids appearing in this history, on either side (numbering by draw is monotone on both sides, so equal
    behaviour gives equal ranks even when an intermediate draw was never observed)."""
    seen = set()
    parsed = [_parse_item(it) for it in items]
    for kind, resps, ents, ls in parsed:
        for f in resps:
            if len(f) > 1 and f[1] != '-':
                seen.add(int(f[1]))
            for x in f:
                if x[:2] in ('Pi', 'Pe'):
                    seen.add(int(x[2:].rstrip('!?r')))
        for e in ents:
            seen.add(int(e[0]))
    rank = {v: k + 1 for k, v in enumerate(sorted(x for x in seen if x < UNKNOWN_BASE))}
    res = []
    for kind, resps, ents, ls in parsed:
        outs = []
        for f in resps:
            f = list(f)
            if len(f) > 1 and f[1] != '-':
                f[1] = str(rank.get(int(f[1]), int(f[1])))
            for j, x in enumerate(f):
                if x[:2] in ('Pi', 'Pe'):
                    num, tail = x[2:].rstrip('!?r'), x[2 + len(x[2:].rstrip('!?r')):]
                    f[j] = x[:2] + str(rank.get(int(num), int(num))) + tail
            outs.append(':'.join(f))
        head = kind if kind not in ('R', 'O') else kind + ':' + '|'.join(outs)
        l2 = '!'.join('%s:%s' % (rank.get(int(e[0]), int(e[0])), e[1]) for e in ents) if ents else ls
        res.append(head + '@' + l2)
    return res


def _canon_model_items(mitems, ritems):
    """Fields the real side cannot observe are blanked on the model side: the cookie attributes of a request
    that called Session.regenerate() directly (`Cskip`), the presented cookie when the handler never ran."""
    out = []
    for m, r in zip(mitems, ritems):
        if m[:2] in ('R:', 'O:') and r[:2] == m[:2]:
            mh, _, ml = m.partition('@')
            rh = r.partition('@')[0]
            mr, rr = mh[2:].split('|'), rh[2:].split('|')
            if len(mr) == len(rr):
                fixed = []
                for a, b in zip(mr, rr):
                    fa, fb = a.split(':'), b.split(':')
                    if len(fa) == len(fb):
                        for j in range(len(fa)):
                            if fb[j] == 'Cskip' and fa[j].startswith('C'):
                                fa[j] = 'Cskip'
                                fa[2] = fb[2]       # nor is the expired flag (no set_response_cookie ran)
                            if fb[j] == 'P-' and fa[j].startswith('P'):
                                fa[j] = 'P-'
                    fixed.append(':'.join(fa))
                m = m[:2] + '|'.join(fixed) + '@' + ml
        out.append(m)
    return out + mitems[len(ritems):]


def check_cases(ctx, cases, compare=True, shrink=True):
    kept, results = [], []
    for n, c in enumerate(cases):
        if n % 50 == 49 and kept:
            # report as we go: once the property has failed on a couple of dozen inputs the rest of the
            # batch adds nothing (and a broken tree can make every further history slow)
            _report(ctx, kept, results, compare, shrink)
            kept, results = [], []
            if len(ctx.oracle_failures) >= 25:
                ctx.note('batch cut short after %d oracle failures' % len(ctx.oracle_failures))
                return
        try:
            r = run_history(c)
        except common.HarnessError:
            raise
        except Exception as e:     # the harness' own bookkeeping tripped over what the code left behind
            import traceback
            if not ctx.extra.get('_crash'):
                ctx.extra['_crash'] = '%r on %s\n%s' % (e, json.dumps(c)[:400], traceback.format_exc()[-1200:])
            continue
        kept.append(c)
        results.append(r)
    _report(ctx, kept, results, compare, shrink)


def _crash_verdict(ctx):
    """A crash inside the harness is a harness error (exit 2) - unless the same run found an input on
    which the property fails, which is then what gets reported."""
    crash = ctx.extra.pop('_crash', None)
    if crash:
        if ctx.oracle_failures:
            ctx.note('harness bookkeeping crashed on one history (ignored, a violation was found): ' + crash[:300])
        else:
            raise common.HarnessError('run_history crashed: ' + crash)


def _report(ctx, cases, results, compare=True, shrink=True):
    lines, where = [], []
    for i, r in enumerate(results):
        if r.get('model_line'):
            where.append((i, 'h'))
            lines.append(r['model_line'])
        if r.get('mon_line'):
            where.append((i, 'm'))
            lines.append(r['mon_line'])
    out = ctx.model(lines) if compare else None
    model = {}
    if out is not None:
        for (i, k), o in zip(where, out):
            model[(i, k)] = o
    for idx, (case, res) in enumerate(zip(cases, results)):
        evs = res['events']
        reqs = [e for e in evs if e['op'] == 'req'] + [x for e in evs if e['op'] == 'par' for x in (e['A'], e['B'])] \
            + [e['A'] for e in evs if e['op'] == 'swpar']
        adopted = sum(1 for e in reqs if e['sid'] is not None and e['sid'] in e['presented'])
        nontrivial = len(reqs) >= 2 and adopted >= 1
        ctx.case(case, nontrivial=nontrivial, key=json.dumps([case['backend'], case['timeout'], case['ops'],
                                                              case.get('dups'), case.get('cc')]))
        _count(ctx, case, evs)
        fails = oracle(case, evs)
        known_only = True
        for what, sig in fails:
            if ctx.match_known(sig) is None:
                known_only = False
        if fails and not known_only and shrink and not ctx.searching and len(ctx.oracle_failures) < 3:
            case2 = _shrink(case, {s for _, s in fails})
            if case2 is not None:
                res2 = run_history(case2)
                fails2 = oracle(case2, res2['events'])
                if fails2:
                    case, res, fails = case2, res2, fails2
        for what, sig in fails:
            ctx.oracle_fail(case, '%s [%s, T=%s]' % (what, case['backend'], case['timeout']), sig)
        if out is not None and (idx, 'h') in model and (not fails or known_only) and res is results[idx]:
            ctx.compared()
            ritems = compress_ids(res['items'])
            mitems = compress_ids(_canon_model_items(model[(idx, 'h')].split(';'), res['items']))
            if mitems != ritems:
                k = next((i for i, (a, b) in enumerate(zip(ritems, mitems)) if a != b),
                         min(len(mitems), len(ritems)))
                ctx.disagree(case, ritems[k:k + 1], mitems[k:k + 1],
                             'op %d (%s) of the history: observables differ' % (k, json.dumps(case['ops'][k])
                                                                                 if k < len(case['ops']) else '?'))
            elif (idx, 'm') in model and model[(idx, 'm')] != res['mon_real']:
                ctx.disagree(case, res['mon_real'], model[(idx, 'm')],
                             'cleanup Monitors started by the loads %s' % res['mon_line'])


def _shrink(case, sigs):
    def still(ops):
        c = dict(case, ops=ops)
        try:
            r = run_history(c)
        except common.HarnessError:
            return False
        except Exception:
            return False
        return any(s in sigs for _, s in oracle(c, r['events']))
    try:
        ops = common.shrink_list(case['ops'], still, max_rounds=60)
    except Exception:
        return None
    return dict(case, ops=ops)


def _count(ctx, case, evs):
    ctx.count('backend:' + case['backend'])
    ctx.count('timeout:%s' % case['timeout'])
    n = len(case['ops']) + sum(len(o[3]) for o in case['ops'] if o[0] == 'req')
    ctx.count('ops:%s' % ('<=10' if n <= 10 else '<=20' if n <= 20 else '<=30' if n <= 30 else '<=40+'))
    for k in ('dups', 'cc', 'debug', 'locking'):
        if case.get(k):
            ctx.count('with_' + k)
    if case.get('spell'):
        ctx.count('storage_spelling:' + case['spell'])
    if 'clean_freq' in case:
        ctx.count('clean_freq:%s' % case['clean_freq'])
    if case.get('small') is not None:
        ctx.count('small_scope_histories')
    if case.get('torn'):
        ctx.count('torn:all_offsets_cases')
        ctx.extra.setdefault('_torn_files', set()).add((case['torn'][0], case['timeout']))

    def req(e, tag=''):
        k = e['spec'].split(':')[0].split('~')[0]
        ctx.count('cookie:' + k)
        ctx.count('status:' + e['status'])
        if len(e['presented']) > 1:
            ctx.count('cookie:several_session_cookies')
        if not e['presented']:
            ctx.count('id:new(no cookie)')
        elif e['sid'] in e['presented']:
            ctx.count('id:adopted')
            ent = e['before'].get(e['sid'])
            if ent and ent[0] == 'g' and isinstance(ent[2], int) and ent[2] < e['now']:
                ctx.count('id:adopted(expired, not yet swept)')
        else:
            ctx.count('id:new(cookie refused)')
        for h in e['hops']:
            f = h.split('.')
            ctx.count('hop:' + (f[0] if f[0] != 'A' else 'A.' + f[1]))
        for r in e['reads']:
            ctx.count('read:nonempty' if r else 'read:empty')
    for e in evs:
        if e['op'] == 'req':
            req(e)
        elif e['op'] == 'par':
            ctx.count('overlap')
            if e['A']['presented'] and e['A']['presented'] == e['B']['presented']:
                ctx.count('overlap:same_cookie')
            req(e['A'])
            req(e['B'])
        elif e['op'] == 'swpar':
            ctx.count('sweep_during_request:' + ('sweep waited for the session lock' if e['waited'] else 'sweep ran through'))
            req(e['A'])
        elif e['op'] == 'sweep':
            ctx.count('sweep:removed=%d' % min(3, len(e['before']) - len(e['after'])) if e['ran'] else 'sweep:no_monitor')
        elif e['op'] == 'tear':
            ctx.count('tear:%s:%s' % (e['how'], e['cls']))
        elif e['op'] == 'adv':
            ctx.count('advance')


def corpus_cases():
    d = _os.path.join(common.CORPUS, PROPERTY)
    out = []
    if _os.path.isdir(d):
        for f in sorted(_os.listdir(d)):
            if f.endswith('.json'):
                out.append(json.load(open(_os.path.join(d, f))))
    return out


def _work(args):
    """Worker for the thorough tier: generate and run a chunk of histories."""
    import random
    seed, n = args
    c14_cov.start()
    rng = random.Random(seed)
    cases = [gen_case(rng) for _ in range(n)]
    return cases, [run_history(c) for c in cases], c14_cov.take()


def _work_cases(cases):
    c14_cov.start()
    return cases, [run_history(c) for c in cases], c14_cov.take()


def check_monitor(ctx, scenarios):
    lines, reals = [], []
    for sc in scenarios:
        try:
            line, real, problems = run_monitor_scenario(sc)
        except common.HarnessError:
            raise
        except Exception as e:
            ctx.oracle_fail({'monitor_loads': sc}, 'constructing a session / Session.load() raised %r' % (e,),
                            'monitor_load_raised')
            continue
        for what, sig in problems:
            ctx.oracle_fail({'monitor_loads': sc}, what, sig)
        if line is None:
            continue
        lines.append(line)
        reals.append((sc, real))
    out = ctx.model(lines)
    for (sc, real), m in zip(reals, out or []):
        ctx.case({'monitor_loads': sc}, nontrivial=len(sc) >= 2, key='mon' + json.dumps(sc))
        ctx.count('monitor_scenarios')
        ctx.compared()
        if m != real:
            ctx.disagree({'monitor_loads': sc}, real, m, 'cleanup Monitors started by a sequence of load() calls')
        # the statement's sweep exists only if a Monitor is started for a class configured with clean_freq
        want = {c for c, f in sc if f}
        got = {int(x.split(':')[0]) for x in real.split(';', 1)[1].split(',') if x}
        if want - got:
            ctx.oracle_fail({'monitor_loads': sc}, 'no cleanup Monitor was started for session class(es) %s although '
                            'clean_freq is set: expired sessions are never swept' % sorted(want - got),
                            'sweeper_not_started')


def check_independence(ctx, cases):
    """The id issued instead of a refused cookie must not be computable from what the client sent: the same
    history with other unknown cookie texts (same clock, same urandom stream) issues the same ids.  Skipped
    when the id source is not reproducible in the first place (e.g. `secrets`)."""
    n = 0
    for case in cases:
        if not any(o[0] == 'req' and 'unk' in o[2] for o in case['ops']):
            continue
        try:
            a = run_history(case)
            a2 = run_history(case)
            b = run_history(dict(case, unkp='0123abcd'))
        except common.HarnessError:
            raise
        except Exception:
            continue

        def issued(r):
            return [e['sid'] for e in r['events'] if e['op'] == 'req' and e['sid'] is not None
                    and e['sid'] not in e['presented']]
        if issued(a) != issued(a2):
            ctx.count('independence:id_source_not_reproducible')
            continue
        n += 1
        ctx.count('independence:compared')
        if issued(a) != issued(b):
            ctx.oracle_fail(dict(case, unkp='0123abcd'),
                            'the ids issued in place of refused cookies change with the text of the presented '
                            '(unknown) cookie: %r vs %r' % (issued(a)[:3], issued(b)[:3]),
                            'fresh_id_depends_on_presented_cookie')
            break
    ctx.extra['independence_histories_compared'] = n


def _explain(rel, qual, src):
    if 'debug' in src or 'cherrypy.log(' in src:
        return None
    if qual.startswith('MemcachedSession.__len__'):
        return None
    if "raise ValueError('The httponly cookie token is not supported.')" in src:
        return 'needs an http.cookies without the httponly attribute (Python < 2.6)'
    if qual.startswith('MemcachedSession._save') and ('raise AssertionError' in src or 'not set.' in src):
        return 'needs a memcached server that refuses a set()'
    if qual.startswith('RamSession.clean_up') and ('except KeyError' in src or src == 'pass'):
        return 'needs a concurrent deletion between the copy and the del (locking, C13)'
    if qual.startswith('FileSession.__init__') and ('raise ValueError' in src or 'Lock timeout must' in src):
        return 'configuration error (lock_timeout of a wrong type): every request would be a 500'
    if qual in ('save', 'init') and src == 'return':
        return 'guard against the hook running twice / without a session: needs the tool attached twice'
    return None


def run(ctx):
    cov = c14_cov.start()
    hits = []
    for e in ctx.known:
        if e.get('status') == 'known' and 'ops' in e.get('witness', {}):
            check_cases(ctx, [e['witness']], compare=True, shrink=False)
    check_cases(ctx, corpus_cases())
    measure_contract(ctx)
    check_monitor(ctx, monitor_scenarios(ctx.rng, ctx.budget(40, 400)))
    if ctx.quick():
        cases = [gen_case(ctx.rng) for _ in range(ctx.budget(1000, 0))]
        check_cases(ctx, cases)
        check_cases(ctx, overlap_cases(ctx.rng, 90))
        check_cases(ctx, sweep_overlap_cases(ctx.rng, 60))
        check_cases(ctx, torn_cases(ctx.rng, 1))
        small = list(enum_small(3))
        check_cases(ctx, small)
        ctx.extra['exhaustive_small_scope'] = {'depth': 3, 'histories': len(small)}
        check_independence(ctx, cases[:60])
    else:
        seeds = [(ctx.rng.randrange(1 << 40), 2500) for _ in range(48)]
        for cases, results, h in common.parallel_map(_work, seeds):
            hits.extend(h)
            _report(ctx, cases, results)
        tc = torn_cases(ctx.rng, 50) + overlap_cases(ctx.rng, 3000) + sweep_overlap_cases(ctx.rng, 2000)
        chunks = [tc[i::32] for i in range(32)]
        for cases, results, h in common.parallel_map(_work_cases, [c for c in chunks if c]):
            hits.extend(h)
            _report(ctx, cases, results)
        small = list(enum_small(4))
        chunks = [small[i::32] for i in range(32)]
        for cases, results, h in common.parallel_map(_work_cases, chunks):
            hits.extend(h)
            _report(ctx, cases, results)
        ctx.extra['exhaustive_small_scope'] = {'depth': 4, 'histories': len(small)}
        import random
        rng = random.Random(ctx.rng.randrange(1 << 40))
        check_independence(ctx, [gen_case(rng) for _ in range(600)])
    _crash_verdict(ctx)
    ctx.extra['torn_files_all_offsets'] = len(ctx.extra.pop('_torn_files', ()))
    if cov is not None:
        hits.extend(c14_cov.take())
        c14_cov.report(ctx, hits + list(cov.hit), _explain)


def measure_contract(ctx):
    """The pickle contract the torn-file theorem is relative to, measured on this interpreter:
    every proper prefix of a real session pickle raises EOFError or UnpicklingError, the whole loads back."""
    n = 0
    for proto in range(0, pickle.HIGHEST_PROTOCOL + 1):
        for k in range(6):
            data = {'k%d' % i: make_val((i * 3 + k) % len(VALS)) for i in range(k)}
            exp = BASE + _datetime.timedelta(minutes=k)
            blob = pickle.dumps((data, exp), proto)
            if pickle.loads(blob) != (data, exp):
                raise common.HarnessError('pickle round trip failed')
            for off in range(len(blob)):
                c = _classify_blob(blob[:off])
                n += 1
                if c[0] != 'b' or c[1] not in ('eof', 'unp'):
                    raise common.HarnessError('pickle contract broken: prefix %d of %r -> %r' % (off, blob, c))
    ctx.extra['pickle_contract_prefixes_checked'] = n


def search(ctx, around=None):
    """Deeper oracle-only hunt (called when the proof or the correspondence broke)."""
    import random
    seeds = [(ctx.rng.randrange(1 << 40), 350) for _ in range(16)]
    for cases, results, _ in common.parallel_map(_work, seeds):
        _report(ctx, cases, results, compare=False, shrink=False)
        if ctx.oracle_failures:
            break
    if not ctx.oracle_failures:
        rng = random.Random(ctx.seed)
        check_cases(ctx, torn_cases(rng, 2) + overlap_cases(rng, 300) + sweep_overlap_cases(rng, 200),
                    compare=False, shrink=False)
    if not ctx.oracle_failures:
        check_independence(ctx, [gen_case(random.Random(ctx.seed + 1)) for _ in range(300)])


def replay(ctx, case):
    if 'monitor_loads' in case:
        line, real, _ = run_monitor_scenario([tuple(x) for x in case['monitor_loads']])
        print('loads:', case['monitor_loads'], '\n  impl :', real, '\n  model:', (ctx.model([line]) or ['?'])[0])
        check_monitor(ctx, [[tuple(x) for x in case['monitor_loads']]])
        return
    res = run_history(case)
    print('history:', json.dumps(case['ops']))
    m = ctx.model([res['model_line']]) if res.get('model_line') else None
    mitems = m[0].split(';') if m else None
    for i, it in enumerate(res['items']):
        print('  op %2d %-40s impl : %s' % (i, json.dumps(case['ops'][i])[:40] if i < len(case['ops']) else '', it))
        if mitems:
            print('  %s model: %s' % (' ' * 46, mitems[i] if i < len(mitems) else '?'))
    check_cases(ctx, [case], shrink=False)
    if case.get('unkp'):
        check_independence(ctx, [dict(case, unkp='ffffffff')])
