"""C14 - session ids are never adopted from clients; data persists until expiry.

Model: lean/CpModel/SessionStore.lean, theorems: lean/CpProofs/C14.lean, driver: lean/Drv/C14.lean.

Real code: the unmodified `cherrypy.lib.sessions` behind the sessions tool, driven through in-process
WSGI calls (`cherrypy.Application(Root(), '', conf)(environ, start_response)`); cookies are carried by
the harness.  Only *module globals naming primitives* are replaced for the duration of a history:
`sessions.datetime` (logical clock, one tick = one minute), `sessions.time` (cookie dates; `sleep`
turned into a harness error so lock contention cannot hang), `sessions.os` (`urandom` deterministic; `listdir` sorted), and
`Session.generate_id` is wrapped (the documented override point for the id source) so that every draw is
numbered and collisions with live ids can be injected.  The sweep is the
real `clean_up()` of the first loaded session instance (the one the Monitor would call), invoked
synchronously between requests (`clean_freq = 0`, no background thread).
"""
import copy
import datetime as _datetime
import io
import json
import os as _os
import pickle
import re
import shutil
import sys
import tempfile
import time as _time

from . import common

PROPERTY = 'C14'
LEAN_TARGETS = ['CpProofs.C14', 'CpProofs.C14History', 'drv_c14']
DRIVER = 'drv_c14'
from .c14_meta import (THEOREMS, TRUSTED_BASE, ASSUMPTIONS, LEVEL, TECHNIQUE, LEVEL_TEXT,  # noqa: E402
                       LEVEL_NOTE, RULE)

BASE = _datetime.datetime(2020, 1, 1, 0, 0, 0)
EPOCH = 1577836800.0
HEX40 = re.compile(r'^[0-9a-f]{40}$')
UNKNOWN_BASE = 1000000

# picklable values a handler stores; index = the model's `Val`
VALS = [0, 1, 'x', 'héllo' * 3, [1, [2, 3]], {'n': None, 't': (1, 2.5)}, b'\x00\xff\x80', -2 ** 70]

ESCAPING = ['/../../x', 'a/../../../b', '/../..', '/../../etc/passwd', '../x', '/etc/passwd', '..']
# damaged contents that are not a prefix of a pickle.  First group: classes `_load` maps to "no session";
# second group (known finding F14d): other exception classes / well-formed pickles of another shape.
GARBAGE_CONTRACT = [b'garbage', b'\x00', b'.', b'0', b'\x80\x05h\x00.', b'\x80\x05(K\x01d.', b'\xff' * 9]
GARBAGE_OTHER = [b'\x80\xff.', b'Ix\n.', b'cnosuchmod\nx\n.', b'\x80\x05\x8c\x02\xff\xfe.', b'\x80\x05K\x01.',
                 b'\x80\x05}K\x01\x86.']


# ----------------------------------------------------------------------------------------------
# primitives replaced through the module globals of cherrypy.lib.sessions
# ----------------------------------------------------------------------------------------------
class _World:
    """Per-history environment shared by the shims, the probe handler and the runner."""

    def __init__(self, case):
        import random
        self.clock = 0
        self.draws = []                 # model id of every urandom draw, in order
        self.id_of = {}                 # real id string -> model number
        self.unknown = {}               # unknown cookie string -> model number
        self.rnd = random.Random(case.get('idseed', 0))
        self.dups = {int(k): int(v) for k, v in case.get('dups', [])}
        self.live = lambda: []          # set by the runner: currently stored real ids, sorted
        self.reads = []
        self.first_loaded = None
        self.last_dup = False
        self.presented = set()

    def urandom(self, n):
        """Deterministic "random" bytes: draw number, a marker, a seeded tail."""
        k = len(self.draws)
        return (k + 1).to_bytes(4, 'big') + b'\xab' + bytes(self.rnd.randrange(256) for _ in range(n - 5))

    def generate_id(self, inst, real):
        """Stands in for `Session.generate_id` (the id source is a parameter of the property): numbers
        every draw, normally returns what the real method returns, and on planned draws returns a *live*
        id instead (never twice in a row, so the retry loop must terminate)."""
        k = len(self.draws)
        live = self.live()
        if k in self.dups and live and not self.last_dup:
            sid = live[self.dups[k] % len(live)]
            self.draws.append(self.id_of[sid])
            self.last_dup = True
            return sid
        self.last_dup = False
        sid = real(inst)
        if sid not in self.id_of:
            self.id_of[sid] = k + 1
        self.draws.append(self.id_of[sid])
        return sid

    def number(self, s):
        """Model number of an arbitrary id string."""
        if s in self.id_of:
            return self.id_of[s]
        if s not in self.unknown:
            self.unknown[s] = UNKNOWN_BASE + len(self.unknown)
        return self.unknown[s]


W = [None]     # the current _World


class _FakeDateTime(_datetime.datetime):
    """`datetime.datetime` whose notion of the present is the logical clock (plain datetime objects are
    returned, so pickles and comparisons are the ordinary ones)."""

    @classmethod
    def now(cls, tz=None):
        t = BASE + _datetime.timedelta(minutes=W[0].clock)
        return t if tz is None else t.replace(tzinfo=_datetime.timezone.utc).astimezone(tz)

    @classmethod
    def utcnow(cls):
        return BASE + _datetime.timedelta(minutes=W[0].clock)

    @classmethod
    def today(cls):
        return BASE + _datetime.timedelta(minutes=W[0].clock)


class _DatetimeShim:
    """Stands for the `datetime` module inside cherrypy.lib.sessions."""
    datetime = _FakeDateTime

    def __getattr__(self, name):
        return getattr(_datetime, name)


class _TimeShim:
    @staticmethod
    def time():
        return EPOCH + 60.0 * W[0].clock

    @staticmethod
    def sleep(s):
        raise common.HarnessError('session lock contention inside a sequential history')

    def __getattr__(self, name):
        return getattr(_time, name)


class _OsShim:
    path = _os.path

    def __getattr__(self, name):
        return getattr(_os, name)

    @staticmethod
    def urandom(n):
        return W[0].urandom(n)

    @staticmethod
    def listdir(p):
        return sorted(_os.listdir(p))


def make_val(i):
    return copy.deepcopy(VALS[i % len(VALS)])


def val_index(v):
    for i, w in enumerate(VALS):
        if type(v) is type(w) and v == w:
            return i
    return 'X'


def canon_dict(d):
    """{real key: python value} -> {int key: value index}, or a marker for an alien shape."""
    out = {}
    try:
        for k, v in d.items():
            if isinstance(k, str) and re.match(r'^k\d+$', k):
                out[int(k[1:])] = val_index(v)
            else:
                out[repr(k)] = 'X'
    except Exception:
        return {'?': 'X'}
    return out


_APP_CACHE = {}


def _get_app(backend, timeout, path):
    import cherrypy
    from cherrypy.lib import sessions

    class Root:
        @cherrypy.expose
        def index(self, ops=''):
            w = W[0]
            s = cherrypy.session
            for tok in (ops.split(',') if ops else []):
                f = tok.split('.')
                if f[0] == 'r':
                    w.reads.append(canon_dict(dict(s.items())))
                elif f[0] == 'w':
                    s['k' + f[1]] = make_val(int(f[2]))
                elif f[0] == 'k':
                    s.pop('k' + f[1], None)
                elif f[0] == 'c':
                    s.clear()
                elif f[0] == 'g':
                    cherrypy.tools.sessions.regenerate()
                elif f[0] == 'd':
                    s.delete()
                elif f[0] == 'x':
                    sessions.expire()
                elif f[0] == 'S':
                    # streamed response: the save hook defers session.save to on_end_request
                    cherrypy.response.stream = True
                else:
                    raise common.HarnessError('bad hop ' + tok)
                inst = cherrypy.serving.session
                if w.first_loaded is None and inst.loaded:
                    w.first_loaded = inst
            return 'ok'

    conf = {'/': {'tools.sessions.on': True, 'tools.sessions.timeout': timeout,
                  'tools.sessions.clean_freq': 0}}
    if backend == 'file':
        conf['/']['tools.sessions.storage_class'] = sessions.FileSession
        conf['/']['tools.sessions.storage_path'] = path
    return cherrypy.Application(Root(), '', conf)


def _wsgi(app, query, cookie):
    env = {'REQUEST_METHOD': 'GET', 'PATH_INFO': '/', 'QUERY_STRING': query, 'SERVER_NAME': 'x',
           'SERVER_PORT': '80', 'SERVER_PROTOCOL': 'HTTP/1.1', 'HTTP_HOST': 'x', 'wsgi.version': (1, 0),
           'wsgi.url_scheme': 'http', 'wsgi.input': io.BytesIO(b''), 'wsgi.errors': io.StringIO(),
           'wsgi.multithread': False, 'wsgi.multiprocess': False, 'wsgi.run_once': False,
           'REMOTE_ADDR': '127.0.0.1'}
    if cookie is not None:
        env['HTTP_COOKIE'] = 'session_id=' + cookie
    res = {}

    def sr(status, headers, exc=None):
        res['status'] = status
        res['headers'] = headers
    it = app(env, sr)
    try:
        body = b''.join(it)
    finally:
        if hasattr(it, 'close'):
            it.close()
    return res['status'], res['headers'], body


def _parse_set_cookie(headers, now_epoch):
    """-> (id or None, expired flag)."""
    lines = [v for k, v in headers if k.lower() == 'set-cookie' and v.startswith('session_id=')]
    if not lines:
        return None, False
    parts = lines[-1].split(';')
    sid = parts[0].split('=', 1)[1]
    if len(sid) >= 2 and sid[0] == '"' and sid[-1] == '"':
        sid = sid[1:-1]
    attrs = {}
    for p in parts[1:]:
        k, _, v = p.strip().partition('=')
        attrs[k.lower()] = v
    expired = False
    if 'max-age' not in attrs and 'expires' in attrs:
        try:
            import email.utils
            t = email.utils.parsedate_to_datetime(attrs['expires']).timestamp()
            expired = t < now_epoch
        except Exception:
            expired = False
    return sid, expired


def _classify_blob(blob):
    """What the harness' own pickle.load makes of a session file: ('g', data, exp_ticks) or ('b', cls)."""
    try:
        obj = pickle.loads(blob)
    except EOFError:
        return ('b', 'eof')
    except pickle.UnpicklingError:
        return ('b', 'unp')
    except Exception:
        return ('b', 'oth')
    if (isinstance(obj, tuple) and len(obj) == 2 and isinstance(obj[0], dict)
            and isinstance(obj[1], _datetime.datetime)):
        return ('g', obj[0], _ticks(obj[1]))
    return ('b', 'oth')


def _ticks(dt):
    sec = (dt - BASE).total_seconds()
    if sec != int(sec) or int(sec) % 60:
        return 'BADEXP(%r)' % sec
    return int(sec) // 60


def _show_dict(d):
    if not d:
        return '~'
    return ','.join('%s=%s' % (k, d[k]) for k in sorted(d, key=lambda x: (isinstance(x, str), x)))


# ----------------------------------------------------------------------------------------------
# running one history on the real code
# ----------------------------------------------------------------------------------------------
def run_history(case):
    """Execute a history on the real sessions code.

    Returns {'items': [canonical per-op observation], 'model_line': str, 'events': [...]} where
    `events` is the raw observation list consumed by the oracle.
    """
    import cherrypy
    from cherrypy.lib import sessions
    cherrypy.config.update({'environment': 'test_suite', 'log.screen': False})
    backend, timeout = case['backend'], int(case['timeout'])
    w = _World(case)
    W[0] = w
    saved = (sessions.datetime, sessions.time, sessions.os)
    sessions.datetime, sessions.time, sessions.os = _DatetimeShim(), _TimeShim(), _OsShim()
    real_generate_id = sessions.Session.generate_id
    sessions.Session.generate_id = lambda self: w.generate_id(self, real_generate_id)
    sessions.RamSession.cache.clear()
    sessions.RamSession.locks.clear()
    if hasattr(cherrypy, 'session'):
        del cherrypy.session
    tmp = tempfile.mkdtemp(prefix='c14-') if backend == 'file' else None
    try:
        app = _get_app(backend, timeout, tmp)

        def spath(sid):
            return _os.path.join(tmp, 'session-' + sid)

        def listing():
            """{real id: ('g', canon dict, exp) | ('b', cls)} of the durable store."""
            out = {}
            if backend == 'ram':
                for sid, (data, exp) in sessions.RamSession.cache.items():
                    out[sid] = ('g', canon_dict(data), _ticks(exp))
            else:
                for name in _os.listdir(tmp):
                    if name.startswith('session-') and not name.endswith('.lock'):
                        if not _os.path.isfile(_os.path.join(tmp, name)):
                            out[name[8:]] = ('b', 'notafile')
                            continue
                        with open(_os.path.join(tmp, name), 'rb') as f:
                            c = _classify_blob(f.read())
                        out[name[8:]] = ('g', canon_dict(c[1]), c[2]) if c[0] == 'g' else c
            return out

        w.live = lambda: sorted(s for s in listing() if s in w.id_of)

        def show_listing(ls):
            if not ls:
                return '~'
            ents = []
            for sid in sorted(ls, key=w.number):
                e = ls[sid]
                if e[0] == 'g':
                    ents.append('%d:g:%s:%s' % (w.number(sid), e[2], _show_dict(e[1])))
                else:
                    ents.append('%d:b:%s' % (w.number(sid), e[1]))
            return '!'.join(ents)

        jars = {}          # client -> list of ids received (last = current, None = dropped)
        items, mops, events = [], [], []
        for op in case['ops']:
            kind = op[0]
            before = listing()
            if kind == 'req':
                _, client, spec, hops = op
                cookie = _resolve_cookie(spec, jars, before, w)
                if cookie is not None and cookie not in w.id_of:
                    w.presented.add(cookie)
                w.reads = []
                # does the file path of this id leave the storage directory (C11's rule, recomputed here)?
                escapes = bool(backend == 'file' and cookie is not None and '\x00' not in cookie and not
                               _os.path.abspath(_os.path.join(tmp, 'session-' + cookie)).startswith(
                                   _os.path.join(tmp, '')))
                status, headers, body = _wsgi(app, 'ops=' + ','.join(hops), cookie)
                code = status.split()[0]
                sid, expired = _parse_set_cookie(headers, EPOCH + 60.0 * w.clock)
                after = listing()
                st = {'200': 'ok', '400': '400', '500': '500'}.get(code, code)
                reads = list(w.reads)
                items.append('R:%s:%s:%d:%s@%s' % (
                    st, '-' if sid is None else w.number(sid), 1 if expired else 0,
                    '/'.join(_show_dict(r) for r in reads) if reads else '-', show_listing(after)))
                if cookie is None:
                    mc = 'n'
                elif escapes:
                    mc = 'e%d' % w.number(cookie)
                else:
                    mc = 'i%d' % w.number(cookie)
                mhops = [h for h in hops if h != 'S']     # streaming is not a model operation
                mops.append('q/%s/%s' % (mc, '+'.join(mhops) if mhops else '-'))
                events.append({'op': 'req', 'client': client, 'spec': spec, 'cookie': cookie, 'hops': hops,
                               'status': st, 'sid': sid, 'expired': expired, 'reads': reads,
                               'before': before, 'after': after, 'now': w.clock, 'escapes': escapes,
                               'err': body[-600:].decode('utf-8', 'replace') if code == '500' else ''})
                if sid is not None:
                    j = jars.setdefault(client, [])
                    if not j or j[-1] != sid:
                        j.append(sid)
                    if expired:
                        j.append(None)
            elif kind == 'adv':
                w.clock += int(op[1])
                items.append('done@' + show_listing(before))
                mops.append('a%d' % int(op[1]))
                events.append({'op': 'adv', 'd': int(op[1]), 'now': w.clock})
            elif kind == 'sweep':
                inst = w.first_loaded
                out = 'done'
                exc = ''
                if inst is not None:
                    try:
                        inst.clean_up()
                    except common.HarnessError:
                        raise
                    except Exception as e:      # the Monitor thread would die here
                        out = 'aborted'
                        exc = type(e).__name__
                        if backend == 'file' and getattr(inst, 'locked', False):
                            pass
                after = listing()
                items.append(out + '@' + show_listing(after))
                if backend == 'file' and before:
                    # the order in which (the sorted) os.listdir yields the session files
                    mops.append('s' + ','.join(str(w.number(x)) for x in sorted(before)))
                else:
                    mops.append('s')
                events.append({'op': 'sweep', 'out': out, 'exc': exc, 'before': before, 'after': after,
                               'now': w.clock, 'ran': inst is not None})
            elif kind == 'tear':
                _, client, how, arg = op
                j = [x for x in jars.get(client, []) if x is not None]
                sid = j[-1] if j else None
                done = False
                cls = None
                if backend == 'file' and sid is not None and sid in before and _os.path.isfile(spath(sid)):
                    with open(spath(sid), 'rb') as f:
                        blob = f.read()
                    if how == 'cut':
                        new = blob[:int(arg) % len(blob)] if blob else b''
                    elif how == 'zero':
                        new = b''
                    elif how == 'garbage':
                        new = GARBAGE_CONTRACT[int(arg) % len(GARBAGE_CONTRACT)]
                    elif how == 'garbage_other':
                        new = GARBAGE_OTHER[int(arg) % len(GARBAGE_OTHER)]
                    else:
                        raise common.HarnessError('bad tear kind %r' % how)
                    with open(spath(sid), 'wb') as f:
                        f.write(new)
                    c = _classify_blob(new)
                    if c[0] == 'g':
                        raise common.HarnessError('tear produced a loadable file: %r' % new)
                    cls = c[1]
                    if how in ('cut', 'zero') and cls not in ('eof', 'unp'):
                        raise common.HarnessError(
                            'pickle contract broken: truncation at %d of %r raises class %s'
                            % (len(new), blob, cls))
                    done = True
                    mops.append('t%d.%s' % (w.number(sid), cls))
                else:
                    mops.append('a0')
                after = listing()
                items.append('done@' + show_listing(after))
                events.append({'op': 'tear', 'sid': sid if done else None, 'cls': cls, 'how': how,
                               'now': w.clock, 'after': after, 'len': len(blob) if done else 0})
            else:
                raise common.HarnessError('bad op %r' % (op,))
        if w.unknown and any(v in w.id_of.values() for v in w.unknown.values()):
            raise common.HarnessError('id numbering clash')
        line = '%s %d 1 %s %s' % (backend, timeout, ','.join(map(str, w.draws)) or '-', ';'.join(mops) or 'a0')
        return {'items': items, 'model_line': line, 'events': events, 'draws': list(w.draws),
                'ids': dict(w.id_of)}
    finally:
        sessions.datetime, sessions.time, sessions.os = saved
        sessions.Session.generate_id = real_generate_id
        sessions.RamSession.cache.clear()
        sessions.RamSession.locks.clear()
        W[0] = None
        if tmp:
            shutil.rmtree(tmp, ignore_errors=True)


def _resolve_cookie(spec, jars, before, w):
    f = spec.split(':')
    k = f[0]

    def cur(j):
        ids = jars.get(int(j), [])
        return ids[-1] if ids else None

    def anyid(j):
        ids = [x for x in jars.get(int(j), []) if x is not None]
        return ids[-1] if ids else None
    if k == 'none':
        return None
    if k == 'jar':
        return cur(f[1])
    if k == 'old':
        ids = [x for x in jars.get(int(f[1]), []) if x is not None]
        return ids[int(f[2]) % len(ids)] if ids else None
    if k == 'unk':
        return 'ffffffff%032x' % (int(f[1]) + 1)
    if k == 'esc':
        return ESCAPING[int(f[1]) % len(ESCAPING)]
    if k == 'empty':
        return ''
    base = anyid(f[1])
    if base is None:
        return None
    if k == 'lock':
        return base + '.lock'
    if k == 'upper':
        return base.upper()
    if k == 'sub':
        return 'x/../session-' + base
    if k == 'trail':
        return base + '/'
    if k == 'prefix':
        return base[:20]
    raise common.HarnessError('bad cookie spec %r' % spec)


# ----------------------------------------------------------------------------------------------
# oracle: the property statement evaluated on what the real code did (independent of the model)
# ----------------------------------------------------------------------------------------------
def oracle(case, events):
    """Reference dict-with-expiry written from the statement.  Returns [(what, signature)].

    ref: id -> {'alts': [dict, ...] acceptable contents, 'lo': t, 'hi': t}: data must be returned while
    now < lo, must not be returned once now > hi (at lo..hi either: "until its timeout elapses" does
    not say which side the boundary tick is on, and a read-only request may or may not renew it).
    """
    T = int(case['timeout'])
    backend = case['backend']
    bad = []
    ref = {}
    torn = {}
    for n, ev in enumerate(events):
        now = ev['now']
        if ev['op'] == 'adv':
            continue
        if ev['op'] == 'tear':
            if ev['sid'] is not None:
                ref.pop(ev['sid'], None)
                torn[ev['sid']] = ev['cls']
            continue
        if ev['op'] == 'sweep':
            other = sorted(c for s, c in torn.items() if c == 'oth' and s in ev['before'])
            if ev['out'] != 'done':
                sig = 'F14d:garbage_file_other_exception_class' if other else 'sweep_raised:' + ev['exc']
                bad.append(('op %d: the sweep was stopped by %s' % (n, ev['exc']), sig))
                continue
            if not ev['ran']:
                continue
            for sid, e in ref.items():
                nonempty = all(a for a in e['alts'])
                if now < e['lo'] and nonempty and sid in ev['before'] and sid not in ev['after']:
                    bad.append(('op %d: sweep at t=%d removed live session (expires %d)' % (n, now, e['lo']),
                                'sweep_removed_live'))
            for sid in ev['after']:
                if sid in ref and now > ref[sid]['hi']:
                    bad.append(('op %d: sweep at t=%d left expired session (expired at %d)'
                                % (n, now, ref[sid]['hi']), 'sweep_left_expired'))
            for sid in list(ref):
                if sid not in ev['after'] and now >= ref[sid]['lo']:
                    del ref[sid]
            for sid in ev['after']:
                if sid not in ev['before']:
                    bad.append(('op %d: sweep created an entry' % n, 'sweep_created'))
            continue
        # ---- request ----
        c, sid, st = ev['cookie'], ev['sid'], ev['status']
        before = ev['before']
        garbage_other = c is not None and torn.get(c) == 'oth' and c in before
        if st == '500':
            sig = 'F14d:garbage_file_other_exception_class' if garbage_other else \
                ('torn_file_error' if c in torn else 'request_500')
            bad.append(('op %d: request answered 500: %s' % (n, ev['err'][-300:]), sig))
            continue
        if st == '400':
            if not ev['escapes']:
                bad.append(('op %d: request answered 400 for cookie %r' % (n, c), 'request_400'))
            elif ev['after'] != before or sid is not None:
                bad.append(('op %d: rejected request changed the store / set a cookie' % n, 'rejected_changed'))
            continue
        if st != 'ok':
            bad.append(('op %d: status %s' % (n, st), 'status'))
            continue
        # (1) no fixation / fresh ids
        if sid is None:
            bad.append(('op %d: no session cookie in the response' % n, 'no_cookie'))
            continue
        if c is not None and sid == c:
            if c not in before:
                bad.append(('op %d: presented id %r adopted although the store holds nothing for it'
                            % (n, c), 'fixation'))
        else:
            if not HEX40.match(sid):
                bad.append(('op %d: issued id %r is not 40 hex digits' % (n, sid), 'id_shape'))
            if sid in before:
                bad.append(('op %d: issued id %r equals a live id' % (n, sid), 'fresh_id_is_live'))
        # (2) contents seen by the handler
        regen = any(h == 'g' for h in ev['hops'])
        # the session the request starts with: the presented id whenever the statement demands that its
        # data be served (the reference holds it), or when the code visibly adopted it.  With a regenerate
        # in the handler the final id differs; adoption is then inferred from the store.
        if c is not None and c in ref:
            start_id = c
        elif c is not None and c in before and (sid == c or regen):
            start_id = c
        else:
            start_id = None
        if start_id is not None and start_id in ref:
            e = ref[start_id]
            if now < e['lo']:
                alts = [(dict(a), False) for a in e['alts']]
            elif now > e['hi']:
                alts = [({}, False)]
            else:
                alts = [(dict(a), False) for a in e['alts']] + [({}, False)]
        else:
            alts = [({}, False)]
        cur = start_id if start_id is not None else None
        changed = accessed = False
        ri = 0
        failed_here = False
        for h in ev['hops']:
            f = h.split('.')
            if f[0] == 'r':
                if ri >= len(ev['reads']):
                    break
                seen = ev['reads'][ri]
                ri += 1
                accessed = True
                match = [(a, t) for a, t in alts if a == seen]
                if not match:
                    exp = [a for a, t in alts]
                    what = 'op %d: handler read %r, the statement allows %r (t=%d)' % (n, seen, exp, now)
                    if start_id in torn:
                        sig = 'torn_file_data'
                    elif not seen and any(a for a in exp):
                        sig = 'live_data_lost'
                    else:
                        sig = 'dead_data_returned'
                    bad.append((what, sig))
                    failed_here = True
                    break
                clean = [m for m in match if not m[1]]
                alts = clean[:1] if clean else match[:1]
            elif f[0] == 'w':
                alts = [(dict(a, **{}), t) for a, t in alts]
                for a, t in alts:
                    a[int(f[1])] = int(f[2]) % len(VALS)
                changed = accessed = True
            elif f[0] == 'k':
                alts = [(dict(a), t) for a, t in alts]
                for a, t in alts:
                    a.pop(int(f[1]), None)
                changed = accessed = True
            elif f[0] == 'c':
                alts = [({}, False)]
                changed = accessed = True
            elif f[0] == 'g':
                if cur is not None:
                    ref.pop(cur, None)
                    torn.pop(cur, None)
                cur = None
                if not any(not a for a, t in alts):
                    alts = alts + [({}, False)]
            elif f[0] == 'd':
                if cur is not None:
                    ref.pop(cur, None)
                    torn.pop(cur, None)
                elif not any(h2 == 'g' for h2 in ev['hops']):
                    ref.pop(sid, None)
                alts = [({}, False)] + [(a, True) for a, t in alts if a]
                changed = False
        if failed_here:
            ref.pop(sid, None)
            continue
        # dedupe
        ded = []
        for a, t in alts:
            if not any(a == b and t == u for b, u in ded):
                ded.append((a, t))
        clean = [a for a, t in ded if not t]
        continuing = start_id is not None and sid == start_id and sid in ref
        if changed:
            ref[sid] = {'alts': clean or [{}], 'lo': now + T, 'hi': now + T}
            torn.pop(sid, None)
        elif accessed and continuing:
            ref[sid]['alts'] = clean or [{}]
            ref[sid]['hi'] = max(ref[sid]['hi'], now + T)
        elif accessed:
            # a session that moved to a new id (regenerate) or was re-created after delete and only read:
            # what it carries may or may not have been stored; either is fine by the statement
            ref[sid] = {'alts': clean + ([{}] if {} not in clean else []), 'lo': now + T, 'hi': now + T}
            torn.pop(sid, None)
        # untouched otherwise
        # entries other than the ones this request owned must still be in the store
        for other in ref:
            if other != sid and other != c and other in before and other not in ev['after']:
                bad.append(('op %d: request removed the stored session of another id' % n, 'foreign_removed'))
    return bad


# ----------------------------------------------------------------------------------------------
# generator
# ----------------------------------------------------------------------------------------------
HOPS = ['r', 'w', 'k', 'c', 'g', 'd', 'x']
HOP_W = [34, 30, 7, 3, 9, 9, 5]


def gen_hops(rng, maxn=4):
    n = rng.choice([0, 1, 1, 2, 2, 3, maxn])
    out = []
    for _ in range(n):
        h = rng.choices(HOPS, weights=HOP_W)[0]
        if h == 'w':
            out.append('w.%d.%d' % (rng.randint(1, 3), rng.randrange(len(VALS))))
        elif h == 'k':
            out.append('k.%d' % rng.randint(1, 3))
        else:
            out.append(h)
    if out and rng.random() < 0.5 and out[0] != 'r':
        out.insert(0, 'r')
    if rng.random() < 0.06:
        out.insert(rng.randrange(len(out) + 1), 'S')
    return out


def gen_case(rng, backend=None, max_ops=40):
    backend = backend or rng.choice(['ram', 'file'])
    T = rng.choice([1, 2, 3])
    ncl = rng.randint(1, 4)
    budget = rng.choice([6, 12, 20, 30, max_ops])
    ops = []
    used = 0
    now = 0
    exp = {}         # client -> approximate expiry tick of its current session (generator's guess)
    have = set()
    nunk = 0
    while used < budget:
        r = rng.random()
        if r < 0.60 or not have:
            client = rng.randrange(ncl)
            q = rng.random()
            if client not in have:
                spec = 'none' if q < 0.8 else ('unk:%d' % nunk)
            elif q < 0.66:
                spec = 'jar:%d' % client
            elif q < 0.72:
                spec = 'none'
            elif q < 0.79:
                spec = 'old:%d:%d' % (rng.choice(sorted(have)), rng.randrange(4))
            elif q < 0.85:
                nunk += 1
                spec = 'unk:%d' % nunk
            elif q < 0.90:
                spec = 'jar:%d' % rng.choice(sorted(have))       # another client's id
            else:
                spec = rng.choice(['lock:%d', 'upper:%d', 'sub:%d', 'trail:%d', 'prefix:%d']) % \
                    rng.choice(sorted(have)) if rng.random() < 0.7 else \
                    rng.choice(['esc:%d' % rng.randrange(len(ESCAPING)), 'empty'])
            hops = gen_hops(rng)
            if used + 1 + len(hops) > max_ops:
                hops = hops[:max(0, max_ops - used - 1)]
            ops.append(['req', client, spec, hops])
            used += 1 + len(hops)
            have.add(client)
            if any(h[0] in 'rwkc' for h in hops):
                exp[client] = now + T
        elif r < 0.80:
            # advance: mostly aimed at an expiry boundary
            targets = [e for e in exp.values() if e >= now]
            if targets and rng.random() < 0.7:
                t = rng.choice(targets) + rng.choice([-1, 0, 0, 1])
                d = max(0, t - now)
            else:
                d = rng.choice([0, 1, 1, 2, T, T + 1])
            ops.append(['adv', d])
            now += d
            used += 1
        elif r < 0.93 or backend == 'ram':
            ops.append(['sweep'])
            used += 1
        else:
            client = rng.choice(sorted(have))
            how = rng.choices(['cut', 'zero', 'garbage'], weights=[6, 1, 2])[0]
            ops.append(['tear', client, how, rng.randrange(1000)])
            used += 1
            exp.pop(client, None)
    dups = []
    if rng.random() < 0.45:
        for k in range(12):
            if rng.random() < 0.3:
                dups.append([k, rng.randrange(8)])
    return {'backend': backend, 'timeout': T, 'idseed': rng.randrange(1 << 30), 'dups': dups, 'ops': ops}


def torn_cases(rng, nfiles):
    """Every truncation offset of real saved files (+ zero-length + contract-class garbage): the torn
    file sits between two expired sessions in listing order, so the sweep has to get past it."""
    out = []
    for fi in range(nfiles):
        T = rng.choice([1, 2, 3])
        writes = ['w.%d.%d' % (rng.randint(1, 3), rng.randrange(len(VALS))) for _ in range(rng.randint(0, 4))]
        pre = [['req', 0, 'none', ['w.1.1']], ['req', 1, 'none', ['r'] + writes], ['req', 2, 'none', ['w.2.2']]]
        # length of the file this history saves, measured by a dry run on the real code
        dry = run_history({'backend': 'file', 'timeout': T, 'idseed': fi, 'ops': pre + [['tear', 1, 'zero', 0]]})
        n = dry['events'][-1]['len']
        tails = [[['adv', T + 1], ['sweep'], ['req', 1, 'jar:1', ['r']], ['req', 1, 'jar:1', ['r', 'w.3.3']],
                  ['req', 1, 'jar:1', ['r']]],
                 [['req', 1, 'jar:1', ['r']], ['adv', T], ['sweep'], ['req', 0, 'jar:0', ['r']]]]
        for off in range(n):
            out.append({'backend': 'file', 'timeout': T, 'idseed': fi, 'ops':
                        pre + [['tear', 1, 'cut', off]] + tails[off % 2], 'torn': [fi, off, n]})
        for g in range(len(GARBAGE_CONTRACT)):
            out.append({'backend': 'file', 'timeout': T, 'idseed': fi, 'ops':
                        pre + [['tear', 1, 'garbage', g]] + tails[g % 2], 'torn': [fi, 'garbage', g]})
    return out



# ----------------------------------------------------------------------------------------------
# table regenerated from the live module on every run: which exception classes of pickle.load does
# FileSession._load turn into "no session"?  Measured by executing the real `_load` with a `pickle`
# whose `load` raises the class (never by reading source text).
# ----------------------------------------------------------------------------------------------
OTHER_CLASSES = [ValueError, TypeError, AttributeError, ImportError, ModuleNotFoundError, IndexError, KeyError,
                 UnicodeDecodeError, OverflowError, MemoryError, RuntimeError, AssertionError]


def _load_catches(exc_factory):
    from cherrypy.lib import sessions

    class _P:
        UnpicklingError = pickle.UnpicklingError
        HIGHEST_PROTOCOL = pickle.HIGHEST_PROTOCOL

        @staticmethod
        def load(f):
            raise exc_factory()
    tmp = tempfile.mkdtemp(prefix='c14t-')
    saved = sessions.pickle
    sessions.pickle = _P
    try:
        path = _os.path.join(tmp, 'session-x')
        with open(path, 'wb') as f:
            f.write(b'x')
        inst = sessions.FileSession.__new__(sessions.FileSession)
        inst.locked = True
        inst.debug = False
        try:
            return inst._load(path) is None
        except Exception:
            return False
    finally:
        sessions.pickle = saved
        shutil.rmtree(tmp, ignore_errors=True)


def tables(ctx):
    from cherrypy.lib import sessions
    eof = _load_catches(EOFError)
    unp = _load_catches(lambda: pickle.UnpicklingError('x'))
    oth = [c.__name__ for c in OTHER_CLASSES
           if _load_catches((lambda c=c: c('utf-8', b'x', 0, 1, 'x')) if c is UnicodeDecodeError else c)]
    missing_file = False
    try:
        inst = sessions.FileSession.__new__(sessions.FileSession)
        inst.locked = True
        inst.debug = False
        missing_file = inst._load('/nonexistent/c14/session-x') is None
    except Exception:
        missing_file = False
    drawn = []

    class _O:
        @staticmethod
        def urandom(n):
            drawn.append(n)
            return b'\x00' * n
    saved = sessions.os
    sessions.os = _O
    try:
        gid = sessions.Session.generate_id(sessions.Session.__new__(sessions.Session))
    finally:
        sessions.os = saved
    src = """/- GENERATED by harness/c14.py `tables` from the live cherrypy.lib.sessions - do not edit.
   Each entry is measured by executing the real code (FileSession._load with a pickle whose load
   raises the class; Session.generate_id with a recording urandom). -/
import CpModel.SessionStore
namespace CpModel.Gen.C14
open CpModel.SessionStore

/-- does `FileSession._load` map an exception of this class from `pickle.load` to "no session"?
    `other` = every one of: %s -/
def loadCatches : PExc -> Bool
  | .eof => %s
  | .unpickling => %s
  | .other => %s

/-- a missing file (IOError from `open`) is "no session" -/
def missingFileIsNone : Bool := %s

/-- bytes drawn from `os.urandom` per id, and the length of the id text -/
def idBytes : Nat := %d
def idTextLen : Nat := %d

end CpModel.Gen.C14
""" % (', '.join(c.__name__ for c in OTHER_CLASSES), str(eof).lower(), str(unp).lower(),
       str(len(oth) == len(OTHER_CLASSES)).lower(), str(missing_file).lower(),
       drawn[0] if drawn else 0, len(gid))
    if oth and len(oth) != len(OTHER_CLASSES):
        ctx.note('FileSession._load catches some but not all other classes: %s' % oth)
    return {'CpModel/Gen/C14Tables.lean': src}

def compress_ids(items):
    """Ids are nominal: replace the numbers of source-drawn ids (< UNKNOWN_BASE) by their rank among the
    ids appearing in this history, on either side (numbering by draw is monotone on both sides, so equal
    behaviour gives equal ranks even when an intermediate draw was never observed)."""
    seen = set()
    parsed = []
    for it in items:
        out, _, ls = it.partition('@')
        f = out.split(':', 4) if out.startswith('R:') else None
        ents = [] if ls in ('~', '') else [e.split(':', 1) for e in ls.split('!')]
        if f and f[2] != '-':
            seen.add(int(f[2]))
        for e in ents:
            seen.add(int(e[0]))
        parsed.append((out, f, ents, ls))
    rank = {v: k + 1 for k, v in enumerate(sorted(x for x in seen if x < UNKNOWN_BASE))}
    res = []
    for out, f, ents, ls in parsed:
        if f and f[2] != '-':
            f = f[:2] + [str(rank.get(int(f[2]), int(f[2])))] + f[3:]
            out = ':'.join(f)
        l2 = '!'.join('%s:%s' % (rank.get(int(e[0]), int(e[0])), e[1]) for e in ents) if ents else ls
        res.append(out + '@' + l2)
    return res


# ----------------------------------------------------------------------------------------------
def check_cases(ctx, cases, compare=True, shrink=True):
    kept, results = [], []
    for c in cases:
        try:
            r = run_history(c)
        except common.HarnessError:
            raise
        except Exception as e:     # the harness' own bookkeeping tripped over what the code left behind
            import traceback
            if not ctx.extra.get('_crash'):
                ctx.extra['_crash'] = '%r on %s\n%s' % (e, json.dumps(c)[:400], traceback.format_exc()[-1200:])
            continue
        kept.append(c)
        results.append(r)
    _report(ctx, kept, results, compare, shrink)


def _crash_verdict(ctx):
    """A crash inside the harness is a harness error (exit 2) - unless the same run found an input on
    which the property fails, which is then what gets reported."""
    crash = ctx.extra.pop('_crash', None)
    if crash:
        if ctx.oracle_failures:
            ctx.note('harness bookkeeping crashed on one history (ignored, a violation was found): ' + crash[:300])
        else:
            raise common.HarnessError('run_history crashed: ' + crash)


def _report(ctx, cases, results, compare=True, shrink=True):
    lines = [r['model_line'] for r in results]
    model = ctx.model(lines) if compare else None
    for idx, (case, res) in enumerate(zip(cases, results)):
        evs = res['events']
        nreq = sum(1 for e in evs if e['op'] == 'req')
        adopted = sum(1 for e in evs if e['op'] == 'req' and e['cookie'] is not None and e['sid'] == e['cookie'])
        nontrivial = nreq >= 2 and adopted >= 1
        ctx.case(case, nontrivial=nontrivial, key=json.dumps([case['backend'], case['timeout'], case['ops'],
                                                              case.get('dups')]))
        _count(ctx, case, evs)
        fails = oracle(case, evs)
        known_only = True
        for what, sig in fails:
            if ctx.match_known(sig) is None:
                known_only = False
        if fails and not known_only and shrink and not ctx.searching and len(ctx.oracle_failures) < 3:
            case2 = _shrink(case, {s for _, s in fails})
            if case2 is not None:
                res2 = run_history(case2)
                fails2 = oracle(case2, res2['events'])
                if fails2:
                    case, res, fails = case2, res2, fails2
        for what, sig in fails:
            ctx.oracle_fail(case, '%s [%s, T=%s]' % (what, case['backend'], case['timeout']), sig)
        if model is not None and (not fails or known_only):
            ctx.compared()
            mitems = compress_ids(model[idx].split(';'))
            res = dict(res, items=compress_ids(res['items']))
            if mitems != res['items']:
                k = next((i for i, (a, b) in enumerate(zip(res['items'], mitems)) if a != b),
                         min(len(mitems), len(res['items'])))
                ctx.disagree(case, res['items'][k:k + 1], mitems[k:k + 1],
                             'op %d (%s) of the history: observables differ' % (k, json.dumps(case['ops'][k])
                                                                                 if k < len(case['ops']) else '?'))


def _shrink(case, sigs):
    def still(ops):
        c = dict(case, ops=ops)
        try:
            r = run_history(c)
        except common.HarnessError:
            return False
        return any(s in sigs for _, s in oracle(c, r['events']))
    try:
        ops = common.shrink_list(case['ops'], still, max_rounds=60)
    except Exception:
        return None
    return dict(case, ops=ops)


def _count(ctx, case, evs):
    ctx.count('backend:' + case['backend'])
    ctx.count('timeout:%s' % case['timeout'])
    n = len(case['ops']) + sum(len(o[3]) for o in case['ops'] if o[0] == 'req')
    ctx.count('ops:%s' % ('<=10' if n <= 10 else '<=20' if n <= 20 else '<=30' if n <= 30 else '<=40'))
    if case.get('dups'):
        ctx.count('with_id_collisions')
    if case.get('small') is not None:
        ctx.count('small_scope_histories')
    if case.get('torn'):
        ctx.count('torn:all_offsets_cases')
        ctx.extra.setdefault('_torn_files', set()).add((case['torn'][0], case['timeout']))
    for e in evs:
        if e['op'] == 'req':
            k = e['spec'].split(':')[0]
            ctx.count('cookie:' + k)
            ctx.count('status:' + e['status'])
            if e['cookie'] is None:
                ctx.count('id:new(no cookie)')
            elif e['sid'] == e['cookie']:
                ctx.count('id:adopted')
            else:
                ctx.count('id:new(cookie refused)')
            for h in e['hops']:
                ctx.count('hop:' + h.split('.')[0])
            for r in e['reads']:
                ctx.count('read:nonempty' if r else 'read:empty')
        elif e['op'] == 'sweep':
            ctx.count('sweep:removed=%d' % min(3, len(e['before']) - len(e['after'])))
        elif e['op'] == 'tear':
            ctx.count('tear:%s:%s' % (e['how'], e['cls']))
        elif e['op'] == 'adv':
            ctx.count('advance')


def corpus_cases():
    d = _os.path.join(common.CORPUS, PROPERTY)
    out = []
    if _os.path.isdir(d):
        for f in sorted(_os.listdir(d)):
            if f.endswith('.json'):
                out.append(json.load(open(_os.path.join(d, f))))
    return out


def _work(args):
    """Worker for the thorough tier: generate and run a chunk of histories."""
    import random
    seed, n = args
    rng = random.Random(seed)
    cases = [gen_case(rng) for _ in range(n)]
    return cases, [run_history(c) for c in cases]


def _work_cases(cases):
    return cases, [run_history(c) for c in cases]


SMALL_ALPHABET = [
    ['req', 0, 'jar:0', ['r']],
    ['req', 0, 'jar:0', ['w.1.1']],
    ['req', 0, 'jar:0', ['r', 'd']],
    ['req', 0, 'jar:0', ['r', 'g']],
    ['req', 0, 'jar:0', []],
    ['req', 1, 'jar:0', ['r', 'w.2.2']],      # a second client presenting the first one's id
    ['req', 0, 'unk:1', ['r']],
    ['req', 0, 'old:0:0', ['r']],             # the first id the client ever received
    ['adv', 1],
    ['sweep'],
]


def enum_small(depth):
    """Systematic small scope: every sequence of exactly `depth` operations over a 10/11-symbol alphabet
    (timeout 1 tick, so expiry-1 / expiry / expiry+1 are all reached), both backends.  Observations are
    per operation, so the shorter sequences are covered as prefixes."""
    import itertools
    for backend in ('ram', 'file'):
        alpha = SMALL_ALPHABET + ([['tear', 0, 'cut', 7]] if backend == 'file' else [])
        for seq in itertools.product(range(len(alpha)), repeat=depth):
            yield {'backend': backend, 'timeout': 1, 'idseed': 0, 'ops': [alpha[k] for k in seq],
                   'small': list(seq)}


def run(ctx):
    for e in ctx.known:
        if e.get('status') == 'known' and 'ops' in e.get('witness', {}):
            check_cases(ctx, [e['witness']], compare=True, shrink=False)
    check_cases(ctx, corpus_cases())
    measure_contract(ctx)
    if ctx.quick():
        cases = [gen_case(ctx.rng) for _ in range(ctx.budget(1300, 0))]
        check_cases(ctx, cases)
        check_cases(ctx, torn_cases(ctx.rng, 1))
        small = list(enum_small(3))
        check_cases(ctx, small)
        ctx.extra['exhaustive_small_scope'] = {'depth': 3, 'histories': len(small)}
    else:
        seeds = [(ctx.rng.randrange(1 << 40), 2500) for _ in range(48)]
        for cases, results in common.parallel_map(_work, seeds):
            _report(ctx, cases, results)
        tc = torn_cases(ctx.rng, 50)
        chunks = [tc[i::32] for i in range(32)]
        for cases, results in common.parallel_map(_work_cases, [c for c in chunks if c]):
            _report(ctx, cases, results)
    if not ctx.quick():
        small = list(enum_small(4))
        chunks = [small[i::32] for i in range(32)]
        for cases, results in common.parallel_map(_work_cases, chunks):
            _report(ctx, cases, results)
        ctx.extra['exhaustive_small_scope'] = {'depth': 4, 'histories': len(small)}
    _crash_verdict(ctx)
    ctx.extra['torn_files_all_offsets'] = len(ctx.extra.pop('_torn_files', ()))


def measure_contract(ctx):
    """The pickle contract the torn-file theorem is relative to, measured on this interpreter:
    every proper prefix of a real session pickle raises EOFError or UnpicklingError, the whole loads back."""
    n = 0
    for proto in range(0, pickle.HIGHEST_PROTOCOL + 1):
        for k in range(6):
            data = {'k%d' % i: make_val((i * 3 + k) % len(VALS)) for i in range(k)}
            exp = BASE + _datetime.timedelta(minutes=k)
            blob = pickle.dumps((data, exp), proto)
            if pickle.loads(blob) != (data, exp):
                raise common.HarnessError('pickle round trip failed')
            for off in range(len(blob)):
                c = _classify_blob(blob[:off])
                n += 1
                if c[0] != 'b' or c[1] not in ('eof', 'unp'):
                    raise common.HarnessError('pickle contract broken: prefix %d of %r -> %r' % (off, blob, c))
    ctx.extra['pickle_contract_prefixes_checked'] = n


def search(ctx, around=None):
    """Deeper oracle-only hunt (called when the proof or the correspondence broke)."""
    import random
    backend = around['backend'] if around else None
    seeds = [(ctx.rng.randrange(1 << 40), 350) for _ in range(16)]
    for cases, results in common.parallel_map(_work, seeds):
        if backend:
            pass
        _report(ctx, cases, results, compare=False, shrink=False)
        if ctx.oracle_failures:
            break
    if not ctx.oracle_failures:
        tc = torn_cases(random.Random(ctx.seed), 2)
        check_cases(ctx, tc, compare=False, shrink=False)


def replay(ctx, case):
    res = run_history(case)
    print('history:', json.dumps(case['ops']))
    m = ctx.model([res['model_line']])
    mitems = m[0].split(';') if m else None
    for i, it in enumerate(res['items']):
        print('  op %2d %-40s impl : %s' % (i, json.dumps(case['ops'][i])[:40], it))
        if mitems:
            print('  %s model: %s' % (' ' * 46, mitems[i] if i < len(mitems) else '?'))
    check_cases(ctx, [case], shrink=False)
