"""C09: every channel a hook's hook point / priority / fail-safe flag can come from, on the real code.

A *declaration plan* is a fault plan of harness/pipeline_common.py (pages, handler outcomes, server
behaviour ...) whose pages carry `decls` instead of ready-made `hooks`, plus an optional plan-level list
`cls` of class-level hooks (`Request.hooks` of the request class in use):

    decl = {'id': n, 'pt': 0..7, 'out': OUT, 'ch': CHANNEL,
            'ap': V, 'af': V          attributes `priority` / `failsafe` set on the callable (key absent = no attribute)
            'hp': V, 'hf': V, 'hkw'   Hook(cb, failsafe=hf, priority=hp, **hkw)                       [hobj, cls]
            'box': 'tools'|'vt'|'vx'  toolbox the tool lives in (`cherrypy.tools`, two custom toolboxes)  [tools]
            'tp': V                   Tool(point, cb, priority=tp) (absent = argument omitted)
            'wp': V                   `priority` attribute of the subclass's `_wrapper`               [ctool]
            'conf': [[LEVEL, KEY, V]] config entries `<box>.d<id>.<KEY>`; LEVEL g = cherrypy.config, r = Root._cp_config,
                                      a = app config '/', h = the page handler's _cp_config, p = the path section
            'deco': {KEY: V}          the page handler is decorated with `tool(**deco)` (switches the tool on)
            'ret': 1                  the HandlerTool's callable returns True (it handled the request: no page handler) [htool]
    CHANNEL = hobj   a Hook object in config `hooks.<point>.d<id>`
              hbare  the bare callable in config `hooks.<point>.d<id>`
              hstr   a dotted name in config `hooks.<point>.d<id>` (resolved by reprconf.attributes)
              tool   cherrypy.Tool;  htool  cherrypy._cptools.HandlerTool;  etool  ErrorTool (no hook: error_response)
              ctool  a subclass of CachingTool that inherits its `_setup` (hook = its `_wrapper`)
              stool  a subclass of SessionTool that inherits its `_setup` (main hook + lock / save / close hooks)
    V = None | bool | int | float (a multiple of 1/4) | str

Nothing in cherrypy is patched; the subclasses only replace what would need a real cache / session store
(`_wrapper`, `_lock_session`, the constructor's choice of callable).
"""
import copy
import sys
import zlib

from . import common
from . import pipeline_common as pc
from . import c09_tables

import cherrypy
from cherrypy import _cprequest, _cptools
from cherrypy.lib import sessions as _sessions

POINTS = pc.POINTS
BOXES = ['tools', 'vt', 'vx']
VX = _cptools.Toolbox('vx')
KW_NAMES = ['a0', 'a1', 'a2']
LEVELS = 'grahp'

AMBIG = 'AMBIG'          # the documentation does not say what this declaration means: no demand
NONNUM = 'NONNUM'        # not a number: the statement's ordering clause does not apply at this point


# ----------------------------------------------------------------------------------------------
# values on the wire (lean/CpModel/HookAttachProto.lean)
# ----------------------------------------------------------------------------------------------
def enc_val(v):
    if v is None:
        return 'N'
    if v is True:
        return 'b1'
    if v is False:
        return 'b0'
    if isinstance(v, int):
        return 'i%d' % v
    if isinstance(v, float):
        c = c09_tables.val_code(v)
        if c is not None:
            return 'f%d' % c[1]
        return '?float'
    if isinstance(v, str):
        return 's' + '_'.join(str(ord(c)) for c in v)
    return '?' + type(v).__name__


def enc_key(k):
    if k in ('on', 'priority', 'failsafe', 'locking'):
        return k
    if k in KW_NAMES:
        return 'k%d' % KW_NAMES.index(k)
    return None


def enc_kw(d, order=None):
    items = list(d.items()) if order is None else [(k, d[k]) for k in order]
    out = []
    for k, v in items:
        ek = enc_key(k)
        out.append('%s=%s' % (ek if ek is not None else '?' + str(k), enc_val(v)))
    return '+'.join(out) or '-'


def canon_kw(s):
    """order-insensitive form of a KW string (dict equality)"""
    return '-' if s == '-' else '+'.join(sorted(s.split('+')))


def is_num(v):
    return isinstance(v, (int, float)) and not isinstance(v, bool) and v == v and abs(v) != float('inf')


# ----------------------------------------------------------------------------------------------
# probes
# ----------------------------------------------------------------------------------------------
_SLOT_PREFIX = 'VP_SLOT_'


def _mk_probe(point, hid, out, ret=None):
    def cb(**kw):
        run = pc._run[0]
        if run is not None:
            run.j.append('h%s.%d.%d' % (run.cur(), point, hid))
        pc.do_raise(out, 'hook%d.%d' % (point, hid))
        return ret
    cb.vp_id = hid
    cb.vp_out = out
    return cb


def _mk_error_tool_callable(hid, out):
    base = pc._mk_error_response(out)

    def er(**kw):
        return base()
    er.vp_id = hid
    er.vp_out = out
    return er


class ProbeCachingTool(_cptools.CachingTool):
    """CachingTool._setup is inherited; only `_wrapper` (which needs a real cache) is replaced."""

    def _wrapper(self, **kwargs):
        self.callable(**kwargs)


def _caching_tool_class(wp_given, wp):
    # the `priority` attribute lives on the function object `_wrapper`, as in CachingTool: one class per value
    def _wrapper(self, **kwargs):
        self.callable(**kwargs)
    if wp_given:
        _wrapper.priority = wp
    return type('ProbeCachingTool_', (ProbeCachingTool,), {'_wrapper': _wrapper})


class ProbeSessionTool(_cptools.SessionTool):
    """SessionTool._setup is inherited; the constructor takes the callable, `_lock_session` is silent."""

    def __init__(self, point, callable, **kw):
        _cptools.Tool.__init__(self, point, callable, **kw)

    def _lock_session(self):
        pass


def _set_attrs(cb, d):
    if 'ap' in d:
        cb.priority = d['ap']
    if 'af' in d:
        cb.failsafe = d['af']
    return cb


def _hook_object(cb, d):
    kw = dict(d.get('hkw', {}))
    if 'hf' in d:
        kw['failsafe'] = d['hf']
    if 'hp' in d:
        kw['priority'] = d['hp']
    return _cprequest.Hook(cb, **kw)


def _toolbox(name):
    return {'tools': cherrypy.tools, 'vt': pc.VT, 'vx': VX}[name]


def tool_name(d):
    return 'd%d' % d['id']


class Installed(object):
    """What one plan put into process-global places (undone after the run) and how to recognise it again."""

    def __init__(self):
        self.undo = []
        self.hookobjs = {}      # id(Hook object) -> decl
        self.callables = {}     # id(callable) -> decl   (bare callables in config)
        self.tools = {}         # decl id -> tool object
        self.reqs = []          # Request objects in creation order
        self.decorated = {}     # decl id -> the tool's entries the decorator left in the handler's _cp_config
        self.root = None

    def cleanup(self):
        for f in reversed(self.undo):
            try:
                f()
            except Exception:     # noqa: BLE001
                pass


def _make_root(plan, inst):
    methods = {}
    for i, pg in enumerate(plan['pages']):
        def mk(i):
            def page(self, *a, **kw):
                return pc.Root.default(self, 'p%d' % i)
            page.exposed = True
            return page
        methods['p%d' % i] = mk(i)
    cls = type('DRoot', (pc.Root,), methods)
    return cls


def install(plan, app, inst):
    """Put the declarations of the plan into the application (config at every level, toolboxes, root)."""
    root_cls = _make_root(plan, inst)
    _apply_reqopt(plan, app, inst)
    root_conf = {}
    glob = {}
    app.toolboxes['vx'] = VX
    mod = sys.modules[__name__]
    for i, pg in enumerate(plan['pages']):
        sec = app.config.setdefault('/p%d' % i, {})
        handler = getattr(root_cls, 'p%d' % i)
        hconf = {}
        for d in pg.get('decls', []):
            ch, pt, hid = d['ch'], d['pt'], d['id']
            if ch in ('hobj', 'hbare', 'hstr'):
                cb = _set_attrs(_mk_probe(pt, hid, d['out']), d)
                key = 'hooks.%s.d%d' % (POINTS[pt], hid)
                if ch == 'hobj':
                    h = _hook_object(cb, d)
                    inst.hookobjs[id(h)] = d
                    inst.keep = getattr(inst, 'keep', []) + [h]
                    sec[key] = h
                elif ch == 'hbare':
                    inst.callables[id(cb)] = d
                    sec[key] = cb
                else:
                    slot = '%s%d' % (_SLOT_PREFIX, hid)
                    setattr(mod, slot, cb)
                    inst.undo.append(lambda slot=slot: delattr(mod, slot))
                    sec[key] = '%s.%s' % (__name__, slot)
                continue
            box = _toolbox(d['box'])
            name = tool_name(d)
            kw = {}
            if 'tp' in d:
                kw['priority'] = d['tp']
            if ch == 'tool':
                tool = _cptools.Tool(POINTS[pt], _set_attrs(_mk_probe(pt, hid, d['out']), d), **kw)
            elif ch == 'htool':
                tool = _cptools.HandlerTool(_set_attrs(_mk_probe(2, hid, d['out'], ret=bool(d.get('ret'))), d))
            elif ch == 'etool':
                tool = _cptools.ErrorTool(_set_attrs(_mk_error_tool_callable(hid, d['out']), d))
            elif ch == 'ctool':
                tool = _caching_tool_class('wp' in d, d.get('wp'))(
                    'before_handler', _set_attrs(_mk_probe(2, hid, d['out']), d), name)
            elif ch == 'stool':
                tool = ProbeSessionTool(POINTS[pt], _set_attrs(_mk_probe(pt, hid, d['out']), d), **kw)
            else:
                raise common.HarnessError('bad channel %r' % ch)
            setattr(box, name, tool)
            inst.undo.append(lambda box=box, name=name: delattr(box, name))
            inst.tools[hid] = tool
            if 'deco' in d:
                before = dict(getattr(handler, '_cp_config', {}))
                handler = tool(**d['deco'])(handler)
                after = getattr(handler, '_cp_config', None)
                # what the decorator wrote for this tool (Tool.__call__: `on` = True plus every keyword argument)
                pre = '%s.%s.' % (d['box'], name)
                inst.decorated[hid] = ({k[len(pre):]: v for k, v in after.items()
                                        if k.startswith(pre) and (k not in before or before[k] is not v)}
                                       if isinstance(after, dict) else None)
            for level, key, v in d.get('conf', []):
                # key '' = a malformed entry `<box>.<tool>` without an argument name: `populate` raises, the
                # toolbox's __exit__ still sets up what it has, the request fails inside self.namespaces(...)
                full = '%s.%s.%s' % (d['box'], name, key) if key else '%s.%s' % (d['box'], name)
                if level == 'p':
                    sec[full] = v
                elif level == 'a':
                    app.config.setdefault('/', {})[full] = v
                elif level == 'h':
                    hconf[full] = v
                elif level == 'r':
                    root_conf[full] = v
                elif level == 'g':
                    glob[full] = v
                else:
                    raise common.HarnessError('bad level %r' % level)
        if hconf:
            if not hasattr(handler, '_cp_config'):
                handler._cp_config = {}
            handler._cp_config.update(hconf)
    if root_conf:
        root_cls._cp_config = root_conf
    if glob:
        cherrypy.config.update(glob)
        inst.undo.append(lambda: [cherrypy.config.pop(k, None) for k in glob])
    app.root = root_cls(plan['pages'])
    inst.root = app.root
    # the request class: class-level hooks + a sink for the Request objects
    hm = pc.ProbeHookMap(_cprequest.hookpoints)
    for d in plan.get('cls', []):
        cb = _set_attrs(_mk_probe(d['pt'], d['id'], d['out']), d)
        hm[POINTS[d['pt']]].append(_hook_object(cb, d))
    sink = inst.reqs

    class DRequest(pc.ProbeRequest):
        hooks = hm

        def __init__(self, *a, **k):
            pc.ProbeRequest.__init__(self, *a, **k)
            sink.append(self)
    app.request_class = DRequest
    inst.cls_map = hm
    return app


# ----------------------------------------------------------------------------------------------
# reading the real request back
# ----------------------------------------------------------------------------------------------
def _probe_id(cb, depth=0):
    """(kind, id) of the probe behind a hook callback: 'u' the callable itself / a wrapper around it,
    'l' a session tool's lock method."""
    if cb is _sessions.save:
        return 'ss'
    if cb is _sessions.close:
        return 'sc'
    hid = getattr(cb, 'vp_id', None)
    if isinstance(hid, int):
        return 'u%d' % hid
    owner = getattr(cb, '__self__', None)
    if owner is not None:
        inner = getattr(getattr(owner, 'callable', None), 'vp_id', None)
        if isinstance(inner, int):
            fn = getattr(cb, '__func__', None)
            if isinstance(owner, ProbeSessionTool) and getattr(fn, '__name__', '') == '_lock_session':
                return 'l%d' % inner
            return 'u%d' % inner
    if depth < 2:
        for inner in (getattr(cb, 'func', None), getattr(cb, '__wrapped__', None)):
            if inner is not None:
                r = _probe_id(inner, depth + 1)
                if r != '?':
                    return r
        for cell in (getattr(cb, '__closure__', None) or ()):
            try:
                r = _probe_id(cell.cell_contents, depth + 1)
            except ValueError:
                continue
            if r != '?':
                return r
    return '?'


def read_hookmap(hm):
    """[(point, cbref, priority value, failsafe value, kwargs dict)] in attachment order per point."""
    out = []
    for p, name in enumerate(POINTS):
        lst = hm.get(name, []) if isinstance(hm, dict) else []
        for h in (lst if isinstance(lst, (list, tuple)) else []):
            out.append((p, _probe_id(getattr(h, 'callback', None)), getattr(h, 'priority', None),
                        getattr(h, 'failsafe', None), getattr(h, 'kwargs', None)))
    return out


def _page_of(rq):
    pi = getattr(rq, 'path_info', None)
    if isinstance(pi, str) and pi.startswith('/p'):
        try:
            return int(pi[2:].split('/')[0])
        except ValueError:
            return None
    return None


def snapshot(rq, inst, plan):
    cfg = getattr(rq, 'config', None)
    snap = {'page': _page_of(rq), 'hooks': read_hookmap(getattr(rq, 'hooks', None)),
            'config': None, 'lean': None, 'toolmaps': None, 'er': None, 'unmodelled': None}
    if not isinstance(cfg, dict):
        return snap
    snap['config'] = cfg
    # --- the Lean input for this request -------------------------------------------------
    ns_order, boxes = [], {}
    for name, handler in rq.namespaces.items():
        if name == 'hooks':
            ns_order.append('h')
        elif name == 'request':
            ns_order.append('r')
        elif isinstance(handler, _cptools.Toolbox) and name in BOXES:
            boxes[name] = BOXES.index(name)
            ns_order.append('t%d' % boxes[name])
        elif isinstance(handler, _cptools.Toolbox):
            snap['unmodelled'] = 'toolbox %s' % name
            ns_order.append('o')
        else:
            ns_order.append('o')
    decls = {d['id']: d for pg in plan['pages'] for d in pg.get('decls', [])}
    entries = []
    for k, v in cfg.items():
        if not isinstance(k, str) or '.' not in k:
            continue
        ns, rest = k.split('.', 1)
        if ns == 'hooks':
            point = rest.split('.', 1)[0]
            if point not in POINTS:
                snap['unmodelled'] = 'hook point %s' % point
                continue
            p = POINTS.index(point)
            if isinstance(v, _cprequest.Hook):
                d = inst.hookobjs.get(id(v))
                if d is not None:
                    entries.append('H%d:%d:%s:%s:%s' % (p, d['id'], enc_val(d.get('hf')), enc_val(d.get('hp')),
                                                        enc_kw(d.get('hkw', {}))))
                else:
                    ref = _probe_id(v.callback)
                    if not ref.startswith('u'):
                        snap['unmodelled'] = 'foreign hook object'
                        continue
                    entries.append('H%d:%s:%s:%s:%s' % (p, ref[1:], enc_val(v.failsafe), enc_val(v.priority),
                                                        enc_kw(v.kwargs)))
            elif isinstance(v, str):
                slot = v.rsplit('.', 1)[-1]
                if not slot.startswith(_SLOT_PREFIX):
                    snap['unmodelled'] = 'dotted name %s' % v
                    continue
                entries.append('D%d:%s' % (p, slot[len(_SLOT_PREFIX):]))
            else:
                ref = _probe_id(v)
                if not ref.startswith('u'):
                    snap['unmodelled'] = 'foreign callable in hooks.*'
                    continue
                entries.append('B%d:%s' % (p, ref[1:]))
        elif ns == 'request':
            if rest == 'error_response':
                entries.append('E0')
            else:
                entries.append('Or')
        elif ns in boxes:
            parts = rest.split('.', 1)
            if len(parts) != 2:
                snap['unmodelled'] = 'toolbox key %s' % k
                continue
            tname, arg = parts
            hid = int(tname[1:]) if tname[:1] == 'd' and tname[1:].isdigit() else None
            if hid is None or hid not in decls:
                # a tool of the toolbox that is not ours (encode, trailing_slash, ...): fine while switched off
                if arg == 'on' and v:
                    snap['unmodelled'] = 'tool %s.%s is on' % (ns, tname)
                entries.append('Ot%d' % boxes[ns])
                continue
            ek = enc_key(arg)
            ev = enc_val(v)
            if ek is None or ev.startswith('?'):
                snap['unmodelled'] = 'config entry %s=%r' % (k, v)
                continue
            entries.append('T%d:%d:%s:%s' % (boxes[ns], hid, ek, ev))
        else:
            entries.append('Oo')
    cbs, tools = [], []
    for hid, d in decls.items():
        cbs.append('u%d:%s:%s' % (hid, enc_val(d['ap']) if 'ap' in d else '-', enc_val(d['af']) if 'af' in d else '-'))
        if d['ch'] == 'ctool' and 'wp' in d:
            cbs.append('w%d:%s:-' % (hid, enc_val(d['wp'])))
        tl = inst.tools.get(hid)
        if tl is not None:
            kind = {'tool': 'p', 'htool': 'h', 'etool': 'e', 'ctool': 'c', 'stool': 's'}[d['ch']]
            point = POINTS.index(tl._point) if tl._point in POINTS else 0
            tools.append('%d:%d:%s:%d:%d:%s' % (BOXES.index(d['box']), hid, kind, point, hid, enc_val(tl._priority)))
    cls = []
    for d in plan.get('cls', []):
        cbs.append('u%d:%s:%s' % (d['id'], enc_val(d['ap']) if 'ap' in d else '-',
                                  enc_val(d['af']) if 'af' in d else '-'))
        cls.append('%d:%d:%s:%s:%s' % (d['pt'], d['id'], enc_val(d.get('hf')), enc_val(d.get('hp')),
                                       enc_kw(d.get('hkw', {}))))
    snap['lean'] = 'attach %s %s %s %s %s' % (','.join(ns_order), ';'.join(cls) or '-', ';'.join(cbs) or '-',
                                              ';'.join(tools) or '-', ';'.join(entries) or '-')
    if any('?' in e for e in entries + cbs + tools + cls):
        snap['unmodelled'] = 'value the model cannot express'
    # --- what the request ended up with ------------------------------------------------------
    tm = []
    maps = getattr(rq, 'toolmaps', None)
    if isinstance(maps, dict):
        for ns in BOXES:
            for tname, bucket in (maps.get(ns) or {}).items():
                if tname[:1] == 'd' and tname[1:].isdigit() and int(tname[1:]) in decls and isinstance(bucket, dict):
                    tm.append('%d:%s:%s' % (BOXES.index(ns), tname[1:], canon_kw(enc_kw(bucket))))
    snap['toolmaps'] = sorted(tm)
    er = getattr(rq, 'error_response', None)
    owner = getattr(er, '__self__', None)
    hid = getattr(getattr(owner, 'callable', None), 'vp_id', None)
    if isinstance(hid, int) and isinstance(owner, _cptools.ErrorTool):
        snap['er'] = str(hid)
    elif isinstance(owner, cherrypy.HTTPError):
        snap['er'] = 'N'              # the default: HTTPError(500).set_response
    else:
        snap['er'] = '0'              # whatever `request.error_response` in config named
    return snap


def real_sorted(rq):
    """`sorted(request.hooks[point])` with the real `Hook.__lt__`, as positions in attachment order; 'T' for
    TypeError, '!<Class>' for anything else."""
    out = {}
    hm = getattr(rq, 'hooks', None)
    for p, name in enumerate(POINTS):
        lst = list(hm.get(name, [])) if isinstance(hm, dict) else []
        if lst:
            idx = {id(h): i for i, h in enumerate(lst)}
            try:
                out[p] = '.'.join(str(idx[id(h)]) for h in sorted(lst))
            except TypeError:
                out[p] = 'T'
            except Exception as e:     # noqa: BLE001
                out[p] = '!' + type(e).__name__
    return out


# ----------------------------------------------------------------------------------------------
# what the declarations mean (from the documentation; the less demanding reading where it is silent)
# ----------------------------------------------------------------------------------------------
def _first_priority(cands):
    """cands: [(given?, value)] from the strongest channel to the weakest; the last one is the default."""
    for given, v in cands:
        if not given or v is None:
            continue                      # "not given" in every channel: absent or None
        if isinstance(v, bool):
            return AMBIG                  # True / False as a priority: a number, or "unset"?  no demand
        if is_num(v):
            return v
        return NONNUM                     # strings, NaN, ...: "priority numbers" — no order defined
    return None


def _resolve_failsafe(cands):
    """True / False, or None when the documentation does not decide."""
    for n, (given, v) in enumerate(cands):
        if not given or v is None:
            continue
        if isinstance(v, bool) or (isinstance(v, int) and v in (0, 1)):
            return bool(v)
        if v == '':
            # empty string: "false" or "not given"?  decided only if both readings agree
            rest = _resolve_failsafe(cands[n + 1:])
            return False if rest is False else None
        return None                        # 'False', 'yes', 2, 0.5 ...: no demand
    return False


def declared(d, cfg):
    """What declaration `d` asks for under the effective config `cfg`:
    {'enabled': True|False|None, 'point', 'prio': number|AMBIG|NONNUM, 'fs': True|False|None, 'hook': bool}."""
    ch = d['ch']
    ap = ('ap' in d, d.get('ap'))
    af = ('af' in d, d.get('af'))
    if 'ap' in d and d['ap'] is None:
        # an attribute that exists and is None: getattr() returns it and it is stored; "not given" is as plausible
        ap_amb = True
    else:
        ap_amb = False
    if ch in ('hobj', 'cls'):
        prio = _first_priority([('hp' in d, d.get('hp')), ap, (True, 50)])
        fs = _resolve_failsafe([('hf' in d, d.get('hf')), af])
        if ap_amb and ('hp' not in d or d['hp'] is None):
            prio = AMBIG
        return {'enabled': True, 'point': d['pt'], 'prio': prio, 'fs': fs, 'hook': True}
    if ch in ('hbare', 'hstr'):
        prio = AMBIG if ap_amb else _first_priority([ap, (True, 50)])
        return {'enabled': True, 'point': d['pt'], 'prio': prio, 'fs': _resolve_failsafe([af]), 'hook': True}
    pre = '%s.%s.' % (d['box'], tool_name(d))
    if not isinstance(cfg, dict):
        cfg = {}             # the request never got a configuration (it failed before the dispatcher ran)
    on = cfg.get(pre + 'on', False)
    enabled = on if isinstance(on, bool) else (False if on is None else None)
    cp = (pre + 'priority' in cfg, cfg.get(pre + 'priority'))
    cf = (pre + 'failsafe' in cfg, cfg.get(pre + 'failsafe'))
    tp = ('tp' in d, d.get('tp'))
    cfg_decides = cp[0] and cp[1] is not None
    if ch == 'etool':
        return {'enabled': enabled, 'point': None, 'prio': None, 'fs': None, 'hook': False}
    if ch in ('tool', 'stool'):
        prio = _first_priority([cp, ap, tp, (True, 50)])
        if ap_amb and not cfg_decides:
            prio = AMBIG
        return {'enabled': enabled, 'point': d['pt'], 'prio': prio, 'fs': _resolve_failsafe([cf, af]), 'hook': True}
    if ch == 'htool':
        prio = _first_priority([cp, ap, (True, 50)])
        if ap_amb and not cfg_decides:
            prio = AMBIG
        fs = _resolve_failsafe([cf])
        # the hook is the tool's wrapper method; whether a `failsafe` attribute of the wrapped callable counts
        # is not documented
        if fs is False and not (cf[0] and cf[1] is not None and cf[1] != '') and 'af' in d and d['af']:
            fs = None
        return {'enabled': enabled, 'point': 2, 'prio': prio, 'fs': fs, 'hook': True}
    if ch == 'ctool':
        prio = _first_priority([cp, ('wp' in d, d.get('wp')), (True, 50)])
        if 'wp' in d and d['wp'] is None and not cfg_decides:
            prio = AMBIG
        if not cfg_decides and 'ap' in d and d['ap'] is not None and d['ap'] != prio:
            prio = AMBIG      # the wrapped callable's own attribute is ignored in favour of the wrapper's
        fs = _resolve_failsafe([cf])
        if fs is False and not (cf[0] and cf[1] is not None and cf[1] != '') and 'af' in d and d['af']:
            fs = None
        return {'enabled': enabled, 'point': 2, 'prio': prio, 'fs': fs, 'hook': True}
    raise common.HarnessError('bad channel %r' % ch)


# ----------------------------------------------------------------------------------------------
# running a plan
# ----------------------------------------------------------------------------------------------
def is_decl_plan(plan):
    return bool(plan.get('cls')) or bool(plan.get('reqopt')) or any(pg.get('decls') for pg in plan['pages'])


class _AfterRequestFailure(Exception):
    pass


def _failing_listener():
    raise _AfterRequestFailure('VP after_request listener fails')


REQOPTS = ['throw_errors', 'throws_ex', 'er_none', 'ar_fail']


def _apply_reqopt(plan, app, inst):
    """Request attributes / engine listeners that change how request processing *ends* (the pipeline model does
    not know them; the statement's end-hook clauses are evaluated by the oracle on the real run):
      throw_errors  request.throw_errors = True          (Request.run / respond re-raise instead of handling)
      throws_ex     request.throws also names the probes' exception class
      er_none       request.error_response = None        (handle_error skips the call)
      ar_fail       a listener on the engine's 'after_request' channel raises (release_serving)"""
    opt = plan.get('reqopt') or {}
    root = app.config.setdefault('/', {})
    if opt.get('throw_errors'):
        root['request.throw_errors'] = True
    if opt.get('throws_ex'):
        root['request.throws'] = (KeyboardInterrupt, SystemExit, cherrypy.InternalRedirect, pc.ProbeError)
    if opt.get('er_none'):
        root['request.error_response'] = None
    if opt.get('ar_fail'):
        cherrypy.engine.subscribe('after_request', _failing_listener)
        inst.undo.append(lambda: cherrypy.engine.unsubscribe('after_request', _failing_listener))


class DeclarationRejected(Exception):
    """The code under test raised while the application was being put together (Tool(...), Hook(...), the
    decorator, Application config): an observation, not a harness error."""


def _install_guarded(plan, app, inst):
    try:
        return install(plan, app, inst)
    except common.HarnessError:
        raise
    except Exception as e:     # noqa: BLE001
        raise DeclarationRejected('%s: %s' % (type(e).__name__, e))


def _empty_snapshot(why):
    return {'page': None, 'hooks': [], 'config': None, 'lean': None, 'toolmaps': None, 'er': None,
            'unmodelled': why, 'sorted': {}}


def run_real(plan):
    """pipeline_common.run_real plus what the Request objects ended up with."""
    inst = Installed()
    try:
        try:
            obs = pc.run_real(plan, app_wrapper=lambda app: _install_guarded(plan, app, inst))
        except DeclarationRejected as e:
            return {'j': [], 'starts': [], 'chunks': [], 'escaped': None, 'reqs': [], 'sites': [],
                    'chunk_before_start': False, 'snaps': [], 'cls_after': [], 'rejected': str(e)}
        snaps = []
        for rq in inst.reqs:
            try:
                s = snapshot(rq, inst, plan)
                s['sorted'] = real_sorted(rq)
            except common.HarnessError:
                raise
            except Exception as e:     # noqa: BLE001 - a request object the code under test left in an odd state
                s = _empty_snapshot('request could not be read back: %r' % (e,))
            snaps.append(s)
        # pipeline_common creates one more entry per Request object than we may have seen (Runaway): align
        while len(snaps) < len(obs['reqs']):
            snaps.append(_empty_snapshot('request object not seen'))
        obs['snaps'] = snaps
        obs['decorated'] = inst.decorated
        obs['cls_after'] = read_hookmap(getattr(inst, 'cls_map', None))
    finally:
        inst.cleanup()
    return obs


def parse_attach(line):
    if line == 'X':
        return None
    parts = dict(p.split('=', 1) for p in line.split(' '))
    hooks = []
    if parts['A'] != '-':
        for h in parts['A'].split(';'):
            p, cb, pr, fs, kw = h.split(':')
            hooks.append((int(p), cb, pr, fs, canon_kw(kw)))
    tm = []
    if parts['M'] != '-':
        for t in parts['M'].split(';'):
            b, n, kw = t.split(':')
            tm.append('%s:%s:%s' % (b, n, canon_kw(kw)))
    tm.sort()
    srt = {}
    if parts['S'] != '-':
        for s in parts['S'].split(';'):
            p, v = s.split(':')
            srt[int(p)] = v
    ranks = None if parts['R'] == 'T' else ([] if parts['R'] == '-' else
                                            [tuple(int(x) for x in r.split('.')) for r in parts['R'].split(';')])
    return {'hooks': hooks, 'er': parts['E'], 'toolmaps': tm, 'sorted': srt, 'ranks': ranks}


def real_attached(snap):
    """the request's hooks in the model's vocabulary: wrappers and callables both journal under the probe id"""
    out = []
    for p, ref, pr, fs, kw in snap['hooks']:
        out.append((p, ref, enc_val(pr), enc_val(fs), canon_kw(enc_kw(kw)) if isinstance(kw, dict) else '?kw'))
    return out


def model_attached(m):
    """per point, in attachment order (the order between points is not observable on the real HookMap)"""
    return sorted([(p, 'u' + cb[1:] if cb[:1] == 'w' else cb, pr, fs, kw) for p, cb, pr, fs, kw in m['hooks']],
                  key=lambda h: h[0])


def pipeline_plan(plan, obs, models):
    """The fault plan for the pipeline model: per page the hooks the *attachment model* computed (natural
    number priority codes).  None when the pipeline model cannot express the run."""
    if plan.get('reqopt'):
        return None
    if any(d.get('ret') for pg in plan['pages'] for d in pg.get('decls', [])):
        return None       # a HandlerTool that handles the request itself: the page handler is skipped
    out = copy.deepcopy(plan)
    outs = {d['id']: d['out'] for pg in plan['pages'] for d in pg.get('decls', [])}
    outs.update({d['id']: d['out'] for d in plan.get('cls', [])})
    done = {}
    for snap, m in zip(obs['snaps'], models):
        pg = snap['page']
        if snap['lean'] is None:
            if plan.get('cls'):
                # the class-level hooks are in place before the configuration is: the pipeline model knows no
                # hooks on a request that fails before `self.namespaces(self.config)`
                return None
            continue
        if m is None or snap['unmodelled']:
            return None
        if pg is None or pg >= len(plan['pages']):
            if any(cb[0] in 'uw' for p, cb, pr, fs, kw in m['hooks']) or m['er'] != 'N':
                return None           # tools switched on above the page level reach a path the plan has no page for
            continue
        if pg in done:
            if done[pg] != snap['lean']:
                return None
            continue
        done[pg] = snap['lean']
        if m['ranks'] is None:
            return None
        hooks = []
        for (p, cb, pr, fs, kw), (rank, fsb) in zip(m['hooks'], m['ranks']):
            if cb[0] in 'uw':
                hid = int(cb[1:])
                hooks.append([p, hid, rank, fsb, outs.get(hid, 'ok')])
        out['pages'][pg]['hooks'] = hooks
        if m['er'] != 'N' and int(m['er']) in outs:
            out['pages'][pg]['errResp'] = outs[int(m['er'])]
    for pg in out['pages']:
        pg.pop('decls', None)
    out.pop('cls', None)
    return out


# ----------------------------------------------------------------------------------------------
# generators
# ----------------------------------------------------------------------------------------------
BIG = 2 ** 70
PRIO_BOUNDARY = [0, 0.0, -0.0, -1, -50, 1, 0.25, 49, 49.5, 49.75, 50, 50.0, 50.25, 51, 99, 100, 100.5, 101,
                 10 ** 9, BIG, -BIG, float(2 ** 60), True, False, None, '10', '5', '']
PRIO_LADDER = [0, 1, 10, 49, 50, 50, 51, 60, 90]
FS_VALUES = [True, False, 1, 0, None, '', 'False']
HOOK_CHANNELS = ['hobj', 'hbare', 'hstr']
TOOL_CHANNELS = ['tool', 'htool', 'ctool', 'stool']


def _ref(nid, pt, prio, fs=False, out='ok', as_tool=False, box='vt'):
    nid[0] += 1
    if as_tool:
        return {'id': nid[0], 'pt': pt, 'out': out, 'ch': 'tool', 'box': box, 'tp': prio,
                'conf': [['p', 'on', True]] + ([['p', 'failsafe', True]] if fs else [])}
    d = {'id': nid[0], 'pt': pt, 'out': out, 'ch': 'hobj', 'hp': prio}
    if fs:
        d['hf'] = True
    return d


def priority_slots(ch):
    """Where a priority can be written for a channel, strongest first."""
    if ch == 'hobj':
        return ['hp', 'ap']
    if ch in ('hbare', 'hstr'):
        return ['ap']
    if ch in ('tool', 'stool'):
        return ['conf:p', 'conf:h', 'conf:a', 'conf:r', 'conf:g', 'deco', 'ap', 'tp']
    if ch == 'htool':
        return ['conf:p', 'conf:a', 'deco', 'ap']
    if ch == 'ctool':
        return ['conf:p', 'conf:g', 'deco', 'wp']
    return []


def failsafe_slots(ch):
    if ch == 'hobj':
        return ['hf', 'af']
    if ch in ('hbare', 'hstr'):
        return ['af']
    if ch in ('tool', 'stool'):
        return ['conf:p', 'conf:a', 'deco', 'af']
    if ch in ('htool', 'ctool'):
        return ['conf:p', 'deco']
    return []


def _write(d, slot, key, v):
    """key = 'priority' | 'failsafe'"""
    if slot.startswith('conf:'):
        d.setdefault('conf', []).append([slot[5:], key, v])
    elif slot == 'deco':
        d.setdefault('deco', {})[key] = v
    else:
        d[slot] = v


def _subject(nid, ch, pt, box='vt', out='ok'):
    nid[0] += 1
    d = {'id': nid[0], 'pt': 2 if ch in ('htool', 'ctool') else pt, 'out': out, 'ch': ch}
    if ch in TOOL_CHANNELS or ch == 'etool':
        d['box'] = box
        d['conf'] = [['p', 'on', True]]
    return d


def _weaker(ch, slot, key):
    slots = priority_slots(ch) if key == 'priority' else failsafe_slots(ch)
    # config levels and the decorator all end up in the same config entry: they are one channel
    if slot.startswith('conf:') or slot == 'deco':
        return [s for s in slots if not s.startswith('conf:') and s != 'deco']
    return slots[slots.index(slot) + 1:]


def targeted_plans():
    """Every channel x every slot a priority / fail-safe flag can be written to x every boundary value, the weaker
    channels filled with decoys, among reference hooks with neighbouring priorities attached before and after."""
    out = []
    P, B = pc.base_plan, pc.base_page
    for ch in HOOK_CHANNELS + TOOL_CHANNELS:
        for slot in priority_slots(ch):
            for v in PRIO_BOUNDARY:
                for refs_after in (0, 1):
                    if refs_after and (zlib.crc32(repr((ch, slot, v)).encode()) % 3):
                        continue        # the second variant for a third of the combinations
                    nid = [0]
                    pt = 2
                    d = _subject(nid, ch, pt, box=BOXES[len(out) % 3])
                    _write(d, slot, 'priority', v)
                    for n, w in enumerate(_weaker(ch, slot, 'priority')):
                        _write(d, w, 'priority', [70, 30, 80][n % 3])
                    near = [1, 49, 51, 90]
                    if is_num(v):
                        near += [v, int(v) if v == v // 1 else int(v // 1), int(v // 1) + 1]
                    refs = [_ref(nid, pt, r, as_tool=bool(refs_after), box='vx') for r in near]
                    decls = ([d] + refs) if refs_after else (refs + [d])
                    if ch in HOOK_CHANNELS and refs_after:
                        decls = [d] + [_ref(nid, pt, r) for r in near]
                    out.append(P([B(decls=decls)]))
        for slot in failsafe_slots(ch):
            for v in FS_VALUES:
                for decoy in (True, False):
                    nid = [0]
                    pt = 2
                    d = _subject(nid, ch, pt, box=BOXES[len(out) % 3])
                    _write(d, slot, 'failsafe', v)
                    for w in _weaker(ch, slot, 'failsafe'):
                        _write(d, w, 'failsafe', decoy)
                    # a failing hook sorted first, an ordinary and a fail-safe reference around the subject
                    first = _ref(nid, pt, -5, out='ex')
                    out.append(P([B(decls=[first, _ref(nid, pt, 50, fs=True), d, _ref(nid, pt, 50),
                                           _ref(nid, pt, 60, fs=True, as_tool=True)])]))
    # switched on / off / by other values, at every level; ErrorTool against request.error_response
    for ch in TOOL_CHANNELS + ['etool']:
        for on in (True, False, 1, 0, None, 'absent'):
            for level in 'pahrg':
                nid = [0]
                d = _subject(nid, ch, 2)
                d['conf'] = [] if on == 'absent' else [[level, 'on', on]]
                d['conf'].append(['p', 'a0', 7])
                out.append(P([B(decls=[_ref(nid, 2, 10), d, _ref(nid, 6, 50), _ref(nid, 7, 50)],
                                handler=['ex', 'bytes', None], errResp='ok' if ch == 'etool' and level == 'p' else None)]))
    # a HandlerTool that handles the request; a malformed toolbox entry (populate raises inside the namespaces)
    for out_ in ('ok', 'ex'):
        nid = [0]
        d = _subject(nid, 'htool', 2, out=out_)
        d['ret'] = 1
        out.append(P([B(decls=[_ref(nid, 2, 10), d, _ref(nid, 2, 60), _ref(nid, 4, 50, fs=True), _ref(nid, 5, 50, fs=True)])]))
    for box in BOXES:
        nid = [0]
        d = _subject(nid, 'tool', 0, box=box)
        d['conf'].append(['p', '', True])
        out.append(P([B(decls=[_ref(nid, 0, 10), d, _subject(nid, 'tool', 4, box=box), _ref(nid, 4, 50, fs=True),
                               _ref(nid, 5, 50, fs=True)])]))
    # session tool locking modes
    for lock in ('implicit', 'early', 'explicit', None, 'absent'):
        nid = [0]
        d = _subject(nid, 'stool', 1)
        if lock != 'absent':
            d['conf'].append(['p', 'locking', lock])
        out.append(P([B(decls=[_ref(nid, 1, 55), d, _ref(nid, 5, 95, fs=True), _ref(nid, 3, 40)])]))
    # class-level hooks, redirect chains: every request copies the class-level map
    nid = [0]
    cls = [{'id': 900, 'pt': 0, 'out': 'ok', 'ch': 'cls', 'hp': 0}, {'id': 901, 'pt': 5, 'out': 'ok', 'ch': 'cls', 'hf': True},
           {'id': 902, 'pt': 4, 'out': 'ok', 'ch': 'cls', 'ap': 10, 'af': True}]
    for handler in (['ok', 'bytes', None], ['ir1', 'bytes', None], ['ex', 'bytes', None]):
        out.append(P([B(decls=[_ref(nid, 0, 0), _ref(nid, 4, 10), _subject(nid, 'tool', 0)], handler=handler),
                      B(decls=[_ref(nid, 0, -1), _subject(nid, 'stool', 5)], handler=['ir0', 'bytes', None])], cls=cls))
    # request attributes / listeners that change how processing ends (oracle only)
    end = [[4, 90, 50, 1, 'ok'], [5, 91, 50, 1, 'ok'], [4, 92, 50, 0, 'ok'], [5, 93, 50, 0, 'ok']]
    for opts in [[o] for o in REQOPTS] + [['throw_errors', 'ar_fail'], ['throws_ex', 'er_none'], ['er_none', 'ar_fail']]:
        for handler in (['ok', 'bytes', None], ['ex', 'bytes', None], ['he404', 'bytes', None], ['hr303', 'bytes', None],
                        ['ir1', 'bytes', None], ['ok', 'gen1', None]):
            for bad in (None, [4, 1, 10, 0, 'ex'], [5, 1, 10, 0, 'ex'], [6, 1, 10, 0, 'ex'], [3, 1, 10, 0, 'he500'],
                        [4, 1, 10, 0, 'ir1']):
                for stream in ((0, 1) if (bad is None or handler[1] != 'bytes') else (0,)):
                    out.append(P([B(hooks=end + ([bad] if bad else []), handler=handler, stream=stream),
                                  B(hooks=[[4, 94, 50, 1, 'ok'], [5, 95, 50, 1, 'ok']])],
                                 reqopt={o: 1 for o in opts}, closes=2 if stream else 1))
    return out


def _rand_prio(rng):
    return rng.choice(PRIO_BOUNDARY) if rng.random() < 0.5 else rng.choice(PRIO_LADDER)


def gen_decl(rng, nid, pt, npages, focus_fs=False):
    ch = rng.choices(['hobj', 'hbare', 'hstr', 'tool', 'htool', 'ctool', 'stool', 'etool'],
                     weights=[22, 10, 5, 28, 12, 9, 9, 5])[0]
    d = _subject(nid, ch, pt, box=rng.choice(BOXES), out=pc.gen_out(rng, npages, weights=(70, 14, 6, 5, 5)))
    if ch == 'etool':
        d['conf'] = [[rng.choice('pa'), 'on', rng.choice([True, True, False])]]
        return d
    for slot in priority_slots(ch):
        if rng.random() < (0.45 if not slot.startswith('conf') else 0.2):
            _write(d, slot, 'priority', _rand_prio(rng))
    for slot in failsafe_slots(ch):
        if rng.random() < (0.5 if focus_fs else 0.25):
            _write(d, slot, 'failsafe', rng.choice(FS_VALUES))
    if ch in TOOL_CHANNELS:
        r = rng.random()
        if r < 0.12:
            d['conf'][0] = [rng.choice('pa'), 'on', rng.choice([False, 0, None, 1])]
        elif r < 0.2:
            d['conf'][0][0] = rng.choice('ahrg')
        if rng.random() < 0.3:
            d['conf'].append([rng.choice('pa'), rng.choice(KW_NAMES), rng.choice([1, 'x', None, False])])
        if ch == 'htool' and rng.random() < 0.15:
            d['ret'] = 1
        if rng.random() < 0.02:
            d['conf'].append(['p', '', True])
        if ch == 'stool' and rng.random() < 0.6:
            d['conf'].append(['p', 'locking', rng.choice(['implicit', 'early', 'explicit', None])])
        rng.shuffle(d['conf'])
    if ch == 'hobj' and rng.random() < 0.15:
        d['hkw'] = {rng.choice(KW_NAMES): rng.choice([1, 'x'])}
    return d


def gen_plan(rng):
    base = pc.gen_plan(rng, focus=None)
    npages = len(base['pages'])
    nid = [0]
    focus_fs = rng.random() < 0.4
    for pg in base['pages']:
        pg['hooks'] = []
        # a failing config namespace handler stops `self.namespaces(self.config)` half way (the toolboxes an
        # application adds come after it): the other plans cover that; here every namespace is processed
        pg['ns'] = 'ok'
        pt = rng.randrange(8)
        decls = []
        for _ in range(rng.choice([2, 3, 4, 5, 6])):
            decls.append(gen_decl(rng, nid, pt if rng.random() < 0.8 else rng.randrange(8), npages, focus_fs))
        if focus_fs:
            decls.append(_ref(nid, pt, rng.choice([-5, 0, -BIG]), out=rng.choice(['ex', 'he404', 'ex'])))
        rng.shuffle(decls)
        pg['decls'] = decls
    if rng.random() < 0.12:
        base['reqopt'] = {o: 1 for o in rng.sample(REQOPTS, rng.choice([1, 1, 2]))}
    if rng.random() < 0.25:
        base['cls'] = []
        for _ in range(rng.choice([1, 2])):
            nid[0] += 1
            c = {'id': nid[0], 'pt': rng.randrange(8), 'out': pc.gen_out(rng, npages, weights=(80, 10, 4, 3, 3)), 'ch': 'cls'}
            if rng.random() < 0.6:
                c['hp'] = _rand_prio(rng)
            if rng.random() < 0.4:
                c['hf'] = rng.choice(FS_VALUES)
            base['cls'].append(c)
    return base


def mutate(plan, rng):
    """A neighbour of a declaration plan (for the search around a disagreement)."""
    c = copy.deepcopy(plan)
    pages = [pg for pg in c['pages'] if pg.get('decls')]
    if not pages:
        return c
    pg = rng.choice(pages)
    d = rng.choice(pg['decls'])
    r = rng.random()
    if r < 0.4 and priority_slots(d['ch']):
        _write(d, rng.choice(priority_slots(d['ch'])), 'priority', _rand_prio(rng))
    elif r < 0.6 and failsafe_slots(d['ch']):
        _write(d, rng.choice(failsafe_slots(d['ch'])), 'failsafe', rng.choice(FS_VALUES))
    elif r < 0.75:
        d['out'] = pc.gen_out(rng, len(c['pages']))
    elif r < 0.9:
        nid = [max(x['id'] for g in c['pages'] for x in g.get('decls', [])) + 1000]
        pg['decls'].insert(rng.randrange(len(pg['decls']) + 1), gen_decl(rng, nid, d['pt'], len(c['pages'])))
    else:
        pg['handler'] = pc.gen_handler(rng, len(c['pages']))
    return c


def shrink(plan, still_fails):
    """Drop declarations / slots while the failure stays."""
    cur = copy.deepcopy(plan)

    def attempt(cand):
        nonlocal cur
        try:
            if still_fails(cand):
                cur = cand
                return True
        except common.HarnessError:
            pass
        return False

    for _ in range(4):
        changed = False
        if cur.get('cls'):
            cand = copy.deepcopy(cur)
            cand.pop('cls')
            changed |= attempt(cand)
        for i in range(len(cur['pages'])):
            k = 0
            while k < len(cur['pages'][i].get('decls', [])):
                cand = copy.deepcopy(cur)
                del cand['pages'][i]['decls'][k]
                if attempt(cand):
                    changed = True
                else:
                    k += 1
            for k, d in enumerate(cur['pages'][i].get('decls', [])):
                for key in ('ap', 'af', 'hp', 'hf', 'hkw', 'tp', 'wp', 'deco'):
                    if key in cur['pages'][i]['decls'][k]:
                        cand = copy.deepcopy(cur)
                        del cand['pages'][i]['decls'][k][key]
                        changed |= attempt(cand)
                n = 0
                while n < len(cur['pages'][i]['decls'][k].get('conf', [])):
                    cand = copy.deepcopy(cur)
                    del cand['pages'][i]['decls'][k]['conf'][n]
                    if attempt(cand):
                        changed = True
                    else:
                        n += 1
        if not changed:
            break
    return pc.shrink_plan(cur, still_fails)
