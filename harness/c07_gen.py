"""C07 - per-element grammars with systematic mutations, and request assembly per target resource.

Everything a case contains is something a conforming HTTP server can derive from client bytes: method token,
path/query of code points <= U+00FF, header values without CR/LF (Latin-1), arbitrary body bytes (kept as a
Latin-1 string in the JSON case), HTTP/1.0 | HTTP/1.1.
"""
import base64
import hashlib
import json
import time

CHARSETS_OK = ['utf-8', 'UTF-8', 'iso-8859-1', 'latin-1', 'us-ascii', 'ascii', 'utf-16', 'cp1252', 'utf_8_sig',
               'utf-7', 'utf-32', 'cp037', 'unicode_escape', 'raw_unicode_escape']
CHARSETS_BAD = ['nosuch', 'utf-9', 'undefined', 'idna', 'punycode', 'hex', 'base64', 'rot13', 'zlib', 'bz2',
                'uu', 'quopri', 'mbcs', 'oem', 'x' * 300, 'utf-8;', 'u\xf1', '"utf-8', 'utf 8', '*', '=', "'"]
NUMBERS_BAD = ['', 'abc', '1e3', '-1', '+5', '0x10', '1.5', '1 0', '\xb2', '\xb9\xb3', '1_0', ' 7 ', '9' * 25,
               '9' * 4400, 'NaN', 'inf', '١', '1,2', '1;2', '0' * 5000]
TOKENS = ['a', 'b', 'key', 'x-1', 'n\xe4me', 'k%20x', '', ' ', 'a b']
HTTP_DATES = ['Sun, 06 Nov 1994 08:49:37 GMT', 'Sunday, 06-Nov-94 08:49:37 GMT', 'Sun Nov  6 08:49:37 1994',
              'Thu, 01 Jan 2099 00:00:00 GMT', '0', 'yesterday', 'Sun, 06 Nov 1994 08:49:37', '-1',
              'Sun, 99 Nov 1994 08:49:37 GMT', 'Sun, 06 Nov 99999999999 08:49:37 GMT']


def pick(rng, xs):
    return xs[rng.randrange(len(xs))]


# --------------------------------------------------------------------------------------------------
# generic mutations on a text element
# --------------------------------------------------------------------------------------------------
SEPS = ['=', ';', ',', '-', ':', '&', '/', ' ', '"', "'", '?', '*', '.', '%']
MUTATIONS = ['truncate', 'duplicate', 'wrongsep', 'dropsep', 'badnumber', 'quote', 'dropquote', 'oversize',
             'badcharset', 'insert', 'ctl', 'encword', 'case', 'empty', 'space']


def mutate(rng, s, kind=None):
    """One systematic mutation of the element `s` (text, code points <= U+00FF, no CR/LF)."""
    kind = kind or pick(rng, MUTATIONS)
    n = len(s)
    if kind == 'truncate':
        return s[:rng.randrange(n + 1)] if n else s
    if kind == 'duplicate':
        if not n:
            return s
        i = rng.randrange(n)
        j = rng.randrange(i, n) + 1
        return s[:j] + s[i:j] * rng.choice([1, 1, 2, 5]) + s[j:]
    if kind in ('wrongsep', 'dropsep'):
        pos = [i for i, c in enumerate(s) if c in SEPS]
        if not pos:
            return s + pick(rng, SEPS)
        i = pick(rng, pos)
        return s[:i] + ('' if kind == 'dropsep' else pick(rng, SEPS)) + s[i + 1:]
    if kind == 'badnumber':
        # replace a maximal digit run
        runs, i = [], 0
        while i < n:
            if s[i].isdigit():
                j = i
                while j < n and s[j].isdigit():
                    j += 1
                runs.append((i, j))
                i = j
            else:
                i += 1
        if not runs:
            return s + pick(rng, NUMBERS_BAD)
        i, j = pick(rng, runs)
        return s[:i] + pick(rng, NUMBERS_BAD) + s[j:]
    if kind == 'quote':
        i = rng.randrange(n + 1)
        return s[:i] + pick(rng, ['"', '"', "'", '\\', '\\"', '<', '(']) + s[i:]
    if kind == 'dropquote':
        pos = [i for i, c in enumerate(s) if c in '"\'']
        if not pos:
            return s
        i = pick(rng, pos)
        return s[:i] + s[i + 1:]
    if kind == 'oversize':
        if not n:
            return 'A' * rng.choice([300, 5000])
        i = rng.randrange(n)
        j = min(n, i + rng.choice([1, 2, 8]))
        return s[:i] + s[i:j] * rng.choice([50, 300, 3000]) + s[j:]
    if kind == 'badcharset':
        for cs in CHARSETS_OK:
            k = s.find(cs)
            if k >= 0:
                return s[:k] + pick(rng, CHARSETS_BAD + CHARSETS_OK) + s[k + len(cs):]
        return s + '; charset=' + pick(rng, CHARSETS_BAD)
    if kind == 'insert':
        i = rng.randrange(n + 1)
        return s[:i] + pick(rng, ['\xff', '\xe9', '\x00', '%', '%zz', '%ff', '%c3', '=?', '?=', '\x7f', '\t',
                                  '\x85', '\xa0', ';', ',', '=', ';;', ',,', '\x1f', '[', ']', '{', '://']) + s[i:]
    if kind == 'ctl':
        i = rng.randrange(n + 1)
        return s[:i] + chr(rng.choice([0, 1, 8, 9, 11, 12, 27, 127, 128, 159, 160, 255])) + s[i:]
    if kind == 'encword':
        return pick(rng, [s + ' ', '']) + gen_encoded_word(rng)
    if kind == 'case':
        return s.swapcase()
    if kind == 'empty':
        return ''
    if kind == 'space':
        i = rng.randrange(n + 1)
        return s[:i] + pick(rng, [' ', '  ', '\t', ' \t ']) + s[i:]
    return s


def mutated(rng, s, p=0.6):
    """Mostly valid with a malformed stream: 0, 1 or 2 mutations."""
    r = rng.random()
    if r > p:
        return s
    s = mutate(rng, s)
    if r < p * 0.25:
        s = mutate(rng, s)
    return sanitize(s)


def sanitize(s):
    """What the wire format itself cannot carry inside one header value / request line."""
    return ''.join(c for c in s if c not in '\r\n' and ord(c) <= 0xFF)


# --------------------------------------------------------------------------------------------------
# element grammars
# --------------------------------------------------------------------------------------------------
def gen_encoded_word(rng):
    cs = pick(rng, ['utf-8', 'iso-8859-1', 'us-ascii', 'utf-8', 'utf-8'] + CHARSETS_BAD[:10] + ['utf-16', 'utf-7'])
    enc = pick(rng, ['q', 'Q', 'b', 'B', 'b', 'x', ''])
    if enc.lower() == 'b':
        raw = pick(rng, [b'hello', b'\xff\xfe', b'f\xc3\xbcr', b'', b'a', b'\xe9'])
        txt = base64.b64encode(raw).decode()
        txt = pick(rng, [txt, txt, txt.rstrip('='), txt[:-1], txt + '=', 'a', 'ab', 'abc', 'abcde', '!!!!', '===='])
    else:
        txt = pick(rng, ['abc', 'f=C3=BCr', '=FF=FE', '=E9', 'a_b', '=', '=F', '=ZZ', '', 'a b', '=C3'])
    w = '=?%s?%s?%s?=' % (cs, enc, txt)
    return pick(rng, [w, w, w, w + w, w + ' ' + w, 'x' + w, w + 'y', '=?' + cs + '?' + enc, '=?=', '=??=', '=???=',
                      '=?%s?%s?%s' % (cs, enc, txt), '=?%s*en?%s?%s?=' % (cs, enc, txt)])


def gen_qs(rng):
    kind = rng.random()
    if kind < 0.15:
        return pick(rng, ['%d,%d' % (rng.randrange(1000), rng.randrange(1000)), '1,2x', '1,2=v', '1,', ',2', '1,2,3',
                          '\xb2,3', '1,\xb3', '9' * 4400 + ',1', '1,' + '9' * 5000, '1;2', ' 1,2', '1,2 ', '01,02',
                          '1%2C2', '-1,2'])
    pairs = []
    for _ in range(rng.choice([0, 1, 1, 2, 3, 6])):
        k = pick(rng, TOKENS + ['a', 'b'])
        v = pick(rng, ['1', 'v', 'x y', 'x+y', '%41', '%C3%A9', '%e9', '%ff%fe', '%', '%4', '%zz', '\xe9', '\xc3\xa9',
                       '', 'a=b', '%00', '%u00e9', '%ED%A0%80', '%F4%90%80%80', '%C0%80', '%0d%0a'])
        pairs.append(pick(rng, [k + '=' + v, k + '=' + v, k, '=' + v, k + '==' + v]))
    return pick(rng, ['&', '&', '&', ';', '&&'])[0:2].join(pairs)


def gen_range(rng):
    def spec():
        a, b = rng.randrange(0, 150), rng.randrange(0, 150)
        return pick(rng, ['%d-%d' % (min(a, b), max(a, b)), '%d-' % a, '-%d' % b, '%d-%d' % (max(a, b) + 1, min(a, b)),
                          '-', '%d' % a, '-0', '0-0', '%d-%d' % (a + 500, a + 600), '0-99999999999999999999'])
    unit = pick(rng, ['bytes'] * 8 + ['Bytes', 'chars', '', ' bytes '])
    return unit + '=' + pick(rng, [', ', ',', ',', ' ,'])[0:2].join(spec() for _ in range(rng.choice([1, 1, 1, 2, 3, 12])))


def gen_etag_list(rng):
    tags = ['"abc"', 'W/"abc"', '*', '"x,y"', '"', 'abc', '"\xe9"', '""', '"3389b9f4f1f3bbdb0b6ee0b8b4f2f5d6"']
    return ', '.join(pick(rng, tags) for _ in range(rng.choice([1, 1, 2, 3])))


def gen_accept(rng, values):
    els = []
    for _ in range(rng.choice([1, 1, 2, 3, 5])):
        v = pick(rng, values)
        r = rng.random()
        if r < 0.5:
            v += pick(rng, [';q=', '; q=', ';q =', ' ; q = ', ';Q=']) + pick(
                rng, ['0', '1', '0.5', '0.001', '1.0', '.5', '0.', '1e0', 'nan', 'inf', '-1', '2', 'x', '', '0,5', '"1"',
                      '\xb2', '1_0', ' 1', '0x1', '1;q=2', '0.5;ext=1', '0.5;', '9' * 400, '1e400', '٠'])
        elif r < 0.6:
            v += pick(rng, [';level=1', ';charset=utf-8', ';a="b,c"', ';a="b', ';q', ';=', ';;'])
        els.append(v)
    return pick(rng, [', ', ',', ', ', ' , '])[0:3].join(els)


MEDIA = ['text/html', 'application/json', 'text/*', '*/*', 'image/png', 'text', '*', '/', 'text/', '/html', 'a/b/c',
         'application/xhtml+xml', 'text/html;level=1']
CHARSET_VALUES = ['utf-8', 'iso-8859-1', '*', 'us-ascii', 'utf-16', 'nosuch', 'undefined', 'idna', 'hex', 'rot13',
                  'base64', 'punycode', 'cp037', 'utf-7', 'unicode_escape', 'x' * 200, 'utf-8 ', '', 'zlib', 'mbcs']
CODINGS = ['gzip', 'deflate', 'identity', '*', 'br', 'x-gzip', 'compress', '', 'GZIP', 'gzip;']
LANGS = ['en', 'en-US', 'de', '*', 'x' * 50, 'e\xf1']


def gen_cookie(rng):
    sid = hashlib.sha1(str(rng.random()).encode()).hexdigest()
    sidv = pick(rng, [sid, sid, sid[:10], '', '../../etc/passwd', '/abs', 'a' * 300, 'a' * 5000, 'x\x00y', '..', '.',
                      'a/b', 'a\\b', 'caf\xe9', '"' + sid + '"', sid + ';', '%2e%2e', 'con', 'a b', '\x7f'])
    parts = []
    for _ in range(rng.choice([0, 1, 2])):
        parts.append(pick(rng, ['a=b', 'x="y z"', 'k=', '=v', 'novalue', 'a=b=c', 'k="unterminated', 'bad name=1',
                                'n\xe4=1', 'a,b=1', '$Version=1', 'path=/', 'expires=x', 'a=\x01', 'k[]=1', 'a:b=1',
                                'k="\\"', 'secure', 'a="b;c"', '{x}=1', 'a=(b)', 'a@b=c']))
    parts.insert(rng.randrange(len(parts) + 1), 'session_id=' + sidv)
    return pick(rng, ['; ', ';', '; ', ', ', ' '])[0:2].join(parts)


def gen_host(rng):
    return pick(rng, ['localhost:8080', 'localhost', 'example.com', '127.0.0.1:80', '[::1]:8080', '[::1', '::1]', '[',
                      ']', 'a:b:c', 'host:port', 'h\xf6st', 'a b', '', ' ', 'host/../x', 'http://evil/', 'a@b', 'a?b',
                      'a#b', 'x' * 300, 'local\x00host', '[v1.x]', 'a,b', 'host:99999999', '%41', '[::1]x', '//',
                      'a]b', 'a[b'])


def gen_basic(rng):
    up = pick(rng, ['user:pw', 'user:wrong', 'nobody:pw', 'user', ':', '', 'jos\xe9:se\xf1a', 'user:p:w', 'a' * 300 + ':b',
                    '\x00:\x00', 'user:pw\n'])
    raw = up.encode(pick(rng, ['utf-8', 'latin-1']))
    if rng.random() < 0.1:
        raw = pick(rng, [b'\xff\xfe', b'\xc3', b'\xed\xa0\x80:x', b'\xff:\xff'])
    b64 = base64.b64encode(raw).decode()
    b64 = pick(rng, [b64] * 6 + [b64.rstrip('='), b64[:-1], b64 + '=', b64[:1], '!!!!', b64 + ' x', 'Zm9v\xe9', '',
                                 b64.replace('=', '-'), ' ' + b64, b64[:3], 'a', '=' + b64, 'Zm9vOmJh cg=='])
    scheme = pick(rng, ['Basic'] * 8 + ['basic', 'BASIC', 'Basi', 'Basic:', 'Bearer', ''])
    sep = pick(rng, [' '] * 8 + ['', '  ', '\t', '='])
    return scheme + sep + b64


def md5hex(s):
    return hashlib.md5(s.encode('utf-8')).hexdigest()


def gen_digest(rng, method, uri, realm, key, now=None):
    """A digest Authorization header computed like a real client would, then damaged field by field."""
    now = int(now if now is not None else time.time())
    user, pw = pick(rng, [('user', 'pw'), ('user', 'pw'), ('user', 'wrong'), ('nobody', 'pw'), ('jos\xe9', 'se\xf1a')])
    ts = pick(rng, [str(now)] * 6 + [str(now - 100000), 'abc', '', str(now) + 'x', '-5', '9' * 30, '\xb2', '9' * 4400,
                                     '1_0', ' ' + str(now)])
    h = md5hex('%s:%s:%s' % (ts, realm, key))
    nonce = pick(rng, ['%s:%s' % (ts, h)] * 8 + [ts, h, '%s:%s:x' % (ts, h), ':', '', '%s:%s' % (ts, h[:-1]), ts + ':'])
    qop = pick(rng, ['auth'] * 5 + [None, None, 'auth-int', 'auth-int', 'AUTH', 'auth,auth-int', 'x', ''])
    alg = pick(rng, ['MD5'] * 5 + [None, None, 'md5', 'MD5-sess', 'MD5-SESS', 'SHA-256', '', 'x'])
    nc = pick(rng, ['00000001'] * 6 + [None, '', 'x', '1'])
    cnonce = pick(rng, ['0a4f113b'] * 6 + [None, '', 'x"y'])
    ha1 = md5hex('%s:%s:%s' % (user, realm, pw))
    if alg and alg.upper() == 'MD5-SESS':
        ha1 = md5hex('%s:%s:%s' % (ha1, nonce, cnonce))
    ha2 = md5hex('%s:%s' % (method, uri))
    if qop:
        resp = md5hex('%s:%s:%s:%s:%s:%s' % (ha1, nonce, nc, cnonce, qop, ha2))
    else:
        resp = md5hex('%s:%s:%s' % (ha1, nonce, ha2))
    resp = pick(rng, [resp] * 7 + ['', 'x', resp[:-1], resp.upper()])
    fields = [('username', user, True), ('realm', pick(rng, [realm] * 6 + ['other', '']), True), ('nonce', nonce, True),
              ('uri', pick(rng, [uri] * 6 + ['/other', '', '*']), True), ('response', resp, True)]
    if alg is not None:
        fields.append(('algorithm', alg, rng.random() < 0.5))
    if qop is not None:
        fields.append(('qop', qop, rng.random() < 0.5))
    if nc is not None:
        fields.append(('nc', nc, False))
    if cnonce is not None:
        fields.append(('cnonce', cnonce, True))
    if rng.random() < 0.3:
        fields.append(('opaque', 'xyz', True))
    if rng.random() < 0.25:
        del fields[rng.randrange(len(fields))]
    if rng.random() < 0.15:
        fields.append(fields[rng.randrange(len(fields))])
    if rng.random() < 0.3:
        rng.shuffle(fields)
    items = []
    for k, v, q in fields:
        items.append('%s="%s"' % (k, v) if q else '%s=%s' % (k, v))
    hdr = pick(rng, ['Digest '] * 8 + ['digest ', 'Digest', 'Digest  ', 'DIGEST ']) + pick(rng, [', ', ',', ', ']).join(items)
    # utf-8 user names travel as Latin-1 code points of the UTF-8 bytes, or as raw Latin-1
    if rng.random() < 0.5:
        try:
            hdr = hdr.encode('utf-8').decode('latin-1')
        except UnicodeError:
            pass
    return hdr


def gen_content_type(rng, base=None):
    base = base or pick(rng, ['application/x-www-form-urlencoded', 'multipart/form-data', 'application/json',
                              'text/plain', 'text/javascript', 'multipart/mixed', 'application/octet-stream', 'text/xml',
                              'multipart', 'application', '', 'x', 'a/b/c', '/', 'TEXT/PLAIN'])
    if rng.random() < 0.55:
        base += pick(rng, ['; charset=', ';charset=', '; CHARSET=', ';charset ="', '; charset="']) + \
            pick(rng, CHARSETS_OK[:6] + CHARSETS_OK + CHARSETS_BAD)
        if base.count('"') == 1 and rng.random() < 0.8:
            base += '"'
    return base


def gen_urlencoded(rng):
    pairs = []
    for _ in range(rng.choice([0, 1, 1, 2, 3, 8])):
        k = pick(rng, ['a', 'b', 'key', 'n\xe4me', 'k%20', '', 'a..b', 'xn--a', '%ff', '\xff'])
        v = pick(rng, ['1', 'v', 'x+y', '%41', '%C3%A9', '%e9', '%ff%fe', '%', '%4', '%zz', '\xe9', '\xc3\xa9', '', 'a=b',
                       '%00', '\x00', '\\x', '\\u12', '+AGE-', '+ZZ', 'a..b', 'xn--', '\xff\xfe', '\x80', 'A' * 3000])
        pairs.append(pick(rng, [k + '=' + v, k + '=' + v, k, '=' + v]))
    return pick(rng, ['&', '&', '&', ';'])[0:1].join(pairs)


def gen_json(rng):
    good = [{'a': 1}, [1, 2, 3], 'str', 1, None, {'a': {'b': [1, {'c': None}]}}, 1.5, True, {'\xe9': '\u20ac'}]
    txt = json.dumps(pick(rng, good), ensure_ascii=rng.random() < 0.5)
    raw = txt.encode('utf-8')
    r = rng.random()
    if r < 0.5:
        return raw.decode('latin-1')
    return pick(rng, [raw[:len(raw) // 2], raw + b'x', b'', b'{', b'[' * 50, b'[' * 5000, b'{"a":' * 3000, b'\xff\xfe',
                      b'NaN', b'-Infinity', b'1e999', b'9' * 5000, b'"\\ud800"', b'"\\x"', b'{"a":1,}', b"{'a':1}",
                      b'\xef\xbb\xbf{}', b'{"a":1}{"b":2}', b'"' + b'a' * 3000, b'\x00', b' ', b'nul', b'[1,]', b'--1',
                      b'0x10', b'"\xc3"', b'"\xed\xa0\x80"', b'1' + b'0' * 4400]).decode('latin-1')


DISPOSITIONS = ['form-data; name="a"', 'form-data; name="f"; filename="x.txt"', 'form-data; name=a', 'form-data',
                'attachment; filename="a.txt"', "form-data; name=\"f\"; filename*=utf-8''%e2%82%ac.txt",
                "form-data; name=\"f\"; filename*=nosuch''%41.txt", "form-data; name=\"f\"; filename*=nosuch''abc.txt",
                "form-data; name=\"f\"; filename*=utf-8'%41", "form-data; name=\"f\"; filename*=a'b'c'd",
                "form-data; name=\"f\"; filename*=", "form-data; name=\"f\"; filename*=''", 'form-data; name="a',
                "form-data; name=\"f\"; filename*=undefined''%41", "form-data; name=\"f\"; filename*=hex''%41",
                "form-data; name=\"f\"; filename*=utf-16''%41", 'form-data; name="a"; name="b"', 'form-data; name=""',
                '', ';', 'form-data;;', 'form-data; filename="only"', 'form-data; name="\xe9"; filename="\xe9"',
                "form-data; name=\"f\"; filename*=UTF-8'en'%c3%28"]
PART_TYPES = [None, None, 'text/plain', 'text/plain; charset=utf-8', 'text/plain; charset=iso-8859-1',
              'text/plain; charset=nosuch', 'text/plain; charset=undefined', 'text/plain; charset=idna',
              'application/octet-stream', 'multipart/mixed; boundary=inner', 'multipart/mixed', 'text/plain; charset=hex',
              'application/x-www-form-urlencoded', 'application/x-www-form-urlencoded; charset=nosuch', 'x', '',
              'text/plain; charset=utf-16', 'multipart/mixed; boundary=' + 'b' * 300, 'text/plain; charset="']
CONTENTS = [b'', b'value', b'caf\xc3\xa9', b'caf\xe9', b'\xff\xfe\x00', b'line1\r\nline2', b'a\n--B\nb', b'--', b'--x',
            b'\r\n', b'A' * 1200, b'A' * 70000, b'a=1&b=2', b'\x00', b'a..b', b'--inner\r\n\r\nx\r\n--inner--',
            b'--inner\r\nContent-Disposition: form-data; name="n"\r\n\r\nv\r\n--inner--\r\n']


def gen_multipart(rng, boundary):
    """A multipart body over `boundary` (bytes-as-latin-1 text), damaged with some probability."""
    b = boundary.encode('latin-1', 'replace')
    out = []
    if rng.random() < 0.15:
        out.append(pick(rng, [b'preamble\r\n', b'\r\n', b'--\r\n', b'x' * 200 + b'\r\n']))
    nparts = rng.choice([0, 1, 1, 2, 3])
    for _ in range(nparts):
        out.append(b'--' + b + pick(rng, [b'\r\n'] * 8 + [b'\n', b'  \r\n', b'\t\r\n']))
        hdrs = []
        d = pick(rng, DISPOSITIONS)
        if rng.random() < 0.3:
            d = sanitize(mutate(rng, d))
        if rng.random() < 0.92:
            hdrs.append(b'Content-Disposition: ' + d.encode('latin-1'))
        t = pick(rng, PART_TYPES)
        if t is not None:
            if rng.random() < 0.2:
                t = sanitize(mutate(rng, t))
            hdrs.append(b'Content-Type: ' + t.encode('latin-1'))
        if rng.random() < 0.12:
            hdrs.append(pick(rng, [b'Content-Length: 5', b'Content-Length: x', b'X-Y: z', b'Content-Transfer-Encoding: base64',
                                   b'Content-Length: ' + b'9' * 4400, b'Content-Type: text/plain',
                                   b'Content-Disposition: form-data; name="again"']))
        for h in hdrs:
            r = rng.random()
            if r < 0.80:
                out.append(h + b'\r\n')
            elif r < 0.84:
                out.append(h + b'\n')                        # bare LF
            elif r < 0.88:
                out.append(h.replace(b':', b'', 1) + b'\r\n')   # no colon
            elif r < 0.92:
                out.append(b' ' + h + b'\r\n')                 # continuation line first
            elif r < 0.95:
                out.append(h + b'\r\n\tcontinued\r\n')
            elif r < 0.97:
                out.append(h)                                 # no terminator at all
            else:
                out.append(h[:len(h) // 2] + b'\r\n')
        out.append(pick(rng, [b'\r\n'] * 10 + [b'\n', b'', b'\r\n\r\n']))
        out.append(pick(rng, CONTENTS))
        out.append(pick(rng, [b'\r\n'] * 10 + [b'\n', b'']))
    out.append(pick(rng, [b'--' + b + b'--\r\n'] * 8 + [b'--' + b + b'--', b'--' + b + b'\r\n', b'', b'--' + b + b'-\r\n',
                          b'--' + b + b'--  \r\n', b'--' + b + b'--\r\nepilogue']))
    body = b''.join(out)
    r = rng.random()
    if r < 0.15 and body:
        body = body[:rng.randrange(len(body))]          # truncated body
    elif r < 0.18:
        body = body.replace(b'\r\n', b'\n')
    elif r < 0.20:
        body = body + body
    return body.decode('latin-1')


BOUNDARIES = ['B', 'B', 'B', 'XyZ123', '----WebKitFormBoundary7MA4YWxk', '"B"', '"B', 'B"', '', ' ', 'B ', ' B', 'b' * 70,
              'b' * 201, 'b' * 202, 'b' * 300, 'B\xe9', 'a b', 'a;b', '"a;b"', 'B\x7f', '\t', '""', 'inner', "B'", '=']


def gen_ct_multipart(rng, sub='form-data'):
    bnd = pick(rng, BOUNDARIES)
    r = rng.random()
    if r < 0.8:
        ct = 'multipart/%s; boundary=%s' % (sub, bnd)
    elif r < 0.85:
        ct = 'multipart/%s' % sub
    elif r < 0.9:
        ct = 'multipart/%s; boundary' % sub
    elif r < 0.95:
        ct = 'multipart/%s; charset=%s; boundary=%s' % (sub, pick(rng, CHARSETS_BAD + CHARSETS_OK), bnd)
    else:
        ct = 'multipart/%s; boundary=%s; boundary=other' % (sub, bnd)
    return ct, bnd.strip('"')


# --------------------------------------------------------------------------------------------------
# header pool used on every target
# --------------------------------------------------------------------------------------------------
def gen_header(rng, name, ctx=None):
    if name == 'Range':
        return gen_range(rng)
    if name in ('If-Match', 'If-None-Match'):
        return gen_etag_list(rng)
    if name in ('If-Modified-Since', 'If-Unmodified-Since'):
        return pick(rng, HTTP_DATES)
    if name == 'If-Range':
        return pick(rng, HTTP_DATES + ['"abc"', 'W/"x"', '*'])
    if name in ('Accept', 'TE'):
        return gen_accept(rng, MEDIA if name == 'Accept' else ['trailers', 'deflate', 'chunked', 'x'])
    if name == 'Accept-Charset':
        return gen_accept(rng, CHARSET_VALUES)
    if name == 'Accept-Encoding':
        return gen_accept(rng, CODINGS)
    if name == 'Accept-Language':
        return gen_accept(rng, LANGS)
    if name == 'Cookie':
        return gen_cookie(rng)
    if name == 'Host':
        return gen_host(rng)
    if name == 'Cache-Control':
        return pick(rng, ['max-age=%d' % rng.randrange(100), 'max-age=0', 'no-cache', 'max-age', 'max-age=', 'max-age=x',
                          'max-age=-1', 'max-age=1.5', 'max-age=\xb2', 'max-age=' + '9' * 4400, 'no-store, max-age=5',
                          'max-age="5"', 'max-age=5, max-age=x', 'MAX-AGE=5', 'max-age =5', 'max-age=5;x', 'private',
                          'max-age=1_0', 'max-age= 5', 'only-if-cached', 'max-age=1,', 'max-age==', 'max-age=+5'])
    if name == 'Pragma':
        return pick(rng, ['no-cache', 'x', 'no-cache, x', '"', ''])
    if name == 'Content-Length':
        return pick(rng, ['0', '5', '100'] + NUMBERS_BAD)
    if name == 'Transfer-Encoding':
        return pick(rng, ['chunked', 'chunked', 'gzip, chunked', 'identity', 'x', ''])
    if name == 'Trailer':
        return pick(rng, ['X-T', 'Content-Length', ''])
    if name == 'Expect':
        return pick(rng, ['100-continue', 'x', ''])
    if name == 'Connection':
        return pick(rng, ['close', 'keep-alive', 'x'])
    if name == 'Referer':
        return pick(rng, ['http://www.example.com/x', 'http://evil/', '', 'x', 'http://[', '\xe9', 'http://www.example.com'])
    if name in ('X-Forwarded-For', 'X-Forwarded-Host', 'X-Forwarded-Proto', 'X-Forwarded-Ssl'):
        return pick(rng, ['1.2.3.4', '1.2.3.4, 5.6.7.8', '', ',', 'https', 'on', 'x://y', '[', 'a b', 'host:1', ', ,',
                          'http://[::1', '://', 'https://h/p?q#f', '\xe9'])
    if name == 'Content-Disposition':
        return pick(rng, DISPOSITIONS)
    if name == 'Content-Type':
        return gen_content_type(rng)
    if name == 'Authorization':
        return pick(rng, [gen_basic(rng), 'Digest x', 'Digest', 'Bearer abc', '', ' ', 'Digest username="a"',
                          'Negotiate \xe9'])
    return pick(rng, ['x', '', 'Mozilla/5.0 (X11)', 'a, b', '"q"', gen_encoded_word(rng), '\xe9\xff', 'a\x00b', '=?', '?='])


COMMON_HEADERS = ['Range', 'If-Match', 'If-None-Match', 'If-Modified-Since', 'If-Unmodified-Since', 'If-Range', 'Accept',
                  'Accept-Charset', 'Accept-Encoding', 'Accept-Language', 'Cookie', 'Cache-Control', 'Pragma', 'TE',
                  'Expect', 'Connection', 'Referer', 'X-Forwarded-For', 'X-Forwarded-Host', 'X-Forwarded-Proto',
                  'User-Agent', 'X-Custom', 'Content-Disposition', 'Authorization', 'From', 'Trailer', 'Via',
                  'X-Forwarded-Ssl', 'Content-Type', 'Content-Length', 'Transfer-Encoding', 'Origin', 'Upgrade']

TARGETS = ['plain', 'args', 'static', 'file', 'sess', 'fsess', 'cache', 'basic', 'digest', 'json', 'upload', 'form', 'neg',
           'etag', 'decode', 'proxy', 'autovary', 'referer', 'dir', 'rest', 'index', 'missing']
# relevant elements per target: (header names always worth sending there)
RELEVANT = {
    'static': ['Range', 'If-Range', 'If-Modified-Since', 'If-Unmodified-Since', 'If-None-Match', 'If-Match',
               'Accept-Encoding'],
    'file': ['Range', 'If-Range', 'If-Modified-Since', 'If-Unmodified-Since', 'If-None-Match', 'Range', 'Range'],
    'sess': ['Cookie'], 'fsess': ['Cookie'],
    'cache': ['Cache-Control', 'Pragma', 'Accept-Encoding', 'Range', 'If-Modified-Since', 'If-None-Match'],
    'basic': [], 'digest': [], 'json': [], 'upload': [], 'form': [],
    'neg': ['Accept', 'Accept-Charset', 'Accept-Encoding', 'Accept', 'Accept-Charset', 'Accept-Encoding'],
    'etag': ['If-Match', 'If-None-Match', 'If-None-Match'],
    'decode': [], 'proxy': ['X-Forwarded-For', 'X-Forwarded-Host', 'X-Forwarded-Proto', 'X-Forwarded-Ssl', 'Host'],
    'autovary': ['Accept-Language'], 'referer': ['Referer', 'Referer'], 'dir': ['Host', 'X-Forwarded-Host'],
    'rest': [], 'plain': [], 'args': [], 'index': ['Host'], 'missing': [],
}
PATHS = {
    'plain': ['/plain', '/plain/x/y', '/plain/'], 'args': ['/args', '/args/1', '/args/1/2', '/args/1/2/3'],
    'static': ['/static/hello.txt', '/static/', '/static', '/static/missing.txt', '/static/../hello.txt',
               '/static/hello.txt/', '/static/%2e%2e/x', '/static/\x00', '/static/hello.txt\x00.jpg', '/static/\xe9',
               '/static/' + 'a' * 300, '/static//hello.txt', '/static/./hello.txt', '/static/hello.txt'],
    'file': ['/file', '/file/', '/file/x'],
    'sess': ['/sess'], 'fsess': ['/fsess'], 'cache': ['/cache', '/cache/a'], 'basic': ['/basic'], 'digest': ['/digest'],
    'json': ['/json'], 'upload': ['/upload'], 'form': ['/form'], 'neg': ['/neg'], 'etag': ['/etag'],
    'decode': ['/decode'], 'proxy': ['/proxy'], 'autovary': ['/autovary'], 'referer': ['/referer'],
    'dir': ['/dir', '/dir/', '/sub', '/sub/', '/sub/index'], 'rest': ['/rest', '/rest/', '/rest/x'],
    'index': ['/', '', '//', '/index', '/index/'],
    'missing': ['/nope', '/\xe9', '/a%00b', '/plain.txt', '/favicon.ico', '/robots.txt', '/_private', '/index/x/y',
                '/' + 'a/' * 200, '/\x00', '/..', '/../..', '/./', '/a;b', '/a?b', '/%', '/global_', '/default', '/*',
                '/plain\x7f', '/\xff\xfe', '/\xc3\x28'],
}
METHODS = ['GET', 'GET', 'GET', 'HEAD', 'POST', 'POST', 'PUT', 'DELETE', 'OPTIONS', 'PATCH', 'TRACE', 'get', 'FOO',
           'PROPFIND', 'M-SEARCH', 'CONNECT']


def gen_case(rng, target=None, digest_ctx=None):
    """One request case for `target` (mostly valid, with a malformed stream)."""
    target = target or pick(rng, TARGETS)
    path = pick(rng, PATHS[target])
    bodyful = target in ('json', 'upload', 'form', 'decode') or (target in ('plain', 'rest', 'args', 'basic', 'digest',
                                                                            'cache', 'sess')
                                                               and rng.random() < 0.35)
    if bodyful:
        method = pick(rng, ['POST'] * 6 + ['PUT', 'PUT', 'PATCH', 'GET', 'DELETE', 'FOO'])
    else:
        method = pick(rng, METHODS)
    qs = sanitize(mutated(rng, gen_qs(rng), 0.35)) if rng.random() < 0.6 else ''
    headers = []
    proto = pick(rng, ['HTTP/1.1'] * 5 + ['HTTP/1.0'])
    if rng.random() < 0.93:
        headers.append(['Host', 'localhost:8080' if rng.random() < 0.8 else gen_host(rng)])
    body = ''
    if method in ('POST', 'PUT', 'PATCH') or (bodyful and rng.random() < 0.5):
        kind = {'json': 'json', 'upload': 'multipart', 'form': 'urlencoded', 'decode': 'urlencoded'}.get(target) \
            or pick(rng, ['urlencoded', 'multipart', 'json', 'none', 'raw'])
        if rng.random() < 0.08:
            kind = pick(rng, ['urlencoded', 'multipart', 'json', 'raw', 'none'])
        ct = None
        if kind == 'urlencoded':
            body = gen_urlencoded(rng)
            ct = gen_content_type(rng, 'application/x-www-form-urlencoded')
        elif kind == 'multipart':
            ct, bnd = gen_ct_multipart(rng, pick(rng, ['form-data'] * 5 + ['mixed', 'related']))
            body = gen_multipart(rng, bnd if rng.random() < 0.93 else 'other')
        elif kind == 'json':
            body = gen_json(rng)
            ct = gen_content_type(rng, pick(rng, ['application/json'] * 4 + ['text/javascript', 'application/json-x']))
        elif kind == 'raw':
            body = pick(rng, ['', 'raw bytes \xff\x00', 'a=1'])
            ct = gen_content_type(rng)
        if ct is not None and rng.random() < 0.95:
            headers.append(['Content-Type', sanitize(mutated(rng, ct, 0.25))])
        # message framing: exact length, wrong length, none, chunked (server has de-chunked the body)
        r = rng.random()
        n = len(body)
        if r < 0.72:
            headers.append(['Content-Length', str(n)])
        elif r < 0.80:
            headers.append(['Content-Length', str(pick(rng, [n + 1, n + 100, max(0, n - 1), n // 2, 0, 10 ** 12]))])
        elif r < 0.86:
            headers.append(['Content-Length', pick(rng, NUMBERS_BAD)])
        elif r < 0.93:
            headers.append(['Transfer-Encoding', 'chunked'])
            if rng.random() < 0.3:
                headers.append(['Content-Length', pick(rng, [str(n), 'x'])])
        # else: no framing header at all -> 411
    # target-specific credentials
    if target == 'basic' and rng.random() < 0.9:
        headers.append(['Authorization', sanitize(mutated(rng, gen_basic(rng), 0.3))])
    if target == 'digest' and rng.random() < 0.92:
        uri = path + ('?' + qs if qs else '')
        d = gen_digest(rng, method, uri, (digest_ctx or {}).get('realm', 'realm'),
                       (digest_ctx or {}).get('key', 'k'), (digest_ctx or {}).get('now'))
        headers.append(['Authorization', sanitize(mutated(rng, d, 0.25))])
    # relevant elements, then a few from the common pool
    rel = RELEVANT.get(target, [])
    for name in rel:
        if rng.random() < (0.75 / max(1, len(rel) ** 0.5)):
            headers.append([name, sanitize(mutated(rng, gen_header(rng, name)))])
    for _ in range(rng.choice([0, 0, 1, 1, 2, 3])):
        name = pick(rng, COMMON_HEADERS)
        if name in ('Content-Length', 'Transfer-Encoding', 'Content-Type') and any(h[0] == name for h in headers) \
                and rng.random() < 0.7:
            continue
        headers.append([name, sanitize(mutated(rng, gen_header(rng, name)))])
    if rng.random() < 0.04:
        # any header may carry an RFC 2047 encoded word
        h = pick(rng, headers) if headers else None
        if h is not None and h[0] not in ('Host',):
            h[1] = sanitize(mutate(rng, h[1], 'encword'))
    if rng.random() < 0.05 and headers:
        headers.append(list(pick(rng, headers)))     # duplicated header line
    headers = [[k, sanitize(v).strip(' \t')] for k, v in headers]
    qs = sanitize(qs)
    return {'target': target, 'method': method, 'path': sanitize(path), 'qs': qs, 'proto': proto, 'headers': headers,
            'body': body}
